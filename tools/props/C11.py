"""C11 -- distributed matrix algebra equals serial algebra for every partition.

Case ids encode the rank count: "p<np>.<k>"; the cases of one rank count are run by one (or a
few) `mpirun -n <np>` invocations of drv_mpi_algebra (rank 0 reads the cases, broadcasts them,
gathers the per-rank results and prints them), every mpirun under `timeout`: a hang is
reported as a failure (CRASH rc=124) with the case (matrix + partition) as replay.

The MPI harness runs in binary64 on small dyadic inputs, so every operation is exact and the
printed rationals are compared byte for byte with
  * the rank-by-rank Coq model of Dist.v (split, comm pattern, spmv, residual, inner product,
    scale, sort_rows, transpose and product in storage order, remote rows, Gershgorin) and
  * the SERIAL kernels of Kernels.v/MatOps.v applied to the global matrix and cut along the
    partition (transpose, product, (A^T)x, (AB)x, copy to another backend).
Every op's per-rank output ends with the verdict of the PMPI request-discipline monitor (harness/pmpi_trace.hpp), "PMPI ok" on the
model side; op xtrace compares the recorded MPI call sequence of two consecutive products with the program DistMsg.exch_rounds;
"tr:<op>" lines return the call sequence of <op>, which is checked by the extracted discipline checkers of DistMsg.v (msgcheck).
Operation HISTORIES on one object (op "hist", model DistMove.v): constructor, then a sequence of move_to_backend(keep_src in
{false,true}) calls interleaved with consumers of the kept source (local()/remote() dump, copy to builtin<float> + product there,
transpose, product A*B, A^T*A, remote_rows(A^T pattern, A), Gershgorin, power method) and of the backend view (product, residual,
backend matrices dump, ghost-vector size), on 1..5 ranks incl. empty ranks and rectangular matrices, integer data.
Oracles: Gershgorin estimate = serial value on every rank ("gersh_spec", also with 2..5 OpenMP threads per
rank: "gersht"); power-method estimate bitwise identical on all ranks.
BLOCK VALUE TYPES (ops "b.*", driver drv_mpi_algebra_block, ids "p<np>.b<k>"): distributed_matrix<builtin<static_matrix<double,2,2>>>
on small dyadic blocks (exact in binary64; generic pairs of blocks do NOT commute, the fraction is logged): constructor split, spmv,
residual, product/residual/product on one matrix, inner product of rhs-block vectors, transpose (adjoint of the blocks), product A*B,
the Galerkin triple product transpose(P) * (A * P) as coarsening::detail::galerkin computes it, remote_rows, scale, sort_rows,
(A^T)x, (AB)x, copy to builtin<static_matrix<float,2,2>> -- over the same partition families (all contiguous partitions of small
n incl. empty ranks, rectangular, random larger), compared byte for byte with the SAME extracted Dist.v functions run at
BlockInst.BlockS QcS 2 and with the serial block kernels (MatOps.v / Kernels.v at BlockS QcS 2).
"""
import random
from fractions import Fraction as F
from vcheck import fmt_q, fmt_vec, fmt_ivec, fmt_crs
import gen
from props.common import account, oracle_run
from props.mpi_common import run_mpi
from props import blockvals as bv

DRIVERS = ["mpi_algebra", "mpi_algebra_block"]
MODEL = "dist"
MPIRUN = ["mpirun", "--allow-run-as-root", "--oversubscribe", "--bind-to", "none", "--mca", "mpi_yield_when_idle", "1", "-n"]
ASSUMPTIONS = [
    "MPI runtime (Open MPI 4.1): Allgather/Alltoall/Allreduce deliver what the model's pure functions say; progress and deadlock "
    "freedom are NOT modelled (mpirun under timeout only)",
    "message arrival order: MPI's non-overtaking rule is the matching function of the message-passing model DistMsg.v (trusted); that "
    "the call sequence recorded by harness/pmpi_trace.hpp (PMPI interposition inside the driver) is what the library does, and that "
    "send buffers are written where the model says (the shim sees MPI calls and buffer snapshots, not memory accesses)",
    "the MPI harness runs the templates at double on small dyadic inputs (all operations exact in binary64) and prints exact "
    "rationals; the templates at double execute the same algorithm as at an exact field",
    "copy between backends: compared with the SERIAL Coq kernels on the assembled matrix (correspondence only); remote-row "
    "exchange: modelled by reading the owner's row (compared with the implementation, no theorem about the message exchange)",
    "power-method spectral radius: only rank-consistency (bitwise identical on all ranks) is checked; in histories: bitwise identical to "
    "the estimate on a never-moved object",
    "histories: the copy constructor's value conversion is not modelled (integer data exact in float); builtin backend only",
    "block values: static_matrix<double,2,2> on small dyadic blocks (exact in binary64) vs the extracted models at BlockInst.BlockS QcS 2; vector entries "
    "static_matrix<double,2,1> are modelled as column-0 blocks, base scalars (alpha, beta, scale factor) as c*I; Gershgorin / power method / histories / "
    "message-order model are not repeated at block values",
]
TRUSTED_BASE = [
    "mpirun/Open MPI 4.1.4, mpicxx (g++ 12); harness/drv_mpi_algebra.cpp, harness/drv_mpi_algebra_block.cpp gather per-rank strings on rank 0; "
    "harness/pmpi_trace.hpp; ocaml/dist/ops_dist_block.ml (parsing / printing of blocks)",
]
RULE = ("cases derived from VERIF_SEED by tools/props/C11.py: every contiguous partition (empty ranks included) of n <= 5 "
        "(thorough: n <= 7) rows over 1..4 (1..8) ranks x all ops on random dyadic matrices (square and rectangular, duplicate "
        "columns, unsorted rows), plus random n <= 30; Gershgorin on matrices with a full diagonal and on matrices with rows "
        "without diagonal entry / duplicate diagonal entries, 1..5 OpenMP threads per rank; structurally one-way couplings (block "
        "lower bidiagonal: ranks that only send / only receive) with 2-3 consecutive products; MPI call-sequence cases (xtrace, tr:<op>); "
        "operation histories on one object (hist: move_to_backend(keep_src) x consumers, own random stream seed*1000+1111, 1..5 ranks "
        "(thorough 1..8), all partitions of n <= 4 (5) + random n <= 14, integer data, power-of-two diagonals); "
        "block values (ops b.*, own random stream seed*1000+2222): all partitions of n <= 4 (5) block rows over 1..4 (1..8) ranks + random n <= 12, 2x2 dyadic blocks "
        "(full / triangular / permutation / rotation / diagonal / scalar / zero kinds), 17 ops incl. the Galerkin triple product; "
        "distinct = distinct (op, payload); non-trivial = implementation output contains a non-zero value and is not an exception")

TIMEOUT = 240
HIST_TIMEOUT = 100


def len_steps(line):
    """number of steps of a hist case line = the count token that precedes the trailing step names"""
    toks = line.split()
    k = 0
    while k < len(toks) and not toks[-1 - k].lstrip("-").isdigit(): k += 1
    return k


def np_of(line):
    return int(line.split(" ", 1)[0].split(".")[0][1:])


def cases(tier, seed):
    r = random.Random(seed * 1000 + 11)
    quick = tier == "quick"
    out = []
    cnt = {}
    def add(np_, op, *parts):
        k = cnt.get(np_, 0); cnt[np_] = k + 1
        out.append("p%d.%d %s %s" % (np_, k, op, " ".join(str(p) for p in parts)))

    def ops_for(np_, n, rp, m, cp, k, kp, heavy=True):
        """all ops for an n x m matrix with row partition rp and column partition cp, and an
        m x k right factor with column partition kp"""
        dups = r.random() < 0.3
        A = gen.dycrs(r, n, m, dups=dups)
        a = fmt_crs(n, m, A); RP, CP, KP = fmt_ivec(rp), fmt_ivec(cp), fmt_ivec(kp)
        x = gen.dyvec(r, m); y = gen.dyvec(r, n); f = gen.dyvec(r, n)
        add(np_, "split", a, RP, CP)
        add(np_, "cpat", a, RP, CP)
        al = r.choice([F(1), F(-1), F(2), F(1, 2), F(0)]); be = r.choice([F(0), F(0), F(1), F(-1), F(1, 2)])
        add(np_, "spmv", fmt_q(al), a, RP, CP, fmt_vec(x), fmt_q(be), fmt_vec(y))
        add(np_, "residual", fmt_vec(f), a, RP, CP, fmt_vec(x))
        add(np_, "inner", RP, fmt_vec(y), fmt_vec(f))
        add(np_, "transpose", a, RP, CP)
        add(np_, "transpose_s", a, RP, CP)
        B = gen.dycrs(r, m, k, dups=(r.random() < 0.2))
        b = fmt_crs(m, k, B)
        add(np_, "product", a, RP, CP, b, KP)
        add(np_, "product_s", a, RP, CP, b, KP)
        # the MPI call sequence of two consecutive products = the program DistMsg.exch_rounds (proved disciplined and
        # arrival-order independent); traces of the other exchanges go to the extracted discipline checker ("tr:")
        if heavy or r.random() < 0.5: add(np_, "xtrace", a, RP, CP, fmt_vec(x), fmt_vec(gen.dyvec(r, m)))
        if r.random() < 0.4:
            top = r.choice(["transpose", "product", "rrows", "split", "spmvres", "tspmv"])
            if top in ("transpose", "split", "tspmv"): add(np_, "tr:" + top, a, RP, CP, *([fmt_vec(y)] if top == "tspmv" else []))
            elif top == "spmvres": add(np_, "tr:spmvres", a, RP, CP, fmt_vec(x), fmt_vec(f), fmt_vec(gen.dyvec(r, m)), fmt_vec(gen.dyvec(r, m)))
            else: add(np_, "tr:" + top, a, RP, CP, b, KP)
        if heavy:
            add(np_, "spmv2", a, RP, CP, fmt_vec(x), fmt_vec(gen.dyvec(r, m)))
            add(np_, "spmvres", a, RP, CP, fmt_vec(x), fmt_vec(f), fmt_vec(gen.dyvec(r, m)), fmt_vec(gen.dyvec(r, m)))
            add(np_, "rrows", a, RP, CP, b, KP)
            add(np_, "scale", a, RP, CP, fmt_q(r.choice([F(2), F(-1), F(1, 2), F(0), F(3)])))
            add(np_, "sort_rows", a, RP, CP)
            add(np_, "tspmv", a, RP, CP, fmt_vec(y))
            add(np_, "pspmv", a, RP, CP, b, KP, fmt_vec(gen.dyvec(r, k)))
            Ai = [[(c, F(r.randint(-4, 4))) for c, _ in rw] for rw in A]
            add(np_, "copyf", fmt_crs(n, m, Ai), RP, CP, fmt_vec([F(r.randint(-4, 4)) for _ in range(m)]))

    def square_ops(np_, n, p):
        """ops that need a square matrix with the same row and column partition"""
        if n == 0: return
        P = fmt_ivec(p)
        # Gershgorin, (a) every row has a diagonal entry; scaled variant: power-of-two diagonal
        A = gen.dycrs(r, n, n, empty_rows=False)
        A = [[(c, v) for c, v in rw if c != i] + [(i, r.choice([F(1), F(2), F(4), F(-2), F(1, 2)]))] for i, rw in enumerate(A)]
        for rw in A: r.shuffle(rw)
        add(np_, "gersh", 0, fmt_crs(n, n, A), P)
        add(np_, "gersh", 1, fmt_crs(n, n, A), P)
        # (b) rows WITHOUT a stored diagonal entry (dia must fall back to the identity for that row, whatever the
        # previous row of the same rank / thread had: /repo 18c5201), duplicate diagonal entries (the last one counts),
        # empty rows; small diagonals next to heavy diagonal-free rows so that a stale dia changes the maximum
        B = gen.dycrs(r, n, n, dups=(r.random() < 0.3))
        B2 = []
        for i, rw in enumerate(B):
            rw = [(c, v) for c, v in rw if c != i]
            k = r.random()
            if k < 0.45:                                   # no diagonal entry; make the row heavy
                rw = rw + [((i + 1 + r.randrange(n - 1)) % n, F(r.choice([3, 5, -6, 7])))] if n > 1 else rw
            elif k < 0.9:
                rw = rw + [(i, r.choice([F(1, 4), F(1, 2), F(-1, 2), F(2), F(4), F(-8)]))]
            else:                                          # duplicate diagonal: the LAST one is the scaling
                rw = rw + [(i, r.choice([F(1, 4), F(2)])), (i, r.choice([F(1, 2), F(-4)]))]
            if r.random() < 0.5: r.shuffle(rw)
            B2.append(rw)
        b2 = fmt_crs(n, n, B2)
        add(np_, "gersh", 1, b2, P)
        add(np_, "gersht", 1, r.choice([2, 3, 4]), b2, P)
        if r.random() < 0.5:
            add(np_, "gersh", 0, b2, P)
            add(np_, "gersht", r.choice([0, 1]), r.choice([2, 3, 5]), fmt_crs(n, n, A), P)
        if r.random() < 0.35:
            M = gen.dyadic_spd(r, n)
            add(np_, "power", r.choice([0, 1]), r.choice([1, 2, 5]), fmt_crs(n, n, M), P)

    def oneway_ops(np_, p):
        """structurally NON-symmetric coupling: the rows of rank k reference only columns of ranks <= k (block lower
        bidiagonal + a few entries further down-left), so the first non-empty rank only SENDS ghost values and the
        last one only RECEIVES; consecutive products / residuals on the same matrix (buffers and request variables
        reused while a slow neighbour may still be in the previous exchange)"""
        n = sum(p)
        if n == 0 or np_ < 2: return
        beg = [sum(p[:k]) for k in range(np_ + 1)]
        own = [k for k in range(np_) for _ in range(p[k])]
        A = []
        for i in range(n):
            k = own[i]
            rw = [(i, F(r.choice([1, 2, -3, 4])))]
            prev = [q for q in range(k) if p[q] > 0]
            if prev:
                q = prev[-1]
                rw.append((r.randrange(beg[q], beg[q + 1]), F(r.choice([-1, 2, 1, 3]))))
                if len(prev) > 1 and r.random() < 0.4:
                    q2 = r.choice(prev[:-1]); rw.append((r.randrange(beg[q2], beg[q2 + 1]), F(r.choice([1, -2]))))
            if r.random() < 0.3: r.shuffle(rw)
            A.append(rw)
        a = fmt_crs(n, n, A); P = fmt_ivec(p)
        x1, x2, x3, f = gen.dyvec(r, n), gen.dyvec(r, n), gen.dyvec(r, n), gen.dyvec(r, n)
        add(np_, "spmv2", a, P, P, fmt_vec(x1), fmt_vec(x2))
        add(np_, "spmvres", a, P, P, fmt_vec(x1), fmt_vec(f), fmt_vec(x2), fmt_vec(x3))
        add(np_, "xtrace", a, P, P, fmt_vec(x1), fmt_vec(x2))
        add(np_, "tr:spmvres", a, P, P, fmt_vec(x1), fmt_vec(f), fmt_vec(x2), fmt_vec(x3))
        add(np_, "cpat", a, P, P)

    # ---- operation histories on ONE object: move_to_backend(keep_src) x consumers (DistMove.v); own random stream so that
    # the cases above do not depend on it
    rh = random.Random(seed * 1000 + 1111)
    def imat(n, m, square_diag=False, pow2_diag=False):
        A = gen.dycrs(rh, n, m, density=rh.choice([0.3, 0.5, 0.8, 1.0]), dups=(rh.random() < 0.2), empty_rows=(rh.random() < 0.5))
        A = [[(c, F(rh.choice([-4, -3, -2, -1, 1, 2, 3, 4]))) for c, _ in rw] for rw in A]
        if pow2_diag:        # Gershgorin with scale = true divides by the diagonal entry: powers of two keep binary64 exact
            A = [[(c, F(rh.choice([1, 2, 4, -2])) if c == i else v) for c, v in rw] for i, rw in enumerate(A)]
        if square_diag:
            A = [[(c, v) for c, v in rw if c != i] + [(i, F(rh.choice([1, 2, 4, -2])))] for i, rw in enumerate(A)]
            for rw in A:
                if rh.random() < 0.5: rh.shuffle(rw)
        return A
    def history(square, fulldiag):
        cons = ["dump", "tr", "prod", "ata", "rrt", "copyf"] + (["g0", "g1"] if square else []) + (["pw"] if square and fulldiag else [])
        fam = rh.random()
        if fam < 0.25:       # keep the source, then every kind of consumer of the kept source, then the backend view
            k = rh.sample(cons, min(len(cons), rh.randint(2, 4)))
            return ["mv1"] + k + ["spmv", "dump"]
        if fam < 0.35:       # consumer BEFORE the move, then move, backend view, consumer again when kept
            keep = rh.random() < 0.6
            return [rh.choice(cons), "mv1" if keep else "mv0", "spmv", "res", rh.choice(cons) if keep else "dump", "dump"]
        if fam < 0.45:       # release: the source is gone, the backend view stays; a second move changes nothing
            return ["mv0", "dump", "spmv", rh.choice(["mv0", "mv1"]), "dump", "res"] + ([rh.choice(cons)] if rh.random() < 0.3 else [])
        if fam < 0.55:       # keep, consume, keep again, consume, release, backend view
            return ["mv1", rh.choice(cons), "mv1", rh.choice(cons), "dump", "mv0", "dump", "spmv"]
        steps = []; moved = False; src = True       # random walk over the states
        for _ in range(rh.randint(3, 7)):
            u = rh.random()
            if u < 0.3:
                kp = rh.random() < 0.65; steps.append("mv1" if kp else "mv0"); moved = True; src = src and kp
            elif u < 0.5 and moved: steps.append(rh.choice(["spmv", "res"]))
            elif u < 0.62: steps.append("dump")
            elif src or rh.random() < 0.1: steps.append(rh.choice(cons))
            else: steps.append("dump")
        if not any(st.startswith("mv") for st in steps): steps.insert(rh.randrange(len(steps) + 1), rh.choice(["mv1", "mv1", "mv0"]))
        return steps
    def hist_case(np_, n, rp, m, cp, k, kp):
        square = (n == m and rp == cp)
        fulldiag = square and n > 0 and rh.random() < 0.8
        A = imat(n, m, square_diag=fulldiag, pow2_diag=square)
        B = imat(m, k)
        x = [F(rh.randint(-4, 4)) for _ in range(m)]; f = [F(rh.randint(-4, 4)) for _ in range(n)]
        st = history(square, fulldiag)
        add(np_, "hist", fmt_crs(n, m, A), fmt_ivec(rp), fmt_ivec(cp), fmt_crs(m, k, B), fmt_ivec(kp), fmt_vec(x), fmt_vec(f),
            len(st), " ".join(st))
    for np_ in ([1, 2, 3, 4, 5] if quick else [1, 2, 3, 4, 5, 6, 8]):
        for n in range(0, (4 if quick else 5) + 1):
            for p in gen.compositions(n, np_):
                if np_ >= 6 and rh.random() < 0.6: continue
                if rh.random() < 0.7: hist_case(np_, n, p, n, p, n, p)
                else:
                    m = rh.randint(0, 6); k = rh.randint(0, 5)
                    hist_case(np_, n, p, m, gen.rcomposition(rh, m, np_), k, gen.rcomposition(rh, k, np_))
        for it in range(50 if quick else 120):
            n = rh.randint(np_, 14)
            rp = gen.rcomposition(rh, n, np_, empty_bias=0.15)
            if rh.random() < 0.7: hist_case(np_, n, rp, n, rp, n, rp)
            else:
                m = rh.randint(1, 14); k = rh.randint(1, 10)
                hist_case(np_, n, rp, m, gen.rcomposition(rh, m, np_, empty_bias=0.15), k, gen.rcomposition(rh, k, np_))
    hist_lines = out; out = []; cnt = {}
    ranks = [1, 2, 3, 4] if quick else [1, 2, 3, 4, 5, 6, 7, 8]
    nmax = 5 if quick else 7
    for np_ in ranks:
        # ---- exhaustive: all contiguous partitions of n <= nmax over np_ ranks
        for n in range(0, nmax + 1):
            for p in gen.compositions(n, np_):
                reps = 1
                if np_ >= 6 and r.random() < 0.5: continue      # thorough: thin out the largest families
                for _ in range(reps):
                    kind = r.random()
                    if kind < 0.6:      # square, same partition for rows and columns
                        k = r.choice([n, max(0, n - 1), n + 1])
                        ops_for(np_, n, p, n, p, k, gen.rcomposition(r, k, np_) if k != n else p)
                    else:               # rectangular: independent column partition
                        m = r.randint(0, nmax + 1); k = r.randint(0, nmax)
                        ops_for(np_, n, p, m, gen.rcomposition(r, m, np_), k, gen.rcomposition(r, k, np_))
                    square_ops(np_, n, p)
                    if r.random() < 0.3: oneway_ops(np_, p)
        # ---- random larger
        for it in range(60 if quick else 150):
            n = r.randint(6, 30); m = r.choice([n, n, r.randint(1, 30)]); k = r.choice([n, r.randint(1, 30)])
            rp = gen.rcomposition(r, n, np_)
            cp = rp if (m == n and r.random() < 0.7) else gen.rcomposition(r, m, np_)
            ops_for(np_, n, rp, m, cp, k, gen.rcomposition(r, k, np_), heavy=(it % 2 == 0))
            square_ops(np_, n, rp)
            if it % 3 == 0: oneway_ops(np_, rp)
    for l in hist_lines:                       # ids continue after the cases above (which keep the ids they always had)
        cid, rest = l.split(" ", 1); np_ = np_of(l)
        kk = cnt.get(np_, 0); cnt[np_] = kk + 1
        out.append("p%d.%d %s" % (np_, kk, rest))
    return out + block_cases(tier, seed)


# ---------------------------------------------------------------- block value types (static_matrix<double,2,2>)
BLOCK_B = 2
BVALS = [F(k, d) for k in range(-4, 5) for d in (1, 2)]

def bl_rand(r, b, ints=False):
    """small dyadic b x b block (entries k/2, |k| <= 8; ints: integers |k| <= 3); the kinds are chosen so that generic pairs do
    NOT commute (full, triangular, permutation, rotation) with a few central / diagonal / zero ones mixed in"""
    pool = [F(k) for k in range(-3, 4)] if ints else BVALS
    nzv = [v for v in pool if v != 0]
    kind = r.choice(["gen", "gen", "gen", "gen", "sparse", "upper", "lower", "perm", "rot", "scalar", "diag", "zero"])
    if kind == "gen": return [[r.choice(nzv) for _ in range(b)] for _ in range(b)]
    if kind == "sparse": return [[r.choice(pool) if r.random() < 0.6 else F(0) for _ in range(b)] for _ in range(b)]
    if kind == "upper": return [[r.choice(nzv) if j >= i else F(0) for j in range(b)] for i in range(b)]
    if kind == "lower": return [[r.choice(nzv) if j <= i else F(0) for j in range(b)] for i in range(b)]
    if kind == "perm":
        pm = list(range(b)); r.shuffle(pm); v = r.choice(nzv)
        return [[v if pm[i] == j else F(0) for j in range(b)] for i in range(b)]
    if kind == "rot":
        X = bv.bl_zero(b)
        for i in range(b):
            for j in range(i + 1, b): v = r.choice(nzv); X[i][j] = v; X[j][i] = -v
        return X
    if kind == "scalar": return bv.bl_id(b, r.choice(nzv))
    if kind == "diag": return [[r.choice(nzv) if i == j else F(0) for j in range(b)] for i in range(b)]
    return bv.bl_zero(b)

def bl_crs(r, b, n, m, dups=False, ints=False, density=None):
    pat = gen.rcrs(r, n, m, density=density, dups=dups)
    return [[(c, bl_rand(r, b, ints)) for c, _ in rw] for rw in pat]

def bl_vec(r, b, n, ints=False):
    pool = [F(k) for k in range(-3, 4)] if ints else BVALS
    return [r.choice(pool) for _ in range(n * b)]

BLOCK_NC = dict(pairs=0, noncommuting=0, blocks=0, scalar=0, diagonal=0)     # statistics of the last block_cases() call

def block_cases(tier, seed):
    """the C11 partition families at block values; own random stream (the scalar cases keep their ids and payloads)"""
    r = random.Random(seed * 1000 + 2222)
    quick = tier == "quick"
    b = BLOCK_B
    out = []; cnt = {}; mats = []
    def add(np_, op, *parts):
        k = cnt.get(np_, 0); cnt[np_] = k + 1
        out.append("p%d.b%d %s %d %s" % (np_, k, op, b, " ".join(str(p) for p in parts)))
    def bops_for(np_, n, rp, m, cp, k, kp, heavy=True):
        A = bl_crs(r, b, n, m, dups=(r.random() < 0.3)); mats.append((A, b))
        a = bv.fmt_bcrs(n, m, A); RP, CP, KP = fmt_ivec(rp), fmt_ivec(cp), fmt_ivec(kp)
        x = bl_vec(r, b, m); y = bl_vec(r, b, n); f = bl_vec(r, b, n)
        X, Y, Fv = bv.fmt_bvec(x, b), bv.fmt_bvec(y, b), bv.fmt_bvec(f, b)
        al = r.choice([F(1), F(-1), F(2), F(1, 2), F(0)]); be = r.choice([F(0), F(0), F(1), F(-1), F(1, 2)])
        add(np_, "b.spmv", fmt_q(al), a, RP, CP, X, fmt_q(be), Y)
        add(np_, "b.residual", Fv, a, RP, CP, X)
        add(np_, "b.transpose", a, RP, CP)
        add(np_, "b.transpose_s", a, RP, CP)
        B = bl_crs(r, b, m, k, dups=(r.random() < 0.2)); mats.append((B, b))
        bb = bv.fmt_bcrs(m, k, B)
        add(np_, "b.product", a, RP, CP, bb, KP)
        add(np_, "b.product_s", a, RP, CP, bb, KP)
        if heavy:
            add(np_, "b.split", a, RP, CP)
            add(np_, "b.spmvres", a, RP, CP, X, Fv, bv.fmt_bvec(bl_vec(r, b, m), b), bv.fmt_bvec(bl_vec(r, b, m), b))
            add(np_, "b.inner", RP, Y, Fv)
            add(np_, "b.rrows", a, RP, CP, bb, KP)
            add(np_, "b.scale", a, RP, CP, fmt_q(r.choice([F(2), F(-1), F(1, 2), F(0), F(3)])))
            add(np_, "b.sort_rows", a, RP, CP)
            add(np_, "b.tspmv", a, RP, CP, Y)
            add(np_, "b.pspmv", a, RP, CP, bb, KP, bv.fmt_bvec(bl_vec(r, b, k), b))
            Ai = bl_crs(r, b, n, m, dups=(r.random() < 0.2), ints=True)
            add(np_, "b.copyf", bv.fmt_bcrs(n, m, Ai), RP, CP, bv.fmt_bvec(bl_vec(r, b, m, ints=True), b))
    def galerkin_case(np_, n, p, k, kp):
        """A (n x n, rows and columns distributed by p), P (n x k, columns by kp): R = P^T, R (A P) as the distributed coarsenings
        compute the coarse operator; smoothed-aggregation-like P: dense-ish rows, non-commuting blocks"""
        A = bl_crs(r, b, n, n, density=r.choice([0.4, 0.6, 0.9])); P = bl_crs(r, b, n, k, density=r.choice([0.4, 0.7, 1.0]))
        mats.append((A, b)); mats.append((P, b))
        add(np_, "b.galerkin", bv.fmt_bcrs(n, n, A), fmt_ivec(p), bv.fmt_bcrs(n, k, P), fmt_ivec(kp))
    ranks = [1, 2, 3, 4] if quick else [1, 2, 3, 4, 5, 6, 8]
    nmax = 4 if quick else 5
    for np_ in ranks:
        add(np_, "b.dtype", np_)
        for n in range(0, nmax + 1):
            for p in gen.compositions(n, np_):
                if np_ >= 5 and r.random() < 0.6: continue
                kind = r.random()
                if kind < 0.6:
                    k = r.choice([n, max(0, n - 1), n + 1])
                    bops_for(np_, n, p, n, p, k, gen.rcomposition(r, k, np_) if k != n else p)
                else:
                    m = r.randint(0, nmax + 1); k = r.randint(0, nmax)
                    bops_for(np_, n, p, m, gen.rcomposition(r, m, np_), k, gen.rcomposition(r, k, np_))
                k = r.randint(0, n)
                galerkin_case(np_, n, p, k, gen.rcomposition(r, k, np_))
        for it in range(30 if quick else 100):
            n = r.randint(4, 12); m = r.choice([n, n, r.randint(1, 12)]); k = r.choice([n, r.randint(1, 12)])
            rp = gen.rcomposition(r, n, np_)
            cp = rp if (m == n and r.random() < 0.7) else gen.rcomposition(r, m, np_)
            bops_for(np_, n, rp, m, cp, k, gen.rcomposition(r, k, np_), heavy=(it % 2 == 0))
            k = r.randint(1, max(1, n // 2))
            galerkin_case(np_, n, rp, k, gen.rcomposition(r, k, np_, empty_bias=0.1))
    BLOCK_NC.update({k: v for k, v in bv.noncommuting_fraction(random.Random(seed), mats).items() if k in BLOCK_NC})
    return out


BLOCK_THEOREMS = {
    "b.spmv": "C11_nc_spmv_every_partition_BlockQc", "b.spmvres": "C11_nc_spmv_every_partition_BlockQc, C11_nc_residual_every_partition_BlockQc",
    "b.residual": "C11_nc_residual_every_partition_BlockQc",
    "b.transpose": "C11_nc_transpose_every_partition_BlockQc", "b.transpose_s": "C11_nc_transpose_every_partition_BlockQc",
    "b.tspmv": "C11_nc_transpose_every_partition_BlockQc, C11_nc_spmv_every_partition_BlockQc",
    "b.product": "C11_nc_product_every_partition_BlockQc", "b.product_s": "C11_nc_product_every_partition_BlockQc",
    "b.pspmv": "C11_nc_product_every_partition_BlockQc, C11_nc_spmv_every_partition_BlockQc",
    "b.galerkin": "C11_nc_transpose_every_partition_BlockQc, C11_nc_product_every_partition_BlockQc (failure class: "
                  "C11_nc_product_swapped_remote_operands_refuted)",
    "b.scale": "C11_scale_every_partition", "b.sort_rows": "C11_sort_rows_every_rank", "b.split": "C11_renumbering_is_bijection / constructor split",
}

def run_block(ctx, lines):
    """block-valued cases: drv_mpi_algebra_block under mpirun vs the extracted Dist.v / MatOps.v / Kernels.v at BlockS QcS b"""
    fails = []
    if not lines: return fails
    groups = {}
    for l in lines: groups.setdefault(np_of(l), []).append(l)
    st = ctx["stats"]["by_op"]
    if BLOCK_NC["pairs"]:
        st["block_pairs_sampled"] = BLOCK_NC["pairs"]; st["block_pairs_noncommuting"] = BLOCK_NC["noncommuting"]
        st["blocks_generated"] = BLOCK_NC["blocks"]; st["blocks_scalar_multiple_of_identity"] = BLOCK_NC["scalar"]
    model = ctx["run_driver"](ctx["model"], lines)
    for np_ in sorted(groups):
        ls = groups[np_]
        shards = {1: 3, 2: 3, 3: 2, 4: 2}.get(np_, 1) if len(ls) > 50 else 1
        impl = run_mpi(ctx, ctx["cpp"]["mpi_algebra_block"], ls, np_, MPIRUN, shards=shards, timeout=TIMEOUT + 30,
                       env={"OMP_NUM_THREADS": "1"})
        account(ctx, ls, impl, nontrivial=lambda op, p, o: bool(o) and not o.startswith(("EXC", "CRASH", "UNSUPPORTED")) and
                any(ch in "123456789" for ch in o.replace("PMPI ok", "")))
        crashed = any((v or "").startswith("CRASH") for v in impl.values())
        for l in ls:
            cid, op = l.split(" ", 2)[:2]
            a, m = impl.get(cid), model.get(cid)
            if a == m: continue
            ctx["stats"]["mismatches"] += 1
            if a is None and crashed: continue       # not run: an earlier case of the shard hung/crashed
            fails.append(dict(kind="counterexample", case=l, impl=a, model=m, op=op, size=len(l), np=np_,
                              theorem="correspondence drv_mpi_algebra_block (%s, static_matrix<double,%d,%d>, %d ranks) vs Dist.v / serial block "
                                      "kernels at BlockS QcS %d; %s" % (op, BLOCK_B, BLOCK_B, np_, BLOCK_B, BLOCK_THEOREMS.get(op, "C11 (block values)"))))
    return fails


def spec_line(line):
    """model-only line giving the SPECIFIED value (serial estimate of the assembled matrix on every rank) for the
    Gershgorin ops; the implementation must agree with the rank-by-rank model AND with this line"""
    cid, op, payload = line.split(" ", 2)
    if op == "gersh": return "%s gersh_spec %s" % (cid, payload)
    if op == "gersht": return "%s gersht_spec %s" % (cid, payload)
    return None


def run(ctx, cases_override=None):
    lines = cases_override or cases(ctx["tier"], ctx["seed"])
    blines = [l for l in lines if l.split(" ", 2)[1].startswith("b.")]
    lines = [l for l in lines if not l.split(" ", 2)[1].startswith("b.")]
    fails = run_block(ctx, blines)
    groups = {}
    for l in lines: groups.setdefault(np_of(l), []).append(l)
    for np_ in sorted(groups):
        ls = groups[np_]
        shards = {1: 4, 2: 3, 3: 2, 4: 2}.get(np_, 1) if len(ls) > 50 else 1
        opof = lambda l: l.split(" ", 2)[1]
        modelled = [l for l in ls if opof(l) not in ("power", "hist") and not opof(l).startswith("tr:")]
        hist = [l for l in ls if opof(l) == "hist"]
        unmodelled = [l for l in ls if opof(l) == "power"]
        traced = [l for l in ls if opof(l).startswith("tr:")]
        impl = run_mpi(ctx, ctx["cpp"]["mpi_algebra"], modelled, np_, MPIRUN, shards=shards, timeout=TIMEOUT + 30,
                       env={"OMP_NUM_THREADS": "1"})
        model = ctx["run_driver"](ctx["model"], modelled)
        account(ctx, modelled, impl)
        # operation histories: own mpirun (a consumer of a corrupted source may hang: short timeout, the other cases are not lost)
        if hist:
            implh = run_mpi(ctx, ctx["cpp"]["mpi_algebra"], hist, np_, MPIRUN, shards=(2 if len(hist) > 40 else 1), timeout=HIST_TIMEOUT,
                            env={"OMP_NUM_THREADS": "1"})
            modelh = ctx["run_driver"](ctx["model"], hist)
            account(ctx, hist, implh)
            crashed_h = any((v or "").startswith("CRASH") for v in implh.values())
            for l in hist:
                cid, op = l.split(" ", 2)[:2]
                a, b = implh.get(cid), modelh.get(cid)
                if a == b: continue
                ctx["stats"]["mismatches"] += 1
                if a is None and crashed_h: continue       # not run: an earlier case of the shard hung/crashed
                fails.append(dict(kind="counterexample", case=l, impl=a, model=b, op=op, size=len(l), np=np_,
                                  theorem="correspondence drv_mpi_algebra (history %s, %d ranks) vs DistMove.v / Dist.v; "
                                          "C11_kept_source_is_source, C11_kept_source_history, C11_moved_spmv_is_source_spmv, "
                                          "C11_backend_fixed_by_first_move, C11_*_after_keep_src" % (" ".join(l.split()[-len_steps(l):]), np_)))
        f = []
        for l in modelled:
            cid, op = l.split(" ", 2)[:2]
            a, b = impl.get(cid), model.get(cid)
            if a != b:
                ctx["stats"]["mismatches"] += 1
                f.append(dict(kind="counterexample", case=l, impl=a, model=b, op=op, size=len(l)))
        crashed = any((v or "").startswith("CRASH") for v in impl.values())
        for x in f:
            if x["impl"] is None and crashed: continue       # not run: an earlier case of the shard hung/crashed
            x["theorem"] = ("correspondence drv_mpi_algebra (%s, %d ranks) vs Dist.v / serial kernels; C11 theorems"
                            % (x["op"], np_))
            x["np"] = np_
            fails.append(x)
        # ---- oracle: Gershgorin estimate must be the serial value on every rank
        sl = [(l, spec_line(l)) for l in modelled]
        sl = [(l, s) for l, s in sl if s]
        if sl:
            spec = ctx["run_driver"](ctx["model"], [s for _, s in sl])
            for l, s in sl:
                cid, op = l.split(" ", 2)[:2]
                ctx["stats"]["oracle_checks"] += 1
                a, b = impl.get(cid), spec.get(cid)
                if a is None and crashed: continue
                if a != b:
                    ctx["stats"]["oracle_fail"] += 1
                    fails.append(dict(kind="counterexample", case=l, impl=a, model=model.get(cid), op=op, size=len(l), np=np_,
                                      oracle=dict(op=op + "_spec", expected=b, got=a),
                                      theorem="C11 collective scalar: Gershgorin spectral-radius estimate identical on all "
                                              "ranks and equal to the serial value (%d ranks)" % np_))
        # ---- oracle: the extracted request-discipline checkers of DistMsg.v on the call sequences the PMPI shim recorded
        if traced:
            impl3 = run_mpi(ctx, ctx["cpp"]["mpi_algebra"], traced, np_, MPIRUN, shards=1, timeout=TIMEOUT + 30,
                            env={"OMP_NUM_THREADS": "1"})
            account(ctx, traced, impl3, nontrivial=lambda op, p, o: bool(o) and (" R" in " " + o or " S" in " " + o))
            olines = []; byid = {}
            for l in traced:
                cid, op = l.split(" ", 2)[:2]
                byid[cid] = l
                o = impl3.get(cid)
                per = [v.strip() for v in (o or "").split(" ; ")]
                if o is None or o.startswith("CRASH") or len(per) != np_ or not all(v.endswith("PMPI ok") for v in per):
                    ctx["stats"]["mismatches"] += 1
                    fails.append(dict(kind="counterexample", case=l, impl=o, model=" ; ".join(["<trace> PMPI ok"] * np_), op=op,
                                      size=len(l), np=np_,
                                      theorem="MPI request discipline (a)-(f) of harness/pmpi_trace.hpp on %s (%d ranks): hypothesis of "
                                              "C11_any_arrival_order_deterministic" % (op, np_)))
                    continue
                toks = []
                for v in per:
                    tr = v[:-len("PMPI ok")].split()
                    tr = [] if tr == ["-"] else tr
                    toks.append("%d %s" % (len(tr), " ".join(tr)))
                olines.append("%s msgcheck %d %s" % (cid, np_, " ".join(toks)))
            fails += [dict(f, np=np_) for f in oracle_run(ctx, olines,
                      "extracted DistMsg.all_waited / slots_exclusive / chans_exclusive / channel balance on the recorded MPI call "
                      "sequence (%d ranks): hypotheses of C11_any_arrival_order_deterministic" % np_, lambda cid: byid[cid])]
        # ---- oracle: power-method estimate bitwise identical on all ranks
        if unmodelled:
            impl2 = run_mpi(ctx, ctx["cpp"]["mpi_algebra"], unmodelled, np_, MPIRUN, shards=1, timeout=TIMEOUT + 30,
                            env={"OMP_NUM_THREADS": "1"})
            account(ctx, unmodelled, impl2, nontrivial=lambda op, p, o: bool(o) and o.startswith("bits:"))
            for l in unmodelled:
                cid, op = l.split(" ", 2)[:2]
                ctx["stats"]["oracle_checks"] += 1
                o = impl2.get(cid)
                vals = [v.strip() for v in (o or "").split(";")]
                if (o is None or len(vals) != np_ or len(set(vals)) != 1 or not vals[0].startswith("bits:")
                        or not vals[0].endswith(" PMPI ok")):
                    ctx["stats"]["oracle_fail"] += 1
                    fails.append(dict(kind="counterexample", case=l, impl=o, model=None, op=op, size=len(l), np=np_,
                                      oracle=dict(op="all-ranks-identical", got=o),
                                      theorem="C11 collective scalar: power-method estimate identical on all ranks, request "
                                              "discipline kept (%d ranks)" % np_))
    return fails


def classify(fail):
    """diagnostic signatures for the Gershgorin oracle.  F-C11-gershgorin-rank-local is FIXED (/repo ed6ca09, 18c5201):
    nothing is suppressed any more, a recurrence is a VIOLATION; the signature only names what came back:
      rank-local-maximum-not-reduced : the ranks report different values, the largest one is the serial value;
      row-scaling-differs            : every rank reports the same value, but not the serial one (e.g. stale dia)."""
    sig = {}
    o = fail.get("oracle") or {}
    if fail.get("op") in ("gersh", "gersht") and o.get("op", "").endswith("_spec") and fail.get("impl") and o.get("expected"):
        try:
            got = [F(v.replace(" PMPI ok", "")) for v in fail["impl"].split(" ; ")]
            exp = [F(v.replace(" PMPI ok", "")) for v in o["expected"].split(" ; ")]
            if len(got) == len(exp) and max(got) == exp[0] and any(g < exp[0] for g in got):
                sig = dict(site="mpi-spectral_radius-gershgorin", defect="rank-local-maximum-not-reduced",
                           impl_matches_faithful_model=(fail["impl"] == fail.get("model")))
            elif len(got) == len(exp) and len(set(got)) == 1:
                sig = dict(site="mpi-spectral_radius-gershgorin", defect="row-scaling-differs",
                           impl_matches_faithful_model=(fail["impl"] == fail.get("model")))
        except Exception:
            pass
    return sig
