"""C11 -- distributed matrix algebra equals serial algebra for every partition.

Case ids encode the rank count: "p<np>.<k>"; the cases of one rank count are run by one (or a
few) `mpirun -n <np>` invocations of drv_mpi_algebra (rank 0 reads the cases, broadcasts them,
gathers the per-rank results and prints them), every mpirun under `timeout`: a hang is
reported as a failure (CRASH rc=124) with the case (matrix + partition) as replay.

The MPI harness runs in binary64 on small dyadic inputs, so every operation is exact and the
printed rationals are compared byte for byte with
  * the rank-by-rank Coq model of Dist.v (split, comm pattern, spmv, residual, inner product,
    scale, sort_rows, transpose and product in storage order, remote rows, Gershgorin) and
  * the SERIAL kernels of Kernels.v/MatOps.v applied to the global matrix and cut along the
    partition (transpose, product, (A^T)x, (AB)x, copy to another backend).
Every op's per-rank output ends with the verdict of the PMPI request-discipline monitor (harness/pmpi_trace.hpp), "PMPI ok" on the
model side; op xtrace compares the recorded MPI call sequence of two consecutive products with the program DistMsg.exch_rounds;
"tr:<op>" lines return the call sequence of <op>, which is checked by the extracted discipline checkers of DistMsg.v (msgcheck).
Operation HISTORIES on one object (op "hist", model DistMove.v): constructor, then a sequence of move_to_backend(keep_src in
{false,true}) calls interleaved with consumers of the kept source (local()/remote() dump, copy to builtin<float> + product there,
transpose, product A*B, A^T*A, remote_rows(A^T pattern, A), Gershgorin, power method) and of the backend view (product, residual,
backend matrices dump, ghost-vector size), on 1..5 ranks incl. empty ranks and rectangular matrices, integer data.
Oracles: Gershgorin estimate = serial value on every rank ("gersh_spec", also with 2..5 OpenMP threads per
rank: "gersht"); power-method estimate bitwise identical on all ranks.
"""
import random
from fractions import Fraction as F
from vcheck import fmt_q, fmt_vec, fmt_ivec, fmt_crs
import gen
from props.common import account, oracle_run
from props.mpi_common import run_mpi

DRIVERS = ["mpi_algebra"]
MODEL = "dist"
MPIRUN = ["mpirun", "--allow-run-as-root", "--oversubscribe", "--bind-to", "none", "--mca", "mpi_yield_when_idle", "1", "-n"]
ASSUMPTIONS = [
    "MPI runtime (Open MPI 4.1): Allgather/Alltoall/Allreduce deliver what the model's pure functions say; progress and deadlock "
    "freedom are NOT modelled (mpirun under timeout only)",
    "message arrival order: MPI's non-overtaking rule is the matching function of the message-passing model DistMsg.v (trusted); that "
    "the call sequence recorded by harness/pmpi_trace.hpp (PMPI interposition inside the driver) is what the library does, and that "
    "send buffers are written where the model says (the shim sees MPI calls and buffer snapshots, not memory accesses)",
    "the MPI harness runs the templates at double on small dyadic inputs (all operations exact in binary64) and prints exact "
    "rationals; the templates at double execute the same algorithm as at an exact field",
    "copy between backends: compared with the SERIAL Coq kernels on the assembled matrix (correspondence only); remote-row "
    "exchange: modelled by reading the owner's row (compared with the implementation, no theorem about the message exchange)",
    "power-method spectral radius: only rank-consistency (bitwise identical on all ranks) is checked; in histories: bitwise identical to "
    "the estimate on a never-moved object",
    "histories: the copy constructor's value conversion is not modelled (integer data exact in float); builtin backend only",
]
TRUSTED_BASE = [
    "mpirun/Open MPI 4.1.4, mpicxx (g++ 12); harness/drv_mpi_algebra.cpp gathers per-rank strings on rank 0; harness/pmpi_trace.hpp",
]
RULE = ("cases derived from VERIF_SEED by tools/props/C11.py: every contiguous partition (empty ranks included) of n <= 5 "
        "(thorough: n <= 7) rows over 1..4 (1..8) ranks x all ops on random dyadic matrices (square and rectangular, duplicate "
        "columns, unsorted rows), plus random n <= 30; Gershgorin on matrices with a full diagonal and on matrices with rows "
        "without diagonal entry / duplicate diagonal entries, 1..5 OpenMP threads per rank; structurally one-way couplings (block "
        "lower bidiagonal: ranks that only send / only receive) with 2-3 consecutive products; MPI call-sequence cases (xtrace, tr:<op>); "
        "operation histories on one object (hist: move_to_backend(keep_src) x consumers, own random stream seed*1000+1111, 1..5 ranks "
        "(thorough 1..8), all partitions of n <= 4 (5) + random n <= 14, integer data, power-of-two diagonals); "
        "distinct = distinct (op, payload); non-trivial = implementation output contains a non-zero value and is not an exception")

TIMEOUT = 240
HIST_TIMEOUT = 100


def len_steps(line):
    """number of steps of a hist case line = the count token that precedes the trailing step names"""
    toks = line.split()
    k = 0
    while k < len(toks) and not toks[-1 - k].lstrip("-").isdigit(): k += 1
    return k


def np_of(line):
    return int(line.split(" ", 1)[0].split(".")[0][1:])


def cases(tier, seed):
    r = random.Random(seed * 1000 + 11)
    quick = tier == "quick"
    out = []
    cnt = {}
    def add(np_, op, *parts):
        k = cnt.get(np_, 0); cnt[np_] = k + 1
        out.append("p%d.%d %s %s" % (np_, k, op, " ".join(str(p) for p in parts)))

    def ops_for(np_, n, rp, m, cp, k, kp, heavy=True):
        """all ops for an n x m matrix with row partition rp and column partition cp, and an
        m x k right factor with column partition kp"""
        dups = r.random() < 0.3
        A = gen.dycrs(r, n, m, dups=dups)
        a = fmt_crs(n, m, A); RP, CP, KP = fmt_ivec(rp), fmt_ivec(cp), fmt_ivec(kp)
        x = gen.dyvec(r, m); y = gen.dyvec(r, n); f = gen.dyvec(r, n)
        add(np_, "split", a, RP, CP)
        add(np_, "cpat", a, RP, CP)
        al = r.choice([F(1), F(-1), F(2), F(1, 2), F(0)]); be = r.choice([F(0), F(0), F(1), F(-1), F(1, 2)])
        add(np_, "spmv", fmt_q(al), a, RP, CP, fmt_vec(x), fmt_q(be), fmt_vec(y))
        add(np_, "residual", fmt_vec(f), a, RP, CP, fmt_vec(x))
        add(np_, "inner", RP, fmt_vec(y), fmt_vec(f))
        add(np_, "transpose", a, RP, CP)
        add(np_, "transpose_s", a, RP, CP)
        B = gen.dycrs(r, m, k, dups=(r.random() < 0.2))
        b = fmt_crs(m, k, B)
        add(np_, "product", a, RP, CP, b, KP)
        add(np_, "product_s", a, RP, CP, b, KP)
        # the MPI call sequence of two consecutive products = the program DistMsg.exch_rounds (proved disciplined and
        # arrival-order independent); traces of the other exchanges go to the extracted discipline checker ("tr:")
        if heavy or r.random() < 0.5: add(np_, "xtrace", a, RP, CP, fmt_vec(x), fmt_vec(gen.dyvec(r, m)))
        if r.random() < 0.4:
            top = r.choice(["transpose", "product", "rrows", "split", "spmvres", "tspmv"])
            if top in ("transpose", "split", "tspmv"): add(np_, "tr:" + top, a, RP, CP, *([fmt_vec(y)] if top == "tspmv" else []))
            elif top == "spmvres": add(np_, "tr:spmvres", a, RP, CP, fmt_vec(x), fmt_vec(f), fmt_vec(gen.dyvec(r, m)), fmt_vec(gen.dyvec(r, m)))
            else: add(np_, "tr:" + top, a, RP, CP, b, KP)
        if heavy:
            add(np_, "spmv2", a, RP, CP, fmt_vec(x), fmt_vec(gen.dyvec(r, m)))
            add(np_, "spmvres", a, RP, CP, fmt_vec(x), fmt_vec(f), fmt_vec(gen.dyvec(r, m)), fmt_vec(gen.dyvec(r, m)))
            add(np_, "rrows", a, RP, CP, b, KP)
            add(np_, "scale", a, RP, CP, fmt_q(r.choice([F(2), F(-1), F(1, 2), F(0), F(3)])))
            add(np_, "sort_rows", a, RP, CP)
            add(np_, "tspmv", a, RP, CP, fmt_vec(y))
            add(np_, "pspmv", a, RP, CP, b, KP, fmt_vec(gen.dyvec(r, k)))
            Ai = [[(c, F(r.randint(-4, 4))) for c, _ in rw] for rw in A]
            add(np_, "copyf", fmt_crs(n, m, Ai), RP, CP, fmt_vec([F(r.randint(-4, 4)) for _ in range(m)]))

    def square_ops(np_, n, p):
        """ops that need a square matrix with the same row and column partition"""
        if n == 0: return
        P = fmt_ivec(p)
        # Gershgorin, (a) every row has a diagonal entry; scaled variant: power-of-two diagonal
        A = gen.dycrs(r, n, n, empty_rows=False)
        A = [[(c, v) for c, v in rw if c != i] + [(i, r.choice([F(1), F(2), F(4), F(-2), F(1, 2)]))] for i, rw in enumerate(A)]
        for rw in A: r.shuffle(rw)
        add(np_, "gersh", 0, fmt_crs(n, n, A), P)
        add(np_, "gersh", 1, fmt_crs(n, n, A), P)
        # (b) rows WITHOUT a stored diagonal entry (dia must fall back to the identity for that row, whatever the
        # previous row of the same rank / thread had: /repo 18c5201), duplicate diagonal entries (the last one counts),
        # empty rows; small diagonals next to heavy diagonal-free rows so that a stale dia changes the maximum
        B = gen.dycrs(r, n, n, dups=(r.random() < 0.3))
        B2 = []
        for i, rw in enumerate(B):
            rw = [(c, v) for c, v in rw if c != i]
            k = r.random()
            if k < 0.45:                                   # no diagonal entry; make the row heavy
                rw = rw + [((i + 1 + r.randrange(n - 1)) % n, F(r.choice([3, 5, -6, 7])))] if n > 1 else rw
            elif k < 0.9:
                rw = rw + [(i, r.choice([F(1, 4), F(1, 2), F(-1, 2), F(2), F(4), F(-8)]))]
            else:                                          # duplicate diagonal: the LAST one is the scaling
                rw = rw + [(i, r.choice([F(1, 4), F(2)])), (i, r.choice([F(1, 2), F(-4)]))]
            if r.random() < 0.5: r.shuffle(rw)
            B2.append(rw)
        b2 = fmt_crs(n, n, B2)
        add(np_, "gersh", 1, b2, P)
        add(np_, "gersht", 1, r.choice([2, 3, 4]), b2, P)
        if r.random() < 0.5:
            add(np_, "gersh", 0, b2, P)
            add(np_, "gersht", r.choice([0, 1]), r.choice([2, 3, 5]), fmt_crs(n, n, A), P)
        if r.random() < 0.35:
            M = gen.dyadic_spd(r, n)
            add(np_, "power", r.choice([0, 1]), r.choice([1, 2, 5]), fmt_crs(n, n, M), P)

    def oneway_ops(np_, p):
        """structurally NON-symmetric coupling: the rows of rank k reference only columns of ranks <= k (block lower
        bidiagonal + a few entries further down-left), so the first non-empty rank only SENDS ghost values and the
        last one only RECEIVES; consecutive products / residuals on the same matrix (buffers and request variables
        reused while a slow neighbour may still be in the previous exchange)"""
        n = sum(p)
        if n == 0 or np_ < 2: return
        beg = [sum(p[:k]) for k in range(np_ + 1)]
        own = [k for k in range(np_) for _ in range(p[k])]
        A = []
        for i in range(n):
            k = own[i]
            rw = [(i, F(r.choice([1, 2, -3, 4])))]
            prev = [q for q in range(k) if p[q] > 0]
            if prev:
                q = prev[-1]
                rw.append((r.randrange(beg[q], beg[q + 1]), F(r.choice([-1, 2, 1, 3]))))
                if len(prev) > 1 and r.random() < 0.4:
                    q2 = r.choice(prev[:-1]); rw.append((r.randrange(beg[q2], beg[q2 + 1]), F(r.choice([1, -2]))))
            if r.random() < 0.3: r.shuffle(rw)
            A.append(rw)
        a = fmt_crs(n, n, A); P = fmt_ivec(p)
        x1, x2, x3, f = gen.dyvec(r, n), gen.dyvec(r, n), gen.dyvec(r, n), gen.dyvec(r, n)
        add(np_, "spmv2", a, P, P, fmt_vec(x1), fmt_vec(x2))
        add(np_, "spmvres", a, P, P, fmt_vec(x1), fmt_vec(f), fmt_vec(x2), fmt_vec(x3))
        add(np_, "xtrace", a, P, P, fmt_vec(x1), fmt_vec(x2))
        add(np_, "tr:spmvres", a, P, P, fmt_vec(x1), fmt_vec(f), fmt_vec(x2), fmt_vec(x3))
        add(np_, "cpat", a, P, P)

    # ---- operation histories on ONE object: move_to_backend(keep_src) x consumers (DistMove.v); own random stream so that
    # the cases above do not depend on it
    rh = random.Random(seed * 1000 + 1111)
    def imat(n, m, square_diag=False, pow2_diag=False):
        A = gen.dycrs(rh, n, m, density=rh.choice([0.3, 0.5, 0.8, 1.0]), dups=(rh.random() < 0.2), empty_rows=(rh.random() < 0.5))
        A = [[(c, F(rh.choice([-4, -3, -2, -1, 1, 2, 3, 4]))) for c, _ in rw] for rw in A]
        if pow2_diag:        # Gershgorin with scale = true divides by the diagonal entry: powers of two keep binary64 exact
            A = [[(c, F(rh.choice([1, 2, 4, -2])) if c == i else v) for c, v in rw] for i, rw in enumerate(A)]
        if square_diag:
            A = [[(c, v) for c, v in rw if c != i] + [(i, F(rh.choice([1, 2, 4, -2])))] for i, rw in enumerate(A)]
            for rw in A:
                if rh.random() < 0.5: rh.shuffle(rw)
        return A
    def history(square, fulldiag):
        cons = ["dump", "tr", "prod", "ata", "rrt", "copyf"] + (["g0", "g1"] if square else []) + (["pw"] if square and fulldiag else [])
        fam = rh.random()
        if fam < 0.25:       # keep the source, then every kind of consumer of the kept source, then the backend view
            k = rh.sample(cons, min(len(cons), rh.randint(2, 4)))
            return ["mv1"] + k + ["spmv", "dump"]
        if fam < 0.35:       # consumer BEFORE the move, then move, backend view, consumer again when kept
            keep = rh.random() < 0.6
            return [rh.choice(cons), "mv1" if keep else "mv0", "spmv", "res", rh.choice(cons) if keep else "dump", "dump"]
        if fam < 0.45:       # release: the source is gone, the backend view stays; a second move changes nothing
            return ["mv0", "dump", "spmv", rh.choice(["mv0", "mv1"]), "dump", "res"] + ([rh.choice(cons)] if rh.random() < 0.3 else [])
        if fam < 0.55:       # keep, consume, keep again, consume, release, backend view
            return ["mv1", rh.choice(cons), "mv1", rh.choice(cons), "dump", "mv0", "dump", "spmv"]
        steps = []; moved = False; src = True       # random walk over the states
        for _ in range(rh.randint(3, 7)):
            u = rh.random()
            if u < 0.3:
                kp = rh.random() < 0.65; steps.append("mv1" if kp else "mv0"); moved = True; src = src and kp
            elif u < 0.5 and moved: steps.append(rh.choice(["spmv", "res"]))
            elif u < 0.62: steps.append("dump")
            elif src or rh.random() < 0.1: steps.append(rh.choice(cons))
            else: steps.append("dump")
        if not any(st.startswith("mv") for st in steps): steps.insert(rh.randrange(len(steps) + 1), rh.choice(["mv1", "mv1", "mv0"]))
        return steps
    def hist_case(np_, n, rp, m, cp, k, kp):
        square = (n == m and rp == cp)
        fulldiag = square and n > 0 and rh.random() < 0.8
        A = imat(n, m, square_diag=fulldiag, pow2_diag=square)
        B = imat(m, k)
        x = [F(rh.randint(-4, 4)) for _ in range(m)]; f = [F(rh.randint(-4, 4)) for _ in range(n)]
        st = history(square, fulldiag)
        add(np_, "hist", fmt_crs(n, m, A), fmt_ivec(rp), fmt_ivec(cp), fmt_crs(m, k, B), fmt_ivec(kp), fmt_vec(x), fmt_vec(f),
            len(st), " ".join(st))
    for np_ in ([1, 2, 3, 4, 5] if quick else [1, 2, 3, 4, 5, 6, 8]):
        for n in range(0, (4 if quick else 5) + 1):
            for p in gen.compositions(n, np_):
                if np_ >= 6 and rh.random() < 0.6: continue
                if rh.random() < 0.7: hist_case(np_, n, p, n, p, n, p)
                else:
                    m = rh.randint(0, 6); k = rh.randint(0, 5)
                    hist_case(np_, n, p, m, gen.rcomposition(rh, m, np_), k, gen.rcomposition(rh, k, np_))
        for it in range(50 if quick else 120):
            n = rh.randint(np_, 14)
            rp = gen.rcomposition(rh, n, np_, empty_bias=0.15)
            if rh.random() < 0.7: hist_case(np_, n, rp, n, rp, n, rp)
            else:
                m = rh.randint(1, 14); k = rh.randint(1, 10)
                hist_case(np_, n, rp, m, gen.rcomposition(rh, m, np_, empty_bias=0.15), k, gen.rcomposition(rh, k, np_))
    hist_lines = out; out = []; cnt = {}
    ranks = [1, 2, 3, 4] if quick else [1, 2, 3, 4, 5, 6, 7, 8]
    nmax = 5 if quick else 7
    for np_ in ranks:
        # ---- exhaustive: all contiguous partitions of n <= nmax over np_ ranks
        for n in range(0, nmax + 1):
            for p in gen.compositions(n, np_):
                reps = 1
                if np_ >= 6 and r.random() < 0.5: continue      # thorough: thin out the largest families
                for _ in range(reps):
                    kind = r.random()
                    if kind < 0.6:      # square, same partition for rows and columns
                        k = r.choice([n, max(0, n - 1), n + 1])
                        ops_for(np_, n, p, n, p, k, gen.rcomposition(r, k, np_) if k != n else p)
                    else:               # rectangular: independent column partition
                        m = r.randint(0, nmax + 1); k = r.randint(0, nmax)
                        ops_for(np_, n, p, m, gen.rcomposition(r, m, np_), k, gen.rcomposition(r, k, np_))
                    square_ops(np_, n, p)
                    if r.random() < 0.3: oneway_ops(np_, p)
        # ---- random larger
        for it in range(60 if quick else 150):
            n = r.randint(6, 30); m = r.choice([n, n, r.randint(1, 30)]); k = r.choice([n, r.randint(1, 30)])
            rp = gen.rcomposition(r, n, np_)
            cp = rp if (m == n and r.random() < 0.7) else gen.rcomposition(r, m, np_)
            ops_for(np_, n, rp, m, cp, k, gen.rcomposition(r, k, np_), heavy=(it % 2 == 0))
            square_ops(np_, n, rp)
            if it % 3 == 0: oneway_ops(np_, rp)
    for l in hist_lines:                       # ids continue after the cases above (which keep the ids they always had)
        cid, rest = l.split(" ", 1); np_ = np_of(l)
        kk = cnt.get(np_, 0); cnt[np_] = kk + 1
        out.append("p%d.%d %s" % (np_, kk, rest))
    return out


def spec_line(line):
    """model-only line giving the SPECIFIED value (serial estimate of the assembled matrix on every rank) for the
    Gershgorin ops; the implementation must agree with the rank-by-rank model AND with this line"""
    cid, op, payload = line.split(" ", 2)
    if op == "gersh": return "%s gersh_spec %s" % (cid, payload)
    if op == "gersht": return "%s gersht_spec %s" % (cid, payload)
    return None


def run(ctx, cases_override=None):
    lines = cases_override or cases(ctx["tier"], ctx["seed"])
    fails = []
    groups = {}
    for l in lines: groups.setdefault(np_of(l), []).append(l)
    for np_ in sorted(groups):
        ls = groups[np_]
        shards = {1: 4, 2: 3, 3: 2, 4: 2}.get(np_, 1) if len(ls) > 50 else 1
        opof = lambda l: l.split(" ", 2)[1]
        modelled = [l for l in ls if opof(l) not in ("power", "hist") and not opof(l).startswith("tr:")]
        hist = [l for l in ls if opof(l) == "hist"]
        unmodelled = [l for l in ls if opof(l) == "power"]
        traced = [l for l in ls if opof(l).startswith("tr:")]
        impl = run_mpi(ctx, ctx["cpp"]["mpi_algebra"], modelled, np_, MPIRUN, shards=shards, timeout=TIMEOUT + 30,
                       env={"OMP_NUM_THREADS": "1"})
        model = ctx["run_driver"](ctx["model"], modelled)
        account(ctx, modelled, impl)
        # operation histories: own mpirun (a consumer of a corrupted source may hang: short timeout, the other cases are not lost)
        if hist:
            implh = run_mpi(ctx, ctx["cpp"]["mpi_algebra"], hist, np_, MPIRUN, shards=(2 if len(hist) > 40 else 1), timeout=HIST_TIMEOUT,
                            env={"OMP_NUM_THREADS": "1"})
            modelh = ctx["run_driver"](ctx["model"], hist)
            account(ctx, hist, implh)
            crashed_h = any((v or "").startswith("CRASH") for v in implh.values())
            for l in hist:
                cid, op = l.split(" ", 2)[:2]
                a, b = implh.get(cid), modelh.get(cid)
                if a == b: continue
                ctx["stats"]["mismatches"] += 1
                if a is None and crashed_h: continue       # not run: an earlier case of the shard hung/crashed
                fails.append(dict(kind="counterexample", case=l, impl=a, model=b, op=op, size=len(l), np=np_,
                                  theorem="correspondence drv_mpi_algebra (history %s, %d ranks) vs DistMove.v / Dist.v; "
                                          "C11_kept_source_is_source, C11_kept_source_history, C11_moved_spmv_is_source_spmv, "
                                          "C11_backend_fixed_by_first_move, C11_*_after_keep_src" % (" ".join(l.split()[-len_steps(l):]), np_)))
        f = []
        for l in modelled:
            cid, op = l.split(" ", 2)[:2]
            a, b = impl.get(cid), model.get(cid)
            if a != b:
                ctx["stats"]["mismatches"] += 1
                f.append(dict(kind="counterexample", case=l, impl=a, model=b, op=op, size=len(l)))
        crashed = any((v or "").startswith("CRASH") for v in impl.values())
        for x in f:
            if x["impl"] is None and crashed: continue       # not run: an earlier case of the shard hung/crashed
            x["theorem"] = ("correspondence drv_mpi_algebra (%s, %d ranks) vs Dist.v / serial kernels; C11 theorems"
                            % (x["op"], np_))
            x["np"] = np_
            fails.append(x)
        # ---- oracle: Gershgorin estimate must be the serial value on every rank
        sl = [(l, spec_line(l)) for l in modelled]
        sl = [(l, s) for l, s in sl if s]
        if sl:
            spec = ctx["run_driver"](ctx["model"], [s for _, s in sl])
            for l, s in sl:
                cid, op = l.split(" ", 2)[:2]
                ctx["stats"]["oracle_checks"] += 1
                a, b = impl.get(cid), spec.get(cid)
                if a is None and crashed: continue
                if a != b:
                    ctx["stats"]["oracle_fail"] += 1
                    fails.append(dict(kind="counterexample", case=l, impl=a, model=model.get(cid), op=op, size=len(l), np=np_,
                                      oracle=dict(op=op + "_spec", expected=b, got=a),
                                      theorem="C11 collective scalar: Gershgorin spectral-radius estimate identical on all "
                                              "ranks and equal to the serial value (%d ranks)" % np_))
        # ---- oracle: the extracted request-discipline checkers of DistMsg.v on the call sequences the PMPI shim recorded
        if traced:
            impl3 = run_mpi(ctx, ctx["cpp"]["mpi_algebra"], traced, np_, MPIRUN, shards=1, timeout=TIMEOUT + 30,
                            env={"OMP_NUM_THREADS": "1"})
            account(ctx, traced, impl3, nontrivial=lambda op, p, o: bool(o) and (" R" in " " + o or " S" in " " + o))
            olines = []; byid = {}
            for l in traced:
                cid, op = l.split(" ", 2)[:2]
                byid[cid] = l
                o = impl3.get(cid)
                per = [v.strip() for v in (o or "").split(" ; ")]
                if o is None or o.startswith("CRASH") or len(per) != np_ or not all(v.endswith("PMPI ok") for v in per):
                    ctx["stats"]["mismatches"] += 1
                    fails.append(dict(kind="counterexample", case=l, impl=o, model=" ; ".join(["<trace> PMPI ok"] * np_), op=op,
                                      size=len(l), np=np_,
                                      theorem="MPI request discipline (a)-(f) of harness/pmpi_trace.hpp on %s (%d ranks): hypothesis of "
                                              "C11_any_arrival_order_deterministic" % (op, np_)))
                    continue
                toks = []
                for v in per:
                    tr = v[:-len("PMPI ok")].split()
                    tr = [] if tr == ["-"] else tr
                    toks.append("%d %s" % (len(tr), " ".join(tr)))
                olines.append("%s msgcheck %d %s" % (cid, np_, " ".join(toks)))
            fails += [dict(f, np=np_) for f in oracle_run(ctx, olines,
                      "extracted DistMsg.all_waited / slots_exclusive / chans_exclusive / channel balance on the recorded MPI call "
                      "sequence (%d ranks): hypotheses of C11_any_arrival_order_deterministic" % np_, lambda cid: byid[cid])]
        # ---- oracle: power-method estimate bitwise identical on all ranks
        if unmodelled:
            impl2 = run_mpi(ctx, ctx["cpp"]["mpi_algebra"], unmodelled, np_, MPIRUN, shards=1, timeout=TIMEOUT + 30,
                            env={"OMP_NUM_THREADS": "1"})
            account(ctx, unmodelled, impl2, nontrivial=lambda op, p, o: bool(o) and o.startswith("bits:"))
            for l in unmodelled:
                cid, op = l.split(" ", 2)[:2]
                ctx["stats"]["oracle_checks"] += 1
                o = impl2.get(cid)
                vals = [v.strip() for v in (o or "").split(";")]
                if (o is None or len(vals) != np_ or len(set(vals)) != 1 or not vals[0].startswith("bits:")
                        or not vals[0].endswith(" PMPI ok")):
                    ctx["stats"]["oracle_fail"] += 1
                    fails.append(dict(kind="counterexample", case=l, impl=o, model=None, op=op, size=len(l), np=np_,
                                      oracle=dict(op="all-ranks-identical", got=o),
                                      theorem="C11 collective scalar: power-method estimate identical on all ranks, request "
                                              "discipline kept (%d ranks)" % np_))
    return fails


def classify(fail):
    """diagnostic signatures for the Gershgorin oracle.  F-C11-gershgorin-rank-local is FIXED (/repo ed6ca09, 18c5201):
    nothing is suppressed any more, a recurrence is a VIOLATION; the signature only names what came back:
      rank-local-maximum-not-reduced : the ranks report different values, the largest one is the serial value;
      row-scaling-differs            : every rank reports the same value, but not the serial one (e.g. stale dia)."""
    sig = {}
    o = fail.get("oracle") or {}
    if fail.get("op") in ("gersh", "gersht") and o.get("op", "").endswith("_spec") and fail.get("impl") and o.get("expected"):
        try:
            got = [F(v.replace(" PMPI ok", "")) for v in fail["impl"].split(" ; ")]
            exp = [F(v.replace(" PMPI ok", "")) for v in o["expected"].split(" ; ")]
            if len(got) == len(exp) and max(got) == exp[0] and any(g < exp[0] for g in got):
                sig = dict(site="mpi-spectral_radius-gershgorin", defect="rank-local-maximum-not-reduced",
                           impl_matches_faithful_model=(fail["impl"] == fail.get("model")))
            elif len(got) == len(exp) and len(set(got)) == 1:
                sig = dict(site="mpi-spectral_radius-gershgorin", defect="row-scaling-differs",
                           impl_matches_faithful_model=(fail["impl"] == fail.get("model")))
        except Exception:
            pass
    return sig
