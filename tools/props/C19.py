"""C19 -- matrix/vector files round-trip exactly; bad files fail cleanly.

Stage A (well-formed inputs; implementation = model = specification, bitwise):
  mm.write / bin.write   : bytes written by amgcl == bytes written by the Coq writer model
  mm.rt / bin.rt (+dense): read(write(A), r0, r1) == slice r0 r1 (rows of A stably sorted)  [A1, A2]
  mm.read on hand-made symmetric / commented / oddly spaced files: amgcl == Coq reader model,
                           and == the independent expansion computed here                [A3]
  wrong value kind, wrong banner words                                                  [A4]
Stage B (faults): for a set of small valid files, EVERY truncation point and single-byte
  corruptions at EVERY offset (quick: a seeded sample of byte values per offset; thorough: all
  255), both formats, default and partial row ranges; the reader runs in a forked child of a
  driver built with -fsanitize=address,undefined -fno-sanitize-recover=all.  Per damaged file:
    (1) no CRASH (sanitizer report / signal);
    (2) an OK result is structurally valid (extracted MMFormat.wf / BinFormat.wf_flat);
    (3) must-raise classes: truncated before the last data line (binary: any truncation),
        banner word changed, and -- by the extracted format specification MMFormat.mm_classify --
        index out of range, fewer/more data lines than announced, symmetric non-square;
    (4) implementation == Coq reader model (Ok matrix / exception class / OOB<->CRASH) whenever the
        value oracle of the model applies (all tokens in value position are plain decimal
        literals; otherwise the model answers NA and (1)-(3) alone decide).
"""
import os, random, re, shutil, struct, tempfile, hashlib
from props.common import oracle_run

DRIVERS = ["fileio", "fileio_nn"]
MODEL = "fileio"
_SAN = ["-g1", "-fsanitize=address,undefined", "-fno-sanitize-recover=all"]
EXTRA_FLAGS = {"fileio": _SAN, "fileio_nn": _SAN + ["-fno-sanitize=null"]}

# ---- one-line switches: set to "1" when the corresponding repair is in /repo; the Coq reader
# ---- model is then run with the check (MMFormat.mm_checked / BinFormat.read_crs true), which
# ---- is what theorems C19_mm_read_checked_safe / C19_bin_read_checked_safe are about.
# The default below is THE one-line switch: "1111" = the repaired readers (fix: commits a04dd9c,
# 7c1d34c, 3c662b9, 6a14a6a in /repo), which is what the correspondence ties to theorems
# C19_mm_read_checked_safe / C19_bin_read_checked_safe; "0000" = the readers before the repairs
# (only for replaying the historical *_refuted witnesses on an old tree: VERIF_C19_FLAGS=0000 VERIF_REPO=...).
_FLAGS = (os.environ.get("VERIF_C19_FLAGS") or "1111").ljust(4, "0")
MM_CHK_INDEX = _FLAGS[0]      # precondition 1 <= i <= n, 1 <= j <= m, symmetric => square  (mm.hpp:186)
MM_CHK_TRAILING = _FLAGS[1]   # precondition: no data after the announced entries            (mm.hpp:208)
MM_CHK_RANGE = _FLAGS[2]      # precondition row_beg <= row_end                              (mm.hpp:163, 271)
BIN_CHECKED = _FLAGS[3]       # ptr validated (front >= 0, non-decreasing, back <= nnz), row_beg <= row_end (binary.hpp:88-103)
MODEL_ENV = {"C19_FLAGS": MM_CHK_INDEX + MM_CHK_TRAILING + MM_CHK_RANGE + BIN_CHECKED}
IMPL_ENV = {"OMP_NUM_THREADS": "1", "UBSAN_OPTIONS": "print_stacktrace=1:symbolize=0",
            "ASAN_OPTIONS": "detect_leaks=0:allocator_may_return_null=1:symbolize=0"}

ASSUMPTIONS = [
    "the readers receive USED output vectors (ptr / col / val of length 0, 7 or 14 with junk contents, chosen from the file size): the model "
    "returns fresh lists, so any dependence on the previous contents of the caller's vectors is a mismatch",
    "text<->number conversion of VALUES is an oracle in the Coq model (vread (vprint v ++ rest) = Some (v, rest)); "
    "validated here bitwise on denormals, extreme exponents, -0 and random bit patterns for double/float/complex; "
    "inf/nan are written as 'inf'/'nan' and refused by the reader (excluded by the property's 'finite values')",
    "the counting sort of mm_reader is abstracted to bucket lists in MMFormat.v (validated by the correspondence)",
    "Idx = Ptr = Col = ptrdiff_t; SizeT = size_t and ptrdiff_t; values double, float, complex<double>, int, long long (+ char dense)",
    "allocations above 256 MiB are answered with std::bad_alloc by the harness (MMFormat.alloc_cap)",
]
TRUSTED_BASE = [
    "harness/drv_fileio.cpp (fork-per-evaluation isolation, temp files, hex transport), ocaml/fileio/ops_fileio.ml "
    "(getline / operator>> tokenisation glue, printf/strtod value oracle), tools/props/C19.py",
    "g++ 12 AddressSanitizer + UndefinedBehaviorSanitizer as the detector of out-of-bounds accesses",
]
RULE = ("cases derived from VERIF_SEED by tools/props/C19.py; one evaluation = one file operation on the real code "
        "(each damaged-file variant counts); distinct = distinct (op, file/matrix); non-trivial = the implementation returned a matrix/array")

TYPES = ["d", "f", "z", "i", "l"]
VW = {"d": 8, "f": 4, "z": 16, "i": 4, "l": 8}
KIND = {"d": "real", "f": "real", "z": "complex", "i": "integer", "l": "integer"}


# ------------------------------------------------------------------ values
def d_bits(x): return "%016x" % struct.unpack("<Q", struct.pack("<d", x))[0]
def f_bits(x): return "%08x" % struct.unpack("<I", struct.pack("<f", x))[0]
def bits_d(h): return struct.unpack("<d", struct.pack("<Q", int(h, 16)))[0]
def bits_f(h): return struct.unpack("<f", struct.pack("<I", int(h, 16)))[0]

D_NASTY = ["0000000000000000", "8000000000000000", "0000000000000001", "8000000000000001", "000fffffffffffff",
           "0010000000000000", "7fefffffffffffff", "ffefffffffffffff", "3ff0000000000000", "3fb999999999999a",
           "3ff0000000000001", "bfefffffffffffff", "4340000000000000", "433fffffffffffff", "0000000000000123",
           "7fe1ccf385ebc8a0", "0018000000000000", "3cb0000000000000", "4037000000000000", "c000000000000000"]
F_NASTY = ["00000000", "80000000", "00000001", "80000001", "007fffff", "00800000", "7f7fffff", "ff7fffff",
           "3f800000", "3dcccccd", "3f800001", "4b800000", "33800000", "c0000000"]

def rand_d(r):
    c = r.random()
    if c < 0.35: return r.choice(D_NASTY)
    if c < 0.55: return d_bits(float(r.randint(-9, 9)))
    while True:
        b = r.getrandbits(64)
        if (b >> 52) & 0x7ff != 0x7ff: return "%016x" % b      # finite
def rand_f(r):
    c = r.random()
    if c < 0.35: return r.choice(F_NASTY)
    if c < 0.55: return f_bits(float(r.randint(-9, 9)))
    while True:
        b = r.getrandbits(32)
        if (b >> 23) & 0xff != 0xff: return "%08x" % b
def rand_val(r, t):
    if t == "d": return rand_d(r)
    if t == "f": return rand_f(r)
    if t == "z": return rand_d(r) + "," + rand_d(r)
    if t == "i": return str(r.choice([0, 1, -1, 7, -2147483648, 2147483647, r.randint(-10**9, 10**9)]))
    if t == "l": return str(r.choice([0, 1, -1, -9223372036854775808, 9223372036854775807, r.randint(-10**18, 10**18)]))
    raise ValueError(t)

def rand_rows(r, n, m, maxk=4, sorted_rows=False, dups=True):
    rows = []
    for _ in range(n):
        k = r.choice([0, 1, 2, 3, maxk]) if m > 0 else 0
        cols = [r.randrange(m) for _ in range(k)]
        if not dups: cols = list(dict.fromkeys(cols))
        if sorted_rows: cols.sort()
        rows.append(cols)
    return rows

def fmt_mat(n, m, rows, vals):
    out = [str(n), str(m)]
    it = iter(vals)
    for cols in rows:
        out.append(str(len(cols)))
        for c in cols: out += [str(c), next(it)]
    return " ".join(out)

def hexs(b): return b.hex() if b else "-"
def unhex(h): return b"" if h == "-" else bytes.fromhex(h)


# ------------------------------------------------------------------ case generation (stage A)
def cases(tier, seed):
    """stage-A case lines; stage B is derived from files written by the implementation"""
    r = random.Random(seed * 1000 + 19)
    N = 60 if tier == "quick" else 600
    out = []; k = [0]
    def add(op, payload):
        out.append("a%d %s %s" % (k[0], op, payload)); k[0] += 1
    for it in range(N):
        t = TYPES[it % len(TYPES)]
        n = r.choice([1, 2, 3, 3, 4, 5, 7]) if it % 9 else r.choice([0, 1, 12, 25])
        m = r.choice([n, n, max(1, n + r.randint(-2, 3))])
        rows = rand_rows(r, n, m, maxk=min(m, 6) if m else 0, dups=(r.random() < 0.3), sorted_rows=(r.random() < 0.3))
        if it % 11 == 5: rows = [[] for _ in rows]                       # nnz = 0
        nnz = sum(len(c) for c in rows)
        A = fmt_mat(n, m, rows, [rand_val(r, t) for _ in range(nnz)])
        add("mm.write." + t, A); add("bin.write." + t, A)
        ranges = [(-1, -1)]
        if n > 0:
            a = r.randint(0, n); b = r.randint(a, n); ranges += [(a, b), (r.randint(0, n), -1)]
        for (a, b) in ranges:
            add("mm.rt." + t, "%d %d %s" % (a, b, A)); add("bin.rt." + t, "%d %d %s" % (a, b, A))
        # dense
        dn = r.choice([0, 1, 2, 3, 5]); dm = r.choice([1, 1, 2, 3])
        D = " ".join([str(dn), str(dm)] + [rand_val(r, t) for _ in range(dn * dm)])
        add("mm.writed." + t, D); add("bin.writed." + t, D)
        dr = [(-1, -1)] + ([(r.randint(0, dn), -1), (0, r.randint(0, dn))] if dn else [])
        for (a, b) in dr:
            add("mm.rtd." + t, "%d %d %s" % (a, b, D)); add("bin.rtd." + t, "%d %d %s" % (a, b, D))
    # 8-bit integers: the reader has a special case for char
    for it in range(6):
        dn = r.choice([1, 2, 4])
        add("mm.rtd.c", "-1 -1 %d 1 %s" % (dn, " ".join(str(r.choice([0, 1, 2, 7, 49, 65, 100, 127])) for _ in range(dn))))
    return out


# hand-made MatrixMarket files (symmetric storage, comments, odd spacing) ---------------------
def py_val_text(r, t):
    """(text, canonical value) for a value written by a foreign program"""
    if t in ("d", "f"):
        x = r.choice([1.0, -2.5, 0.1, 3e-5, 1e10, 7.0, -0.0, 12.75])
        txt = r.choice(["%r", "%.17g", "%.3e", "%+.20e"]) % x
        x = float(txt)
        return txt, (d_bits(x) if t == "d" else f_bits(struct.unpack("<f", struct.pack("<f", x))[0]))
    if t == "z":
        a, va = py_val_text(r, "d"); b, vb = py_val_text(r, "d")
        return a + " " + b, va + "," + vb
    x = r.randint(-50, 50)
    return r.choice(["%d", "%+d"]) % x, str(x)

def handmade(r, t, symmetric, n):
    """returns (file bytes, expected rows [[(col, canon)]], n, m)"""
    m = n
    ents = []
    for i in range(n):
        for j in range(n):
            if (j <= i if symmetric else True) and r.random() < (0.6 if symmetric else 0.35):
                txt, canon = py_val_text(r, t); ents.append((i, j, txt, canon))
    r.shuffle(ents)
    sp = lambda: r.choice([" ", " ", "  ", "\t"])
    lines = ["%%%%MatrixMarket matrix coordinate %s %s" % (KIND[t], "symmetric" if symmetric else "general")]
    for _ in range(r.randint(0, 2)): lines.append("%" + r.choice([" a comment", "", "% 3 3 3"]))
    lines.append("%d%s%d%s%d" % (n, sp(), m, sp(), len(ents)))
    for (i, j, txt, _) in ents:
        lines.append("%s%d%s%d%s%s%s" % (r.choice(["", "", " "]), i + 1, sp(), j + 1, sp(), txt, r.choice(["", "", " ", "\r"])))
    body = "\n".join(lines) + r.choice(["\n", "\n", "", "\n\n", "\n \n"])
    rows = [[] for _ in range(n)]
    for (i, j, _, canon) in ents:
        rows[i].append((j, canon))
        if symmetric and i != j: rows[j].append((i, canon))
    rows = [sorted(rw, key=lambda e: e[0]) for rw in rows]       # stable
    return body.encode(), rows, n, m

def show_rows(n, m, rows):
    return "OK %d %d" % (n, m) + "".join(" |" + "".join(" %d:%s" % e for e in rw) for rw in rows)


# the witnesses of the HISTORICAL refutation theorems of Properties_C19.v (readers before the fix: commits),
# replayed on the real code every run: the repaired readers (and the checked models) must reject every one
def witness_lines():
    B = b"%%MatrixMarket matrix coordinate real general\n"
    def binfile(n, ptr, col, vals):
        return struct.pack("<q", n) + b"".join(struct.pack("<q", p) for p in ptr) + b"".join(struct.pack("<q", c) for c in col) + \
               b"".join(struct.pack("<d", v) for v in vals)
    return [
        "W1 mm.read.d -1 -1 " + hexs(B + b"3 3 3\n1 1 1.0\n2 9 2.0\n3 3 3.0\n"),       # C19_mm_read_safe_refuted
        "W2 mm.read.d -1 -1 " + hexs(B + b"3 3 3\n1 1 1.0\n9 2 2.0\n3 3 3.0\n"),       # C19_mm_read_row_dropped_refuted
        "W3 mm.read.d 2 -1 " + hexs(B + b"1 1 0\n"),                                     # C19_mm_read_range_oob_refuted
        "W7 mm.read.d 4 -1 " + hexs(B + b"3 3 1\n1 1 1.0\n"),                          # C19_mm_read_range_oob_refuted
        "W8 mm.read.d -1 -1 " + hexs(B + b"-1 1 0\n"),                                   # C19_mm_read_negative_n_oob_refuted
        "W9 mm.readd.d -1 -1 " + hexs(b"%%MatrixMarket matrix array real general\n-3 -2\n"),   # C19_mm_readd_safe_refuted
        "W4 bin.read.d.u -1 -1 " + hexs(binfile(3, [0, 1000, 2, 3], [0, 1, 2], [1.0, 2.0, 3.0])),   # C19_bin_read_safe_refuted
        "W5 bin.read.d.u -1 -1 " + hexs(binfile(3, [0, 2, 1, 3], [0, 1, 2], [1.0, 2.0, 3.0])),      # C19_bin_read_invalid_refuted
        "W6 bin.read.d.s 2 -1 " + hexs(binfile(1, [0, 1], [0], [1.0])),                              # C19_bin_read_range_oob_refuted
    ]


# ------------------------------------------------------------------ running
def run_lines(ctx, which, lines, env, shards=16):
    exe = ctx["model"] if which == "model" else ctx["cpp"][which]
    return ctx["run_driver"](exe, lines, env_extra=env, shards=shards, timeout=3000)

def fail(kind_line, impl, model, theorem, **kw):
    d = dict(kind="counterexample", case=kind_line, impl=impl, model=model, op=kind_line.split(" ", 2)[1],
             size=len(kind_line), theorem=theorem)
    d.update(kw); return d

def stat(ctx, op, n=1, nontrivial=0, distinct_key=None):
    st = ctx["stats"]; st["evaluations"] += n; st["by_op"][op] = st["by_op"].get(op, 0) + n
    if distinct_key is not None:
        h = hashlib.sha256(distinct_key.encode()).hexdigest()
        if h not in st["distinct"]:
            st["distinct"].add(h); st["nontrivial"] += nontrivial

def is_crash(s): return s is None or s.startswith(("CRASH", "HARNESS"))
def is_exc(s): return s is not None and s.startswith("EXC")
def is_ok(s): return s is not None and s.startswith("OK")

def same(impl, model):
    """model 'OOB' (the model indexes out of bounds) corresponds to a crash of the real code"""
    if model == "OOB": return is_crash(impl)
    return impl == model

NULL_UB = "reference_binding_to_null_pointer"


# ------------------------------------------------------------------ evaluation of single read cases
def evaluate_reads(ctx, recs):
    """recs: list of dict(line='<id> <op> r0 r1 <hex> [meta...]', impl=..., model=..., must=reason|None, fmt='mm'|'mmd'|'bin'|'bind').
    Applies checks (1)-(4); returns failures. Oracles are evaluated by the extracted Coq functions."""
    fails = []
    olines = []; oback = {}
    clines = []; cback = {}
    for k, rc in enumerate(recs):
        impl, model, line = rc["impl"], rc["model"], rc["line"]
        op = line.split(" ", 2)[1]
        th = None
        if is_crash(impl):
            th = "C19 safety (A5): the reader crashed / read out of bounds on a damaged file"
            fails.append(fail(line, impl, model, th, why="crash", fmt=rc["fmt"], must=rc.get("must")))
            continue
        if impl is not None and impl.startswith("BAD"):
            fails.append(fail(line, impl, model, "C19 safety (A5): the reader returned a structurally invalid matrix",
                              why="invalid", fmt=rc["fmt"], must=rc.get("must")))
            continue
        if is_ok(impl):
            if rc.get("must"):
                fails.append(fail(line, impl, model, "C19 errors (A4): %s but the reader returned a matrix" % rc["must"],
                                  why="no-raise", fmt=rc["fmt"], must=rc["must"]))
                continue
            if rc["fmt"] == "mm":
                oid = "o%d" % k; olines.append("%s o.wf -1 %s" % (oid, impl)); oback[oid] = k
                cid = "k%d" % k; clines.append("%s mm.classify %s" % (cid, line.split(" ")[4])); cback[cid] = k
            elif rc["fmt"] == "bin":
                oid = "o%d" % k; olines.append("%s o.wfflat -1 %s" % (oid, impl)); oback[oid] = k
            elif rc["fmt"] == "mmd":
                # dense result: rows x cols values (the reader returns the chunk's row count)
                mo = re.match(r"OK (\d+) (\d+) \[(.*)\]$", impl)
                if not mo or int(mo.group(1)) * int(mo.group(2)) != len(mo.group(3).split()):
                    fails.append(fail(line, impl, model, "C19 safety (A5): the dense reader returned an array whose size is not rows*cols",
                                      why="invalid-dense", fmt="mmd", must=None))
                    continue
        if model is not None and model != "NA" and not same(impl, model):
            ctx["stats"]["mismatches"] += 1
            fails.append(fail(line, impl, model, "correspondence drv_fileio (%s) vs MMFormat.v/BinFormat.v reader model" % op,
                              why="model-mismatch", fmt=rc["fmt"], must=rc.get("must")))
    # (2) structural validity by the extracted wf / wf_flat; dedupe identical payloads
    if olines:
        uniq = {}
        for l in olines:
            cid, rest = l.split(" ", 1); uniq.setdefault(rest, []).append(cid)
        ul = ["u%d %s" % (i, rest) for i, rest in enumerate(uniq)]
        res = run_lines(ctx, "model", ul, MODEL_ENV)
        for i, (rest, cids) in enumerate(uniq.items()):
            ctx["stats"]["oracle_checks"] += len(cids)
            rr = res.get("u%d" % i)
            if rr is None or not rr.startswith("OK"):
                for cid in cids:
                    rc = recs[oback[cid]]
                    ctx["stats"]["oracle_fail"] += 1
                    fails.append(fail(rc["line"], rc["impl"], rc["model"],
                                      "C19 safety (A5): the reader returned a structurally invalid matrix (%s)" % rr,
                                      why="invalid", fmt=rc["fmt"], oracle=dict(op=rest.split(" ")[0], result=rr), must=rc.get("must")))
    # (3) format specification: an accepted coordinate file must be consistent
    if clines:
        uniq = {}
        for l in clines:
            cid, rest = l.split(" ", 1); uniq.setdefault(rest, []).append(cid)
        ul = ["u%d %s" % (i, rest) for i, rest in enumerate(uniq)]
        res = run_lines(ctx, "model", ul, MODEL_ENV)
        for i, (rest, cids) in enumerate(uniq.items()):
            cl = res.get("u%d" % i)
            ctx["stats"]["oracle_checks"] += len(cids)
            if cl in ("row-out-of-range", "col-out-of-range", "short", "trailing-data", "symmetric-not-square", "bad-header", "bad-entry"):
                for cid in cids:
                    rc = recs[cback[cid]]
                    # a partial row range legitimately skips rows outside it; inconsistency is still inconsistency
                    fails.append(fail(rc["line"], rc["impl"], rc["model"],
                                      "C19 errors (A4): inconsistent file (%s by MMFormat.mm_classify) but the reader returned a matrix" % cl,
                                      why="inconsistent", cls=cl, fmt=rc["fmt"], must=rc.get("must")))
    return fails


def read_op(fmt, t, sg="u"):
    return {"mm": "mm.read." + t, "mmd": "mm.readd." + t, "bin": "bin.read.%s.%s" % (t, sg), "bind": "bin.readd.%s.%s" % (t, sg)}[fmt]
def multi_op(fmt, t, what, sg="u"):
    return {"mm": "mm.%s.%s" % (what, t), "mmd": "mm.%sd.%s" % (what, t),
            "bin": "bin.%s.%s.%s" % (what, t, sg), "bind": "bin.%sd.%s.%s" % (what, t, sg)}[fmt]


def last_data_line_start(data):
    """offset of the first byte of the last line that has a non-blank character"""
    off = 0; last = 0
    for ln in data.split(b"\n"):
        if ln.strip(): last = off
        off += len(ln) + 1
    return last

def banner_tokens(data):
    return data.split(b"\n", 1)[0].split()[:5]

def sample_bytes(r, orig, tier):
    if tier != "quick":
        return [b for b in range(256) if b != orig]
    smart = []
    if 48 <= orig <= 57: smart += [48 + (orig - 48 + 1) % 10, 48 + (orig - 48 + 9) % 10, 57, 48]
    smart += [orig ^ 1, 32, 10, 0, 255, 45]
    out = []
    for b in smart:
        if b != orig and b not in out: out.append(b)
    out = out[:5]
    while len(out) < 8:
        b = r.randrange(256)
        if b != orig and b not in out: out.append(b)
    return out


def fault_cases(ctx, bases, tier, seed):
    """bases: list of dict(fmt, t, data(bytes), sg, ranges). Returns (lines, index) where index maps a line id to
    the list of (standalone read line, must-raise reason)."""
    r = random.Random(seed * 77 + 5)
    lines = []; index = {}
    for bi, b in enumerate(bases):
        data, fmt, t, sg = b["data"], b["fmt"], b["t"], b.get("sg", "u")
        hx = hexs(data)
        last = last_data_line_start(data) if fmt in ("mm", "mmd") else None
        btoks = banner_tokens(data) if fmt in ("mm", "mmd") else None
        for (r0, r1) in b["ranges"]:
            full = (r0 < 0 and r1 < 0)
            # truncations
            lid = "t%d_%d_%d" % (bi, r0 + 1, r1 + 1)
            lines.append("%s %s %d %d %s" % (lid, multi_op(fmt, t, "tr", sg), r0, r1, hx))
            subs = []
            for cut in range(len(data)):
                d = data[:cut]
                must = None
                if fmt in ("mm", "mmd"):
                    if b.get("ndata", 1) > 0 and cut <= last: must = "file truncated before its last data line"
                    elif b.get("ndata", 1) == 0 and cut < b.get("hdr_end", 0): must = "file truncated inside its header"
                elif full or b.get("range_needs_all"):
                    must = "binary file truncated"
                subs.append(("%s.%d %s %d %d %s" % (lid, cut, read_op(fmt, t, sg), r0, r1, hexs(d)), must))
            index[lid] = subs
            # single-byte corruptions
            for off in range(len(data)):
                vals = sample_bytes(r, data[off], tier)
                lid = "f%d_%d_%d_%d" % (bi, r0 + 1, r1 + 1, off)
                lines.append("%s %s %d %d %s %d %d %s" % (lid, multi_op(fmt, t, "fz", sg), r0, r1, hx, off, len(vals), " ".join(map(str, vals))))
                subs = []
                for v in vals:
                    d = data[:off] + bytes([v]) + data[off + 1:]
                    must = None
                    if fmt in ("mm", "mmd") and banner_tokens(d) != btoks: must = "banner word corrupted"
                    subs.append(("%s.%d %s %d %d %s" % (lid, v, read_op(fmt, t, sg), r0, r1, hexs(d)), must))
                index[lid] = subs
    return lines, index


def fmt_of_op(op):
    if op.startswith("mm.readd"): return "mmd"
    if op.startswith("mm.read"): return "mm"
    if op.startswith("bin.readd"): return "bind"
    if op.startswith("bin.read"): return "bin"
    return None


def run(ctx, cases_override=None):
    tier, seed = ctx["tier"], ctx["seed"]
    base_dir = tempfile.mkdtemp(prefix="verif-c19-", dir=os.environ.get("TMPDIR") or None)
    env = dict(IMPL_ENV); env["VERIF_C19_DIR"] = base_dir
    try:
        if cases_override:
            return run_replay(ctx, cases_override, env)
        return run_all(ctx, tier, seed, env)
    finally:
        shutil.rmtree(base_dir, ignore_errors=True)


def run_replay(ctx, lines, env):
    fails = []
    simple = [l for l in lines if fmt_of_op(l.split(" ", 2)[1]) is None]
    reads = [l for l in lines if fmt_of_op(l.split(" ", 2)[1]) is not None]
    if simple:
        impl = run_lines(ctx, "fileio", simple, env); model = run_lines(ctx, "model", simple, MODEL_ENV)
        for l in simple:
            cid, op = l.split(" ", 2)[:2]; stat(ctx, op)
            if not same(impl.get(cid), model.get(cid)):
                fails.append(fail(l, impl.get(cid), model.get(cid), "C19 round trip / writer correspondence (%s)" % op, why="stage-a"))
    if reads:
        impl = run_lines(ctx, "fileio", reads, env); model = run_lines(ctx, "model", reads, MODEL_ENV)
        recs = []
        for l in reads:
            cid, op = l.split(" ", 2)[:2]; stat(ctx, op)
            toks = l.split(" ")
            must = None
            for tk in toks[5:]:
                if tk.startswith("#must:"): must = tk[6:].replace("_", " ")
            recs.append(dict(line=l, impl=impl.get(cid), model=model.get(cid), must=must, fmt=fmt_of_op(op)))
        fails += evaluate_reads(ctx, recs)
    return fails


def run_all(ctx, tier, seed, env):
    fails = []
    r = random.Random(seed * 31 + 3)
    # ---------------- stage A
    lines = cases(tier, seed)
    impl = run_lines(ctx, "fileio", lines, env); model = run_lines(ctx, "model", lines, MODEL_ENV)
    written = {}
    for l in lines:
        cid, op, payload = l.split(" ", 2)
        a, b = impl.get(cid), model.get(cid)
        stat(ctx, op, 1, 1 if is_ok(a) else 0, op + payload)
        if len(ctx["stats"]["samples"]) < 8 and ctx["stats"]["evaluations"] % 23 == 1:
            ctx["stats"]["samples"].append(dict(case=l[:300], impl=(a or "")[:300]))
        if a != b:
            ctx["stats"]["mismatches"] += 1
            th = ("C19 round trip (A1/A2): read(write(A), r0, r1) = slice r0 r1 (sort_rows A), bitwise" if ".rt" in op
                  else "correspondence drv_fileio (%s) vs writer model (byte-exact file)" % op)
            fails.append(fail(l, a, b, th, why="stage-a"))
        elif ".write" in op and is_ok(a):
            written[cid] = (op, payload, unhex(a.split(" ")[1]))
    ctx["stats"]["traces"] += len(impl)
    # the same round trips through files with 32-bit index arrays under a 64-bit size header (size_t n; vector<int> ptr, col): the
    # result must be the one of the 64-bit file (which has just been compared with the model); seeded C19-8
    l32 = [l.replace(" bin.rt.", " bin.rt32.", 1) for l in lines if l.split(" ", 2)[1].startswith("bin.rt.")]
    impl32 = run_lines(ctx, "fileio", l32, env)
    for l in l32:
        cid, op, payload = l.split(" ", 2)
        a, b = impl32.get(cid), impl.get(cid)
        stat(ctx, op, 1, 1 if is_ok(a) else 0, op + payload)
        ctx["stats"]["oracle_checks"] += 1
        if a != b:
            ctx["stats"]["oracle_fail"] += 1
            fails.append(fail(l, a, b, "C19 binary round trip with 32-bit index arrays and a 64-bit size header = the 64-bit file's result (model-checked)", why="stage-a"))

    # files written by the implementation are read back by both readers (reader model on real files)
    rl = []
    for cid, (op, payload, data) in list(written.items())[: (40 if tier == "quick" else 400)]:
        t = op.split(".")[2]
        if op.startswith("mm.writed"): rl.append("w%s mm.readd.%s -1 -1 %s" % (cid, t, hexs(data)))
        elif op.startswith("mm.write"): rl.append("w%s mm.read.%s -1 -1 %s" % (cid, t, hexs(data)))
        elif op.startswith("bin.writed"): rl.append("w%s bin.readd.%s.u -1 -1 %s" % (cid, t, hexs(data)))
        else: rl.append("w%s bin.read.%s.u -1 -1 %s" % (cid, t, hexs(data)))
    # hand-made files: symmetric storage, comments, foreign number formats; wrong kinds
    expect = {}
    for k in range(12 if tier == "quick" else 120):
        t = TYPES[k % 5]; sym = (k % 3 != 2); n = r.choice([1, 2, 3, 4, 6])
        data, rows, n, m = handmade(r, t, sym, n)
        cid = "h%d" % k
        rl.append("%s mm.read.%s -1 -1 %s" % (cid, t, hexs(data))); expect[cid] = show_rows(n, m, rows)
        if n > 1:
            a = r.randint(0, n - 1); b2 = r.randint(a, n)
            cid = "hr%d" % k
            rl.append("%s mm.read.%s %d %d %s" % (cid, t, a, b2, hexs(data))); expect[cid] = show_rows(b2 - a, m, rows[a:b2])
        wrong = {"d": "z", "f": "i", "z": "d", "i": "d", "l": "z"}[t]
        cid = "hk%d" % k
        rl.append("%s mm.read.%s -1 -1 %s" % (cid, wrong, hexs(data))); expect[cid] = "EXC error"
        cid = "hd%d" % k
        rl.append("%s mm.readd.%s -1 -1 %s" % (cid, t, hexs(data))); expect[cid] = "EXC error"     # not an array file
        # banner variants
        for vi, (old, new) in enumerate([(b"%%MatrixMarket", b"%MatrixMarket"), (b"matrix", b"vector"), (b"coordinate", b"coordinat"),
                                         (KIND[t].encode(), b"pattern"), (b"symmetric" if sym else b"general", b"hermitian")]):
            cid = "hb%d_%d" % (k, vi)
            rl.append("%s mm.read.%s -1 -1 %s" % (cid, t, hexs(data.replace(old, new, 1)))); expect[cid] = "EXC error"
    rl += witness_lines()
    impl2 = run_lines(ctx, "fileio", rl, env); model2 = run_lines(ctx, "model", rl, MODEL_ENV)
    recs = []
    for l in rl:
        cid, op, payload = l.split(" ", 2)
        a, b = impl2.get(cid), model2.get(cid)
        stat(ctx, op, 1, 1 if is_ok(a) else 0, op + payload)
        if cid in expect and a != expect[cid] and not (is_crash(a) and NULL_UB in (a or "")):
            fails.append(fail(l, a, expect[cid], "C19 %s: implementation vs independent expectation" %
                              ("symmetric expansion (A3)" if cid.startswith(("h", "hr")) and not cid.startswith(("hk", "hd", "hb")) else "error cases (A4)"),
                              why="stage-a"))
        recs.append(dict(line=l, impl=a, model=b, must=None, fmt=fmt_of_op(op)))
    fails += evaluate_reads(ctx, recs)

    # ---------------- stage B: faults
    nb = 3 if tier == "quick" else 10
    bases = []
    mmw = [(cid, v) for cid, v in written.items() if v[0].startswith("mm.write.")]
    mmd = [(cid, v) for cid, v in written.items() if v[0].startswith("mm.writed.")]
    bnw = [(cid, v) for cid, v in written.items() if v[0].startswith("bin.write.")]
    bnd = [(cid, v) for cid, v in written.items() if v[0].startswith("bin.writed.")]
    def pick(lst, cond, k):
        out = []
        seen_t = set()
        for cid, (op, payload, data) in lst:
            t = op.split(".")[2]
            if cond(payload, data) and (t not in seen_t or len(seen_t) >= 5):
                out.append((op, payload, data, t)); seen_t.add(t)
            if len(out) >= k: break
        return out
    def nnz_of(payload):
        tk = payload.split(); n = int(tk[0]); p = 2; z = 0
        for _ in range(n):
            c = int(tk[p]); z += c; p += 1 + 2 * c
        return n, z
    small_sparse = lambda payload, data: (lambda nz: 2 <= nz[0] <= 4 and 2 <= nz[1] <= 5)(nnz_of(payload))
    small_dense = lambda payload, data: (lambda tk: 2 <= int(tk[0]) * int(tk[1]) <= 6)(payload.split())
    q = (tier == "quick")
    n_mm, n_hand, n_mmd, n_bin, n_bind = (2, 1, 1, 2, 1) if q else (5, 3, 2, 7, 3)
    for (op, payload, data, t) in pick(mmw, small_sparse, n_mm):
        n, nz = nnz_of(payload)
        bases.append(dict(fmt="mm", t=t, data=data, ndata=nz, ranges=[(-1, -1)] + ([(1, -1)] if len(bases) == 0 else [])))
    for k in range(n_hand):
        t = ["d", "z", "i"][k % 3]
        while True:
            data, rows, n, m = handmade(r, t, True, r.choice([2, 3]))
            nd = sum(1 for rw in rows for _ in rw)
            if 2 <= nd and len(data) < 200: break
        bases.append(dict(fmt="mm", t=t, data=data, ndata=nd, ranges=[(-1, -1)]))
    for (op, payload, data, t) in pick(mmd, small_dense, n_mmd):
        # partial row ranges of a dense file (what every rank but the last one does in a distributed load): the rows outside the
        # range are skipped line by line, and a file that lost its last line must still be refused (seeded C19-6)
        bases.append(dict(fmt="mmd", t=t, data=data, ndata=1, ranges=[(-1, -1), (0, 1), (1, 1), (1, -1)]))
    for k, (op, payload, data, t) in enumerate(pick(bnw, small_sparse, n_bin)):
        bases.append(dict(fmt="bin", t=t, data=data, sg=("s" if k % 2 else "u"), ranges=[(-1, -1), (1, -1)]))
    for (op, payload, data, t) in pick(bnd, small_dense, n_bind):
        bases.append(dict(fmt="bind", t=t, data=data, sg="u", ranges=[(-1, -1)]))
    ctx["log"].append(("fault bases", [(b["fmt"], b["t"], len(b["data"])) for b in bases]))

    flines, index = fault_cases(ctx, bases, tier, seed)
    implf = run_lines(ctx, "fileio", flines, env, shards=16)
    modelf = run_lines(ctx, "model", flines, MODEL_ENV, shards=16)
    recs = []
    n_na = 0
    for l in flines:
        lid, op = l.split(" ", 2)[:2]
        subs = index[lid]
        a = (implf.get(lid) or "").split(" ; "); b = (modelf.get(lid) or "").split(" ; ")
        if len(a) != len(subs) or len(b) != len(subs):
            fails.append(fail(l, implf.get(lid), modelf.get(lid), "harness: fault line did not produce one result per variant", why="harness"))
            continue
        for (sl, must), ia, mb in zip(subs, a, b):
            if must: sl = sl + " #must:" + must.replace(" ", "_")
            if mb == "NA": n_na += 1
            recs.append(dict(line=sl, impl=ia, model=mb, must=must, fmt=fmt_of_op(sl.split(" ", 2)[1])))
        stat(ctx, op, len(subs), sum(1 for x in a if is_ok(x)), l)
    ctx["stats"]["traces"] += len(recs)
    ctx["log"].append(("fault variants", len(recs), "model-NA", n_na))
    bfails = evaluate_reads(ctx, recs)
    fails += bfails
    # look past the known empty-vector UB reports with the -fno-sanitize=null build
    again = [f for f in fails if is_crash(f.get("impl")) and NULL_UB in (f.get("impl") or "")]
    if again:
        seen = {}
        for f in again: seen.setdefault(f["case"].split(" ", 1)[1], f)
        al2 = ["n%d %s" % (i, l) for i, l in enumerate(seen)]
        impl3 = run_lines(ctx, "fileio_nn", al2, env); model3 = run_lines(ctx, "model", al2, MODEL_ENV)
        recs3 = []; f3 = []
        for l, f0 in zip(al2, seen.values()):
            cid, op = l.split(" ", 2)[:2]
            stat(ctx, op + "[no-null-sanitizer]")
            if fmt_of_op(op) is None:
                if not same(impl3.get(cid), model3.get(cid)):
                    f3.append(fail(l, impl3.get(cid), model3.get(cid), f0["theorem"], why="stage-a"))
                continue
            must = None
            for tk in l.split(" ")[5:]:
                if tk.startswith("#must:"): must = tk[6:].replace("_", " ")
            recs3.append(dict(line=l, impl=impl3.get(cid), model=model3.get(cid), must=must, fmt=fmt_of_op(op)))
        f3 += evaluate_reads(ctx, recs3)
        for f in f3: f["second_build"] = True
        fails += f3
    return fails

def _unused():
    fails = []; bfails = []
    fails += bfails
    return fails


# ------------------------------------------------------------------ classification of failures
def _ptr_invalid(line):
    """binary CRS file of the case: is the ptr slice that read_crs uses non-monotone / out of bounds?"""
    tk = line.split(" ")
    try:
        r0, r1, data = int(tk[2]), int(tk[3]), unhex(tk[4])
        sg = tk[1].split(".")[-1]
        if len(data) < 8: return False
        n = struct.unpack("<q" if sg == "s" else "<Q", data[:8])[0]
        if n > 10**6 or n < 0: return False
        r0 = max(r0, 0); r1 = n if r1 < 0 else r1
        if r0 > r1: return False
        raw = data[8 + 8 * r0: 8 + 8 * (r1 + 1)]
        if len(raw) < 8 * (r1 - r0 + 1): return False
        ptr = list(struct.unpack("<%dq" % (r1 - r0 + 1), raw))
        if len(data) < 8 + 8 * (n + 1): return False
        nnz = struct.unpack("<q", data[8 + 8 * n: 16 + 8 * n])[0]
        return ptr[0] < 0 or any(ptr[i] > ptr[i + 1] for i in range(len(ptr) - 1)) or ptr[-1] > nnz
    except Exception:
        return False

def _range_unordered(line):
    tk = line.split(" ")
    try:
        op = tk[1]; r0, r1, data = int(tk[2]), int(tk[3]), unhex(tk[4])
        if op.startswith("bin."):
            if len(data) < 8: return False
            n = struct.unpack("<q", data[:8])[0]
        else:
            ls = data.split(b"\n")
            body = [l for l in ls[1:] if not l.startswith(b"%")]
            n = int(re.match(rb"\s*([+-]?\d+)", body[0]).group(1))
        r0 = max(r0, 0); r1 = n if r1 < 0 else r1
        return r0 > r1
    except Exception:
        return False

def classify(f):
    """signature of a failing case; only violations with these specific causes are known findings"""
    line = f.get("case") or ""
    op = line.split(" ", 2)[1] if " " in line else ""
    impl = f.get("impl") or ""
    why = f.get("why")
    sig = {"why": why}
    reader = "mm" if op.startswith("mm.") else ("binary" if op.startswith("bin.") else "?")
    if op == "mm.rtd.c":
        return {"writer": "mm", "defect": "char-written-as-character"}
    if reader == "mm" and is_crash(impl) and "signed_integer_overflow" in impl and re.search(r"@amgcl/io/mm\.hpp:(188|189)\b", impl):
        return {"reader": "mm", "defect": "index-decrement-overflow"}
    if is_crash(impl) and NULL_UB in impl:
        m = re.search(r"@(amgcl/[\w/\.]+:\d+)", impl)
        return {"reader": reader, "defect": "element-address-of-empty-vector", "site": m.group(1) if m else "?"}
    if fmt_of_op(op) in ("mm", "mmd", "bin", "bind") and _range_unordered(line) and (is_crash(impl) or why in ("invalid", "crash")):
        return {"reader": reader, "defect": "row-range-not-ordered"}
    if reader == "binary" and fmt_of_op(op) == "bin" and _ptr_invalid(line) and (why in ("crash", "invalid") or
            (why == "model-mismatch" and f.get("model") == "OOB")):
        return {"reader": "binary", "defect": "ptr-not-validated"}
    if reader == "mm" and why == "invalid-dense":
        tk = line.split(" ")
        try:
            body = [l for l in unhex(tk[4]).split(b"\n")[1:] if not l.startswith(b"%")]
            mo = re.match(rb"\s*([+-]?\d+)\s+([+-]?\d+)", body[0])
            if int(mo.group(1)) < 0 and int(mo.group(2)) < 0: return {"reader": "mm", "defect": "negative-sizes-accepted"}
        except Exception:
            pass
    if reader == "mm" and why == "invalid" and "col-out-of-range" in str(f.get("oracle")):
        return {"reader": "mm", "defect": "col-out-of-range-accepted"}
    if reader == "mm" and why == "inconsistent":
        return {"reader": "mm", "defect": {"row-out-of-range": "row-out-of-range-dropped", "col-out-of-range": "col-out-of-range-accepted",
                                          "trailing-data": "trailing-data-ignored",
                                          "symmetric-not-square": "col-out-of-range-accepted"}.get(f.get("cls"), f.get("cls"))}
    sig.update({"reader": reader, "defect": "unclassified"})
    return sig
