"""C08 -- sparse matrix kernels equal their dense definitions.

Case ids encode the thread count the case is run with: "t<nt>.<k>".  Ops that carry an
explicit nt token (product, specrad) are generated once per thread count; the driver refuses
to run them under a different OMP_NUM_THREADS.

Stage 1 (correspondence): implementation (amgcl templates at vq::Q / std::complex<double>) vs
the extracted Coq model (MatOps.v, MatOps2.v), byte for byte, in storage order.
Stage 2 (oracle): the extracted Coq *specification* functions (dense definitions) are applied
to the outputs of the implementation ("o.*" ops print OK / FAIL ...).
"""
import random
from fractions import Fraction as F
from vcheck import fmt_q, fmt_vec, fmt_ivec, fmt_crs, parse_out_crs, parse_out_vec
import gen
from props.common import diff_run, oracle_run

DRIVERS = ["matops"]
MODEL = "matops"
ASSUMPTIONS = [
    "the builtin backend instantiated with the exact rational vq::Q executes the same template code as with double",
    "spgemm_rmerge is only specified (and only run) for B with sorted rows without duplicate columns",
    "power method: the start vector is the one std::mt19937(0)/uniform_real_distribution produce on one thread (fed to the model); only OMP_NUM_THREADS=1",
    "diagonal(): rows without a diagonal entry leave the output cell as allocated (0 for vq::Q); only tested, not specified",
    "adapter::block_matrix: specified (oracle o.block / o.unblock) for rows sorted by column without duplicates and sizes divisible by the block size; other inputs are compared with the model only",
    "pointwise_matrix: the block-maximum oracle is applied to row-sorted inputs with sizes divisible by the block size (the domain of theorem C08_pointwise_block_maximum); unsorted inputs are compared with the model only",
]
TRUSTED_BASE = [
    "complex cases: std::complex<double> on small integers (exact) vs the Coq instance CqS (pairs of Qc)",
]
RULE = ("cases derived from VERIF_SEED by tools/props/C08.py (exhaustive small patterns x value palette, random, "
        "block-structured); distinct = distinct (op, payload); non-trivial = implementation output contains a "
        "non-zero value and is not an exception")

PAL = [F(1), F(-1), F(2), F(1, 2), F(-3), F(3, 2), F(-1, 2), F(5), F(-2), F(1, 3)]
NT_OPS = ("product", "specrad")        # ops whose first/second token is the thread count


def crs(n, m, rows): return fmt_crs(n, m, rows)

def ccrs(n, m, rows):
    out = [str(n), str(m)]
    for rw in rows:
        out.append(str(len(rw)))
        for c, (re, im) in rw: out += [str(c), str(re), str(im)]
    return " ".join(out)


def base_cases(tier, seed):
    """list of (op, payload); payload may contain the token @NT@ (ops in NT_OPS)"""
    r = random.Random(seed * 1000 + 8)
    quick = tier == "quick"
    out = []
    def add(op, *parts): out.append((op, " ".join(str(p) for p in parts)))

    def product_ops(n, k, m, A, B, exhaustive=False):
        a, b = crs(n, k, A), crs(k, m, B)
        Bs = gen.c08_sorted_distinct(B); bs = crs(k, m, Bs)
        add("saad", a, b, 0); add("saad", a, b, 1)
        add("rmerge", a, bs)
        if not exhaustive or r.random() < 0.25:
            add("product", "@NT@", a, bs, r.choice([0, 1]))

    # ---- exhaustive small patterns x palette -------------------------------------------
    shapes = [(1, 1, 1), (1, 2, 1), (2, 1, 2), (2, 2, 2), (2, 3, 2), (3, 2, 3), (3, 3, 3), (1, 3, 3), (3, 3, 1)]
    for (n, k, m) in shapes:
        na, nb = 1 << (n * k), 1 << (k * m)
        total = na * nb
        budget = (600 if quick else 70000) if total > 600 else total
        light = set()
        if total <= budget: pairs = [(pa, pb) for pa in range(na) for pb in range(nb)]
        elif quick:
            # a slice: a random sample plus pairs with a full partner
            pairs = [(r.randrange(na), r.randrange(nb)) for _ in range(budget)]
            pairs += [(na - 1, pb) for pb in range(0, nb, max(1, nb // 64))] + [(pa, nb - 1) for pa in range(0, na, max(1, na // 64))]
        else:
            # thorough: ALL pairs; the full op set for a random 'budget/total' share of them,
            # the marker-based product alone (sort alternating) for the rest
            pairs = [(pa, pb) for pa in range(na) for pb in range(nb)]
            light = None
        for pi, (pa, pb) in enumerate(pairs):
            off = r.randrange(len(PAL))
            pal = PAL[off:] + PAL[:off]
            A = gen.c08_pattern_rows(pa, n, k, pal, r.choice(["sorted", "sorted", "reversed"]))
            B = gen.c08_pattern_rows(pb, k, m, pal[3:] + pal[:3], r.choice(["sorted", "sorted", "reversed"]))
            if light is None and r.random() >= budget / float(total):
                add("saad", crs(n, k, A), crs(k, m, B), pi % 2)
            else:
                product_ops(n, k, m, A, B, exhaustive=True)
    # all single patterns up to 3x3 (4x4 slice) for the unary kernels and pattern pairs for sum
    for (n, m) in [(1, 1), (1, 2), (2, 1), (2, 2), (2, 3), (3, 2), (3, 3), (4, 4)]:
        npat = 1 << (n * m)
        pats = range(npat) if (npat <= 512 and not quick) or npat <= 64 else [r.randrange(npat) for _ in range(150 if quick else 3000)]
        for pa in pats:
            off = r.randrange(len(PAL)); pal = PAL[off:] + PAL[:off]
            A = gen.c08_pattern_rows(pa, n, m, pal, r.choice(["sorted", "reversed"]))
            a = crs(n, m, A)
            add("transpose", a); add("sort_rows", a); add("scale", a, fmt_q(r.choice(PAL + [F(0)])))
            pb = r.randrange(npat)
            B = gen.c08_pattern_rows(pb, n, m, pal[5:] + pal[:5], r.choice(["sorted", "reversed"]))
            add("sum", fmt_q(gen.coef(r)), a, fmt_q(gen.coef(r)), crs(n, m, B), r.choice([0, 1]))
            for bs in (1, 2):
                if n % bs == 0 and m % bs == 0:
                    add("pointwise", crs(n, m, gen.c08_sorted_distinct(A)), bs)
            if n == m:
                add("specrad", 0, "@NT@", a); add("specrad", 1, "@NT@", a)

    # ---- adapter::block_matrix: all small patterns (incomplete blocks) --------------------------
    def block_ops(b, n, m, rows):
        a = crs(n, m, rows)
        add("block", b, a); add("unblock", b, a)
    for (b, n, m) in [(2, 2, 2), (2, 2, 4), (2, 4, 2), (2, 4, 4), (3, 3, 3), (3, 3, 6), (4, 4, 4), (2, 2, 6), (3, 6, 6), (4, 4, 8)]:
        npat = 1 << (n * m)
        lim = 260 if quick else 70000
        pats = range(npat) if npat <= lim else [r.getrandbits(n * m) for _ in range(lim // 4 if n * m > 16 else lim)]
        for pa in pats:
            off = r.randrange(len(PAL)); pal = PAL[off:] + PAL[:off]
            block_ops(b, n, m, gen.c08_pattern_rows(pa, n, m, pal, "sorted"))
    # ---- random ------------------------------------------------------------------------
    N = 260 if quick else 2200
    for it in range(N):
        big = (it % 12 == 0)
        hi = (40 if quick else 300) if big else 9
        n = r.randint(10, hi) if big else r.choice([0, 1, 1, 2, 3, 4, 5, 7, 9])
        k = max(0, n + r.choice([0, 0, -2, 3, 1])) if r.random() < 0.7 else r.randint(0, hi)
        m = max(0, n + r.choice([0, 0, 2, -1])) if r.random() < 0.7 else r.randint(0, hi)
        dens = r.choice([0.1, 0.25, 0.5]) if big else None
        if big and n > 100: dens = r.choice([0.02, 0.05])
        dups = r.random() < 0.3
        A = gen.rcrs(r, n, k, density=dens, dups=dups)
        B = gen.rcrs(r, k, m, density=dens, dups=(r.random() < 0.3))
        A2 = gen.rcrs(r, n, k, density=dens, dups=(r.random() < 0.3))
        a = crs(n, k, A)
        product_ops(n, k, m, A, B)
        add("transpose", a)
        add("sum", fmt_q(gen.coef(r)), a, fmt_q(gen.coef(r)), crs(n, k, A2), r.choice([0, 1]))
        if it % 17 == 3 and (n, k) != (k, m):     # shape precondition of sum: runtime_error
            add("sum", fmt_q(gen.coef(r)), a, fmt_q(gen.coef(r)), crs(k, m, B), 0)
        add("scale", a, fmt_q(gen.coef(r)))
        add("sort_rows", a)
        for op in ("copy_crs", "copy_ranges"): add(op, a)
        add("copy_assign", a, crs(k, m, B))
        if it % 5 == 0: add("copy_assign_view", a, crs(k, m, B))
        # square with a diagonal
        D = gen.c08_with_diag(r, gen.rcrs(r, n, n, density=dens, dups=dups), n, zero_ok=False)
        d = crs(n, n, D)
        add("copy_tuple", d)
        add("diagonal", d, 0); add("diagonal", d, 1)
        if r.random() < 0.3:   # zero diagonal entries: identity when inverted
            Dz = [[(c, (F(0) if (c == i and r.random() < 0.5) else v)) for c, v in rw] for i, rw in enumerate(D)]
            add("diagonal", crs(n, n, Dz), 1)
        add("specrad", 0, "@NT@", d); add("specrad", 1, "@NT@", d)
        if r.random() < 0.3:   # rows without diagonal: scaled by the identity (dia is reset for every row)
            add("specrad", 1, "@NT@", crs(n, n, gen.rcrs(r, n, n, density=dens, dups=dups)))
        if n <= 5 and n >= 1 and r.random() < 0.5:
            Dn = gen.nonsym_dd(r, n) if r.random() < 0.5 else gen.spd_mmatrix(r, n)
            add("specrad_power", r.choice([0, 1]), r.choice([1, 2, 3]), crs(n, n, Dn))
        # converting constructor (double -> rational): dyadic values
        Ad = [[(c, F(r.randint(-8, 8), r.choice([1, 2, 4]))) for c, _ in rw] for rw in A]
        add("copy_convert", crs(n, k, Ad))
        # ranges constructor incl. failing preconditions
        ptr = [0]
        for rw in A: ptr.append(ptr[-1] + len(rw))
        col = [c for rw in A for c, _ in rw]; val = [v for rw in A for _, v in rw]
        kind = r.random()
        if kind < 0.7: pass
        elif kind < 0.8: ptr = ptr + [ptr[-1]]
        elif kind < 0.9: col = col + [0]
        else: val = val + [F(1)]
        add("ranges", n, k, fmt_ivec(ptr), fmt_ivec(col), fmt_vec(val))
        # pointwise: block structured
        b = r.choice([1, 2, 2, 3, 4])
        np_, mp_ = (r.randint(1, 4), r.randint(1, 4)) if not big else (r.randint(3, 10), r.randint(3, 10))
        kindp = r.choice(["kron", "dense", "incomplete", "blockdiag", "random", "unsorted", "indivisible"])
        if kindp == "kron":
            P = gen.c08_kron_identity(gen.c08_sorted_distinct(gen.rcrs(r, np_, mp_, dups=False)), b); pn, pm = np_ * b, mp_ * b
        elif kindp == "dense":
            P = gen.c08_block_matrix(r, np_, mp_, b, r.choice([0.3, 0.7]), 1.0); pn, pm = np_ * b, mp_ * b
        elif kindp == "incomplete":
            P = gen.c08_block_matrix(r, np_, mp_, b, r.choice([0.3, 0.7]), r.choice([0.3, 0.6])); pn, pm = np_ * b, mp_ * b
        elif kindp == "blockdiag":
            P = [[] for _ in range(np_ * b)]; pn = pm = np_ * b
            for I in range(np_):
                for kk in range(b):
                    P[I * b + kk] = [(I * b + l, gen.rq(r, nz=True)) for l in range(b) if r.random() < 0.8]
        elif kindp == "random":
            pn, pm = np_ * b, mp_ * b
            P = gen.c08_sorted_distinct(gen.rcrs(r, pn, pm))
        elif kindp == "unsorted":
            P = gen.c08_block_matrix(r, np_, mp_, b, 0.5, 0.8, sorted_rows=False); pn, pm = np_ * b, mp_ * b
        else:
            pn, pm = np_ * b + r.choice([0, 1]), mp_ * b + r.choice([0, 1])
            P = gen.c08_sorted_distinct(gen.rcrs(r, pn, pm))
        add("pointwise", crs(pn, pm, P), b)
        # block_matrix adapter on the same kind of inputs (b >= 2; sorted rows are the specified domain,
        # unsorted / duplicate rows are compared with the model only)
        bb = r.choice([2, 2, 3, 4])
        bn, bm_ = (r.randint(1, 4), r.randint(1, 4)) if not big else (r.randint(3, 8), r.randint(3, 8))
        kb = r.random()
        if kb < 0.45: BR = gen.c08_block_matrix(r, bn, bm_, bb, r.choice([0.3, 0.7]), r.choice([0.3, 0.6, 1.0])); BR = gen.c08_sorted_distinct(BR); sn, sm = bn * bb, bm_ * bb
        elif kb < 0.7: sn, sm = bn * bb, bm_ * bb; BR = gen.c08_sorted_distinct(gen.rcrs(r, sn, sm))
        elif kb < 0.8: BR = gen.c08_kron_identity(gen.c08_sorted_distinct(gen.rcrs(r, bn, bm_)), bb); sn, sm = bn * bb, bm_ * bb
        elif kb < 0.9: sn, sm = bn * bb, bm_ * bb; BR = gen.rcrs(r, sn, sm, dups=True)
        else: sn, sm = bn * bb + r.choice([0, 1]), bm_ * bb + r.choice([0, 1]); BR = gen.c08_sorted_distinct(gen.rcrs(r, sn, sm))
        block_ops(bb, sn, sm, BR)
        # complex (non-trivial adjoint)
        if it % 3 == 0:
            cn, ck, cm = min(n, 6), min(k, 6), min(m, 6)
            def cval(): return (r.randint(-4, 4), r.randint(-4, 4))
            CA = [[(c, cval()) for c, _ in rw if c < ck] for rw in A[:cn]]
            CB = [[(c, cval()) for c, _ in rw if c < cm] for rw in B[:ck]]
            CA2 = [[(c, cval()) for c, _ in rw if c < ck] for rw in A2[:cn]]
            add("c.transpose", ccrs(cn, ck, CA))
            add("c.saad", ccrs(cn, ck, CA), ccrs(ck, cm, CB), r.choice([0, 1]))
            add("c.sum", "%d %d" % cval(), ccrs(cn, ck, CA), "%d %d" % cval(), ccrs(cn, ck, CA2), r.choice([0, 1]))
    return out


def thread_plan(tier):
    """(nt, stride for the ops without nt token)"""
    if tier == "quick": return [(1, 1), (4, 5), (17, 7)]
    return [(1, 1), (2, 9), (3, 9), (4, 5), (16, 9), (17, 3), (24, 11)]


def cases(tier, seed):
    base = base_cases(tier, seed)
    out = []
    for nt, stride in thread_plan(tier):
        k = 0
        for idx, (op, payload) in enumerate(base):
            if op in NT_OPS:
                if nt > 1 and op == "specrad" and idx % 3: continue
                out.append("t%d.%d %s %s" % (nt, idx, op, payload.replace("@NT@", str(nt))))
            elif op == "specrad_power":
                if nt == 1: out.append("t1.%d %s %s" % (idx, op, payload))
            elif idx % stride == 0:
                out.append("t%d.%d %s %s" % (nt, idx, op, payload))
    return out


# ---------------------------------------------------------------- running
def nt_of(line):
    cid = line.split(" ", 1)[0]
    try: return int(cid.split(".")[0][1:])
    except Exception: return 1


def crs_tokens_of_output(s):
    n, m, rows = parse_out_crs(s)
    return fmt_crs(n, m, rows)

def bcrs_tokens_of_output(s):
    """'{np mp | J:v,v,.. J:v,.. | ...}' -> 'np mp k J v v .. ...'"""
    s = s.strip(); parts = s[1:-1].split("|")
    n, m = [int(x) for x in parts[0].split()]
    out = [str(n), str(m)]
    for p in parts[1:]:
        es = p.split(); out.append(str(len(es)))
        for e in es:
            c, v = e.split(":"); out += [c] + v.split(",")
    return " ".join(out)

def ccrs_tokens_of_output(s):
    s = s.strip(); parts = s[1:-1].split("|")
    n, m = [int(x) for x in parts[0].split()]
    out = [str(n), str(m)]
    for p in parts[1:]:
        es = p.split(); out.append(str(len(es)))
        for e in es:
            c, v = e.split(":"); re, im = v.split(","); out += [c, re, im]
    return " ".join(out)


class Cur:
    """tokenizer over a case payload, to cut it into its crs / scalar arguments"""
    def __init__(self, payload): self.t = payload.split(); self.p = 0
    def tok(self, k=1): s = self.t[self.p:self.p + k]; self.p += k; return " ".join(s)
    def crs(self, w=2):
        st = self.p; n = int(self.t[self.p]); self.p += 2
        for _ in range(n):
            k = int(self.t[self.p]); self.p += 1 + w * k
        return " ".join(self.t[st:self.p])
    def dims(self, s): a = s.split(); return int(a[0]), int(a[1])


ORACLE_MAXDIM = 40

def rows_of_tokens(s):
    t = s.split(); n, m = int(t[0]), int(t[1]); p = 2; rows = []
    for _ in range(n):
        k = int(t[p]); p += 1; rw = []
        for _ in range(k): rw.append((int(t[p]), F(t[p + 1]))); p += 2
        rows.append(rw)
    return n, m, rows

def oracle_line(line, impl_out):
    """oracle case line for one case and the implementation's output (or None)"""
    cid, op, payload = line.split(" ", 2)
    if impl_out is None or impl_out.startswith(("EXC", "BADCRS", "CRASH", "UNSUPPORTED")): return None
    c = Cur(payload)
    small = lambda *ds: all(d <= ORACLE_MAXDIM for d in ds)
    try:
        if op in ("saad", "rmerge", "product"):
            if op == "product": nt = int(c.tok())
            a = c.crs(); b = c.crs()
            srt = 1 if op == "rmerge" else int(c.tok())
            if op == "product" and nt > 16: srt = 1
            if not small(*(c.dims(a) + c.dims(b))): return None
            return "%s o.product %s %s %d %s" % (cid, a, b, srt, crs_tokens_of_output(impl_out))
        if op == "transpose":
            a = c.crs()
            if not small(*c.dims(a)): return None
            return "%s o.transpose %s %s" % (cid, a, crs_tokens_of_output(impl_out))
        if op == "c.transpose":
            a = c.crs(3)
            return "%s o.c.transpose %s %s" % (cid, a, ccrs_tokens_of_output(impl_out))
        if op == "sum":
            al = c.tok(); a = c.crs(); be_ = c.tok(); b = c.crs(); srt = int(c.tok())
            if not small(*c.dims(a)): return None
            return "%s o.sum %s %s %s %s %d %s" % (cid, al, a, be_, b, srt, crs_tokens_of_output(impl_out))
        if op == "scale":
            a = c.crs(); s = c.tok()
            if not small(*c.dims(a)): return None
            return "%s o.scale %s %s %s" % (cid, a, s, crs_tokens_of_output(impl_out))
        if op == "sort_rows":
            a = c.crs()
            if not small(*c.dims(a)): return None
            return "%s o.sort_rows %s %s" % (cid, a, crs_tokens_of_output(impl_out))
        if op == "diagonal":
            a = c.crs(); inv = c.tok()
            return "%s o.diagonal %s %s %s" % (cid, a, inv, fmt_vec(parse_out_vec(impl_out)))
        if op == "pointwise":
            a = c.crs(); bs = int(c.tok())
            n, m, rows = rows_of_tokens(a)
            # the reduction is specified for sorted rows and sizes divisible by the block size
            if n % bs or m % bs: return None
            if any(rw != sorted(rw, key=lambda e: e[0]) for rw in rows): return None
            return "%s o.pointwise %s %d %s" % (cid, a, bs, crs_tokens_of_output(impl_out))
        if op == "specrad":
            sc = int(c.tok()); nt = c.tok(); a = c.crs()
            return "%s o.specrad %d %s %s" % (cid, sc, a, impl_out.strip())
        if op in ("block", "unblock"):
            b = int(c.tok()); a = c.crs()
            n, m, rows = rows_of_tokens(a)
            if n % b or m % b: return None
            # specified for rows sorted by column without duplicates
            if any(any(rw[i][0] >= rw[i + 1][0] for i in range(len(rw) - 1)) for rw in rows): return None
            if op == "unblock":
                if not small(n, m): return None
                return "%s o.unblock %s %s" % (cid, a, crs_tokens_of_output(impl_out))
            return "%s o.block %d %s %s" % (cid, b, a, bcrs_tokens_of_output(impl_out))
        if op in ("copy_crs", "copy_ranges", "copy_tuple", "copy_convert"):
            a = c.crs()
            return "%s o.copy %s %s" % (cid, a, crs_tokens_of_output(impl_out))
    except Exception as e:          # malformed output: let the correspondence stage report it
        return None
    return None


def run(ctx, cases_override=None):
    lines = cases_override or cases(ctx["tier"], ctx["seed"])
    fails = []
    groups = {}
    for l in lines: groups.setdefault(nt_of(l), []).append(l)
    by_id = {l.split(" ", 1)[0]: l for l in lines}
    for nt in sorted(groups):
        ls = groups[nt]
        env = {"OMP_NUM_THREADS": str(nt), "OMP_DYNAMIC": "false",
               "OMP_WAIT_POLICY": "passive", "GOMP_SPINCOUNT": "0"}   # no busy-waiting when oversubscribed
        # power method: feed the model the start vector the implementation draws
        model_lines = None
        pm = [l for l in ls if l.split(" ", 2)[1] == "specrad_power"]
        if pm:
            ns = sorted({int(Cur(l.split(" ", 2)[2]).t[2]) for l in pm})
            st = ctx["run_driver"](ctx["cpp"]["matops"], ["s%d pm_start %d" % (n, n) for n in ns], env_extra=env, shards=1)
            model_lines = []
            for l in ls:
                if l.split(" ", 2)[1] == "specrad_power":
                    n = int(Cur(l.split(" ", 2)[2]).t[2])
                    v = st.get("s%d" % n, "[]")
                    try: vec = fmt_vec(parse_out_vec(v))
                    except Exception: vec = "0"
                    model_lines.append(l + " " + vec)
                else: model_lines.append(l)
        shards = 16 if nt <= 2 else (6 if nt <= 4 else 2)
        f, impl, model = diff_run(ctx, "matops", ls, env=env, shards=shards, model_lines=model_lines)
        for x in f:
            x["theorem"] = "correspondence drv_matops (%s, OMP_NUM_THREADS=%d) vs MatOps.v/MatOps2.v; spec theorems C08" % (x["op"], nt)
        fails += f
        # oracle stage on the implementation's outputs
        olines = []
        for l in ls:
            cid = l.split(" ", 1)[0]
            o = oracle_line(l, impl.get(cid))
            if o: olines.append(o)
        of = oracle_run(ctx, olines, "C08 dense definition (extracted specification applied to the implementation's output, OMP_NUM_THREADS=%d)" % nt,
                        lambda cid: by_id[cid])
        for x in of:
            cid = x["case"].split(" ", 1)[0]
            x["impl"] = impl.get(cid); x["model"] = model.get(cid)
            x["impl_eq_model"] = (impl.get(cid) is not None and impl.get(cid) == model.get(cid))
            x["theorem"] = "C08 %s: dense definition violated by the implementation's output (OMP_NUM_THREADS=%d)" % (x["op"], nt)
        fails += of
    return fails
