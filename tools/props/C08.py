"""C08 -- sparse matrix kernels equal their dense definitions.

Case ids encode the thread count the case is run with: "t<nt>.<k>".  Ops that carry an
explicit nt token (product, specrad) are generated once per thread count; the driver refuses
to run them under a different OMP_NUM_THREADS.

Stage 1 (correspondence): implementation (amgcl templates at vq::Q / std::complex<double>) vs
the extracted Coq model (MatOps.v, MatOps2.v), byte for byte, in storage order.
Stage 2 (oracle): the extracted Coq *specification* functions (dense definitions) are applied
to the outputs of the implementation ("o.*" ops print OK / FAIL ...).

Block and complex value types (driver matops_block, ops bm.* / cm.*): the same extracted models at BlockS QcS b /
ComplexS QcS; oracles: the scalar dense definitions on the EXPANDED (unblocked) matrices where the operation commutes
with expansion (product, transpose, scale, sort_rows, sum with scalar coefficients) and the specification functions
evaluated at BlockS / ComplexS otherwise (bm.o.* / cm.o.* in ocaml/matops/ops_matops_block.ml).
"""
import random
from fractions import Fraction as F
from vcheck import fmt_q, fmt_vec, fmt_ivec, fmt_crs, parse_out_crs, parse_out_vec
import gen
from props.common import diff_run, oracle_run, account
from props import blockvals as bv

DRIVERS = ["matops", "matops_block"]
MODEL = "matops"
ASSUMPTIONS = [
    "the builtin backend instantiated with the exact rational vq::Q executes the same template code as with double",
    "spgemm_rmerge is only specified (and only run) for B with sorted rows without duplicate columns",
    "power method: the start vector is the one std::mt19937(0)/uniform_real_distribution produce on one thread (fed to the model); only OMP_NUM_THREADS=1",
    "diagonal(): rows without a diagonal entry leave the output cell as allocated (0 for vq::Q); only tested, not specified",
    "adapter::block_matrix: specified (oracle o.block / o.unblock) for rows sorted by column without duplicates and sizes divisible by the block size; other inputs are compared with the model only",
    "pointwise_matrix: the block-maximum oracle is applied to row-sorted inputs with sizes divisible by the block size (the domain of theorem C08_pointwise_block_maximum); unsorted inputs are compared with the model only",
    "block values: static_matrix<vq::Q,b,b>, b = 2, 3 (bm.* ops); math::norm of a block (Frobenius) goes through the pseudo square root shared by vq::Q and QcS; diagonal(invert)/spectral_radius<true> are only run on matrices whose diagonal blocks are invertible (the C++ asserts otherwise)",
    "complex values: std::complex<double> on small dyadic Gaussian rationals (every + - * exact in binary64) vs the Coq instances CqS / ComplexS QcS",
]
TRUSTED_BASE = [
    "complex cases: std::complex<double> on small integers / dyadics (exact) vs the Coq instances CqS (c.*) and ComplexS QcS (cm.*)",
    "block cases: harness/drv_matops_block.cpp, ocaml/matops/ops_matops_block.ml, tools/props/blockvals.py (python expansion of block matrices to scalar matrices for the expanded oracles)",
]
RULE = ("cases derived from VERIF_SEED by tools/props/C08.py (exhaustive small patterns x value palette, random, "
        "block-structured); distinct = distinct (op, payload); non-trivial = implementation output contains a "
        "non-zero value and is not an exception")

PAL = [F(1), F(-1), F(2), F(1, 2), F(-3), F(3, 2), F(-1, 2), F(5), F(-2), F(1, 3)]
NT_OPS = ("product", "specrad", "bm.product", "bm.specrad", "cm.product")        # ops that carry the thread count
BSTAT = {}


def crs(n, m, rows): return fmt_crs(n, m, rows)

def ccrs(n, m, rows):
    out = [str(n), str(m)]
    for rw in rows:
        out.append(str(len(rw)))
        for c, (re, im) in rw: out += [str(c), str(re), str(im)]
    return " ".join(out)


def base_cases(tier, seed):
    """list of (op, payload); payload may contain the token @NT@ (ops in NT_OPS)"""
    r = random.Random(seed * 1000 + 8)
    quick = tier == "quick"
    out = []
    def add(op, *parts): out.append((op, " ".join(str(p) for p in parts)))

    def product_ops(n, k, m, A, B, exhaustive=False):
        a, b = crs(n, k, A), crs(k, m, B)
        Bs = gen.c08_sorted_distinct(B); bs = crs(k, m, Bs)
        add("saad", a, b, 0); add("saad", a, b, 1)
        add("rmerge", a, bs)
        if not exhaustive or r.random() < 0.25:
            add("product", "@NT@", a, bs, r.choice([0, 1]))

    # ---- exhaustive small patterns x palette -------------------------------------------
    shapes = [(1, 1, 1), (1, 2, 1), (2, 1, 2), (2, 2, 2), (2, 3, 2), (3, 2, 3), (3, 3, 3), (1, 3, 3), (3, 3, 1)]
    for (n, k, m) in shapes:
        na, nb = 1 << (n * k), 1 << (k * m)
        total = na * nb
        budget = (600 if quick else 70000) if total > 600 else total
        light = set()
        if total <= budget: pairs = [(pa, pb) for pa in range(na) for pb in range(nb)]
        elif quick:
            # a slice: a random sample plus pairs with a full partner
            pairs = [(r.randrange(na), r.randrange(nb)) for _ in range(budget)]
            pairs += [(na - 1, pb) for pb in range(0, nb, max(1, nb // 64))] + [(pa, nb - 1) for pa in range(0, na, max(1, na // 64))]
        else:
            # thorough: ALL pairs; the full op set for a random 'budget/total' share of them,
            # the marker-based product alone (sort alternating) for the rest
            pairs = [(pa, pb) for pa in range(na) for pb in range(nb)]
            light = None
        for pi, (pa, pb) in enumerate(pairs):
            off = r.randrange(len(PAL))
            pal = PAL[off:] + PAL[:off]
            A = gen.c08_pattern_rows(pa, n, k, pal, r.choice(["sorted", "sorted", "reversed"]))
            B = gen.c08_pattern_rows(pb, k, m, pal[3:] + pal[:3], r.choice(["sorted", "sorted", "reversed"]))
            if light is None and r.random() >= budget / float(total):
                add("saad", crs(n, k, A), crs(k, m, B), pi % 2)
            else:
                product_ops(n, k, m, A, B, exhaustive=True)
    # all single patterns up to 3x3 (4x4 slice) for the unary kernels and pattern pairs for sum
    for (n, m) in [(1, 1), (1, 2), (2, 1), (2, 2), (2, 3), (3, 2), (3, 3), (4, 4)]:
        npat = 1 << (n * m)
        pats = range(npat) if (npat <= 512 and not quick) or npat <= 64 else [r.randrange(npat) for _ in range(150 if quick else 3000)]
        for pa in pats:
            off = r.randrange(len(PAL)); pal = PAL[off:] + PAL[:off]
            A = gen.c08_pattern_rows(pa, n, m, pal, r.choice(["sorted", "reversed"]))
            a = crs(n, m, A)
            add("transpose", a); add("sort_rows", a); add("scale", a, fmt_q(r.choice(PAL + [F(0)])))
            pb = r.randrange(npat)
            B = gen.c08_pattern_rows(pb, n, m, pal[5:] + pal[:5], r.choice(["sorted", "reversed"]))
            add("sum", fmt_q(gen.coef(r)), a, fmt_q(gen.coef(r)), crs(n, m, B), r.choice([0, 1]))
            for bs in (1, 2):
                if n % bs == 0 and m % bs == 0:
                    add("pointwise", crs(n, m, gen.c08_sorted_distinct(A)), bs)
            if n == m:
                add("specrad", 0, "@NT@", a); add("specrad", 1, "@NT@", a)

    # ---- adapter::block_matrix: all small patterns (incomplete blocks) --------------------------
    def block_ops(b, n, m, rows):
        a = crs(n, m, rows)
        add("block", b, a); add("unblock", b, a)
    for (b, n, m) in [(2, 2, 2), (2, 2, 4), (2, 4, 2), (2, 4, 4), (3, 3, 3), (3, 3, 6), (4, 4, 4), (2, 2, 6), (3, 6, 6), (4, 4, 8)]:
        npat = 1 << (n * m)
        lim = 260 if quick else 70000
        pats = range(npat) if npat <= lim else [r.getrandbits(n * m) for _ in range(lim // 4 if n * m > 16 else lim)]
        for pa in pats:
            off = r.randrange(len(PAL)); pal = PAL[off:] + PAL[:off]
            block_ops(b, n, m, gen.c08_pattern_rows(pa, n, m, pal, "sorted"))
    # ---- random ------------------------------------------------------------------------
    N = 260 if quick else 2200
    for it in range(N):
        big = (it % 12 == 0)
        hi = (40 if quick else 300) if big else 9
        n = r.randint(10, hi) if big else r.choice([0, 1, 1, 2, 3, 4, 5, 7, 9])
        k = max(0, n + r.choice([0, 0, -2, 3, 1])) if r.random() < 0.7 else r.randint(0, hi)
        m = max(0, n + r.choice([0, 0, 2, -1])) if r.random() < 0.7 else r.randint(0, hi)
        dens = r.choice([0.1, 0.25, 0.5]) if big else None
        if big and n > 100: dens = r.choice([0.02, 0.05])
        dups = r.random() < 0.3
        A = gen.rcrs(r, n, k, density=dens, dups=dups)
        B = gen.rcrs(r, k, m, density=dens, dups=(r.random() < 0.3))
        A2 = gen.rcrs(r, n, k, density=dens, dups=(r.random() < 0.3))
        a = crs(n, k, A)
        product_ops(n, k, m, A, B)
        add("transpose", a)
        add("sum", fmt_q(gen.coef(r)), a, fmt_q(gen.coef(r)), crs(n, k, A2), r.choice([0, 1]))
        if it % 17 == 3 and (n, k) != (k, m):     # shape precondition of sum: runtime_error
            add("sum", fmt_q(gen.coef(r)), a, fmt_q(gen.coef(r)), crs(k, m, B), 0)
        add("scale", a, fmt_q(gen.coef(r)))
        add("sort_rows", a)
        for op in ("copy_crs", "copy_ranges"): add(op, a)
        add("copy_assign", a, crs(k, m, B))
        if it % 5 == 0: add("copy_assign_view", a, crs(k, m, B))
        # square with a diagonal
        D = gen.c08_with_diag(r, gen.rcrs(r, n, n, density=dens, dups=dups), n, zero_ok=False)
        d = crs(n, n, D)
        add("copy_tuple", d)
        add("diagonal", d, 0); add("diagonal", d, 1)
        if r.random() < 0.3:   # zero diagonal entries: identity when inverted
            Dz = [[(c, (F(0) if (c == i and r.random() < 0.5) else v)) for c, v in rw] for i, rw in enumerate(D)]
            add("diagonal", crs(n, n, Dz), 1)
        add("specrad", 0, "@NT@", d); add("specrad", 1, "@NT@", d)
        if r.random() < 0.3:   # rows without diagonal: scaled by the identity (dia is reset for every row)
            add("specrad", 1, "@NT@", crs(n, n, gen.rcrs(r, n, n, density=dens, dups=dups)))
        if n <= 5 and n >= 1 and r.random() < 0.5:
            Dn = gen.nonsym_dd(r, n) if r.random() < 0.5 else gen.spd_mmatrix(r, n)
            add("specrad_power", r.choice([0, 1]), r.choice([1, 2, 3]), crs(n, n, Dn))
        # converting constructor (double -> rational): dyadic values
        Ad = [[(c, F(r.randint(-8, 8), r.choice([1, 2, 4]))) for c, _ in rw] for rw in A]
        add("copy_convert", crs(n, k, Ad))
        # ranges constructor incl. failing preconditions
        ptr = [0]
        for rw in A: ptr.append(ptr[-1] + len(rw))
        col = [c for rw in A for c, _ in rw]; val = [v for rw in A for _, v in rw]
        kind = r.random()
        if kind < 0.7: pass
        elif kind < 0.8: ptr = ptr + [ptr[-1]]
        elif kind < 0.9: col = col + [0]
        else: val = val + [F(1)]
        add("ranges", n, k, fmt_ivec(ptr), fmt_ivec(col), fmt_vec(val))
        # pointwise: block structured
        b = r.choice([1, 2, 2, 3, 4])
        np_, mp_ = (r.randint(1, 4), r.randint(1, 4)) if not big else (r.randint(3, 10), r.randint(3, 10))
        kindp = r.choice(["kron", "dense", "incomplete", "blockdiag", "random", "unsorted", "indivisible"])
        if kindp == "kron":
            P = gen.c08_kron_identity(gen.c08_sorted_distinct(gen.rcrs(r, np_, mp_, dups=False)), b); pn, pm = np_ * b, mp_ * b
        elif kindp == "dense":
            P = gen.c08_block_matrix(r, np_, mp_, b, r.choice([0.3, 0.7]), 1.0); pn, pm = np_ * b, mp_ * b
        elif kindp == "incomplete":
            P = gen.c08_block_matrix(r, np_, mp_, b, r.choice([0.3, 0.7]), r.choice([0.3, 0.6])); pn, pm = np_ * b, mp_ * b
        elif kindp == "blockdiag":
            P = [[] for _ in range(np_ * b)]; pn = pm = np_ * b
            for I in range(np_):
                for kk in range(b):
                    P[I * b + kk] = [(I * b + l, gen.rq(r, nz=True)) for l in range(b) if r.random() < 0.8]
        elif kindp == "random":
            pn, pm = np_ * b, mp_ * b
            P = gen.c08_sorted_distinct(gen.rcrs(r, pn, pm))
        elif kindp == "unsorted":
            P = gen.c08_block_matrix(r, np_, mp_, b, 0.5, 0.8, sorted_rows=False); pn, pm = np_ * b, mp_ * b
        else:
            pn, pm = np_ * b + r.choice([0, 1]), mp_ * b + r.choice([0, 1])
            P = gen.c08_sorted_distinct(gen.rcrs(r, pn, pm))
        add("pointwise", crs(pn, pm, P), b)
        # block_matrix adapter on the same kind of inputs (b >= 2; sorted rows are the specified domain,
        # unsorted / duplicate rows are compared with the model only)
        bb = r.choice([2, 2, 3, 4])
        bn, bm_ = (r.randint(1, 4), r.randint(1, 4)) if not big else (r.randint(3, 8), r.randint(3, 8))
        kb = r.random()
        if kb < 0.45: BR = gen.c08_block_matrix(r, bn, bm_, bb, r.choice([0.3, 0.7]), r.choice([0.3, 0.6, 1.0])); BR = gen.c08_sorted_distinct(BR); sn, sm = bn * bb, bm_ * bb
        elif kb < 0.7: sn, sm = bn * bb, bm_ * bb; BR = gen.c08_sorted_distinct(gen.rcrs(r, sn, sm))
        elif kb < 0.8: BR = gen.c08_kron_identity(gen.c08_sorted_distinct(gen.rcrs(r, bn, bm_)), bb); sn, sm = bn * bb, bm_ * bb
        elif kb < 0.9: sn, sm = bn * bb, bm_ * bb; BR = gen.rcrs(r, sn, sm, dups=True)
        else: sn, sm = bn * bb + r.choice([0, 1]), bm_ * bb + r.choice([0, 1]); BR = gen.c08_sorted_distinct(gen.rcrs(r, sn, sm))
        block_ops(bb, sn, sm, BR)
        # complex (non-trivial adjoint)
        if it % 3 == 0:
            cn, ck, cm = min(n, 6), min(k, 6), min(m, 6)
            def cval(): return (r.randint(-4, 4), r.randint(-4, 4))
            CA = [[(c, cval()) for c, _ in rw if c < ck] for rw in A[:cn]]
            CB = [[(c, cval()) for c, _ in rw if c < cm] for rw in B[:ck]]
            CA2 = [[(c, cval()) for c, _ in rw if c < ck] for rw in A2[:cn]]
            add("c.transpose", ccrs(cn, ck, CA))
            add("c.saad", ccrs(cn, ck, CA), ccrs(ck, cm, CB), r.choice([0, 1]))
            add("c.sum", "%d %d" % cval(), ccrs(cn, ck, CA), "%d %d" % cval(), ccrs(cn, ck, CA2), r.choice([0, 1]))
    block_cases(r, quick, add)
    return out


def block_cases(r, quick, add):
    """block-valued (bm.*) and complex-valued (cm.*) cases of harness/drv_matops_block.cpp"""
    mats = []
    def bcoefblk(b):
        k, v = bv.bcoef(r, b)
        return bv.bl_id(b, v) if k == "s" else v
    # ---- all small block patterns (2x2 block matrices, pairs for the product) with non-commuting blocks
    for b in (2, 3):
        for pa in range(16):
            for pb in ([r.randrange(16) for _ in range(3 if quick else 8)] + [15]):
                A = [[(j, bv.rblock(r, b)) for j in range(2) if (pa >> (i * 2 + j)) & 1] for i in range(2)]
                B = [[(j, bv.rblock(r, b)) for j in range(2) if (pb >> (i * 2 + j)) & 1] for i in range(2)]
                if r.random() < 0.3: A = [list(reversed(rw)) for rw in A]
                mats.append((A, b)); mats.append((B, b))
                a_, b_ = bv.fmt_bcrs(2, 2, A), bv.fmt_bcrs(2, 2, B)
                add("bm.saad", b, a_, b_, r.choice([0, 1])); add("bm.rmerge", b, a_, bv.fmt_bcrs(2, 2, bv.sorted_distinct(B, b)))
                add("bm.transpose", b, a_)
                add("bm.sum", b, bv.fmt_blk(bcoefblk(b)), a_, bv.fmt_blk(bcoefblk(b)), b_, r.choice([0, 1]))
    # ---- random
    N = 90 if quick else 900
    for it in range(N):
        b = r.choice([2, 2, 3])
        big = (it % 10 == 0)
        n = r.randint(6, 12 if quick else 30) if big else r.choice([0, 1, 1, 2, 3, 4, 5])
        k = max(0, n + r.choice([0, 0, -2, 3, 1]))
        m = max(0, n + r.choice([0, 0, 2, -1]))
        dens = r.choice([0.15, 0.3]) if big else None
        A = bv.rbcrs(r, b, n, k, density=dens, dups=(r.random() < 0.3))
        B = bv.rbcrs(r, b, k, m, density=dens, dups=(r.random() < 0.3))
        A2 = bv.rbcrs(r, b, n, k, density=dens, dups=(r.random() < 0.3))
        mats += [(A, b), (B, b)]
        a_, b_ = bv.fmt_bcrs(n, k, A), bv.fmt_bcrs(k, m, B)
        bs_ = bv.fmt_bcrs(k, m, bv.sorted_distinct(B, b))
        add("bm.saad", b, a_, b_, 0); add("bm.saad", b, a_, b_, 1)
        add("bm.rmerge", b, a_, bs_)
        add("bm.product", b, "@NT@", a_, bs_, r.choice([0, 1]))
        add("bm.transpose", b, a_)
        add("bm.sum", b, bv.fmt_blk(bcoefblk(b)), a_, bv.fmt_blk(bcoefblk(b)), bv.fmt_bcrs(n, k, A2), r.choice([0, 1]))
        if it % 17 == 3 and (n, k) != (k, m):
            add("bm.sum", b, bv.fmt_blk(bcoefblk(b)), a_, bv.fmt_blk(bcoefblk(b)), b_, 0)
        add("bm.scale", b, a_, fmt_q(gen.coef(r)))
        add("bm.sort_rows", b, a_)
        # square with invertible diagonal blocks (first AND last stored diagonal entry of every row)
        D = bv.rbcrs(r, b, n, n, density=dens, dups=(r.random() < 0.3))
        D2 = []
        for i, rw in enumerate(D):
            rw = [(c, (bv.rblock_inv(r, b) if c == i else B_)) for c, B_ in rw]
            if not any(c == i for c, _ in rw): rw.insert(r.randint(0, len(rw)), (i, bv.rblock_inv(r, b)))
            D2.append(rw)
        d_ = bv.fmt_bcrs(n, n, D2)
        add("bm.diagonal", b, d_, 0); add("bm.diagonal", b, d_, 1)
        if r.random() < 0.3:    # zero diagonal blocks: identity when inverted
            Dz = [[(c, (bv.bl_zero(b) if (c == i and r.random() < 0.5) else B_)) for c, B_ in rw] for i, rw in enumerate(D2)]
            add("bm.diagonal", b, bv.fmt_bcrs(n, n, Dz), 1)
        add("bm.specrad", b, 0, "@NT@", d_); add("bm.specrad", b, 1, "@NT@", d_)
        add("bm.specrad", b, 0, "@NT@", a_ if n == k else d_)
        # pointwise: norm of blocks; block_size 1 (what amgcl uses for block values) and 2
        pbs = r.choice([1, 1, 2, 3])
        pn, pm = r.randint(1, 4) * pbs, r.randint(1, 4) * pbs
        if r.random() < 0.15: pn += 1
        P = bv.rbcrs(r, b, pn, pm, sorted_rows=(r.random() < 0.8), dups=False)
        add("bm.pointwise", b, bv.fmt_bcrs(pn, pm, P), pbs)
    BSTAT.clear(); BSTAT.update(bv.noncommuting_fraction(r, mats))
    # ---- complex
    for it in range(N):
        n = r.choice([0, 1, 1, 2, 3, 4, 5, 6]); k = max(0, n + r.choice([0, 0, -2, 2, 1])); m = max(0, n + r.choice([0, 0, 2, -1]))
        A = bv.rccrs(r, n, k, dups=(r.random() < 0.3)); B = bv.rccrs(r, k, m, dups=(r.random() < 0.3)); A2 = bv.rccrs(r, n, k)
        Bs = []
        for rw in B:
            d = {}
            for c, z in rw: d[c] = bv.cx_add(d[c], z) if c in d else z
            Bs.append(sorted(d.items()))
        a_, b_, bs_ = bv.fmt_ccrs(n, k, A), bv.fmt_ccrs(k, m, B), bv.fmt_ccrs(k, m, Bs)
        add("cm.transpose", a_)
        add("cm.saad", a_, b_, r.choice([0, 1])); add("cm.rmerge", a_, bs_)
        add("cm.product", "@NT@", a_, bs_, r.choice([0, 1]))
        al, be_ = bv.ccoef(r), bv.ccoef(r)
        cz = lambda kc: bv.fmt_cx(kc[1] if kc[0] == "c" else (kc[1], F(0)))
        add("cm.sum", cz(al), a_, cz(be_), bv.fmt_ccrs(n, k, A2), r.choice([0, 1]))
        sc_ = bv.ccoef(r)
        add("cm.scale", sc_[0], a_, bv.fmt_ccoef(sc_))
        add("cm.sort_rows", a_)


def thread_plan(tier):
    """(nt, stride for the ops without nt token)"""
    if tier == "quick": return [(1, 1), (4, 5), (17, 7)]
    return [(1, 1), (2, 9), (3, 9), (4, 5), (16, 9), (17, 3), (24, 11)]


def cases(tier, seed):
    base = base_cases(tier, seed)
    out = []
    for nt, stride in thread_plan(tier):
        k = 0
        for idx, (op, payload) in enumerate(base):
            if op in NT_OPS:
                if nt > 1 and op in ("specrad", "bm.specrad") and idx % 3: continue
                out.append("t%d.%d %s %s" % (nt, idx, op, payload.replace("@NT@", str(nt))))
            elif op == "specrad_power":
                if nt == 1: out.append("t1.%d %s %s" % (idx, op, payload))
            elif idx % stride == 0:
                out.append("t%d.%d %s %s" % (nt, idx, op, payload))
    return out


# ---------------------------------------------------------------- running
def nt_of(line):
    cid = line.split(" ", 1)[0]
    try: return int(cid.split(".")[0][1:])
    except Exception: return 1


def crs_tokens_of_output(s):
    n, m, rows = parse_out_crs(s)
    return fmt_crs(n, m, rows)

def bcrs_tokens_of_output(s):
    """'{np mp | J:v,v,.. J:v,.. | ...}' -> 'np mp k J v v .. ...'"""
    s = s.strip(); parts = s[1:-1].split("|")
    n, m = [int(x) for x in parts[0].split()]
    out = [str(n), str(m)]
    for p in parts[1:]:
        es = p.split(); out.append(str(len(es)))
        for e in es:
            c, v = e.split(":"); out += [c] + v.split(",")
    return " ".join(out)

def ccrs_tokens_of_output(s):
    s = s.strip(); parts = s[1:-1].split("|")
    n, m = [int(x) for x in parts[0].split()]
    out = [str(n), str(m)]
    for p in parts[1:]:
        es = p.split(); out.append(str(len(es)))
        for e in es:
            c, v = e.split(":"); re, im = v.split(","); out += [c, re, im]
    return " ".join(out)


class Cur:
    """tokenizer over a case payload, to cut it into its crs / scalar arguments"""
    def __init__(self, payload): self.t = payload.split(); self.p = 0
    def tok(self, k=1): s = self.t[self.p:self.p + k]; self.p += k; return " ".join(s)
    def crs(self, w=2):
        st = self.p; n = int(self.t[self.p]); self.p += 2
        for _ in range(n):
            k = int(self.t[self.p]); self.p += 1 + w * k
        return " ".join(self.t[st:self.p])
    def dims(self, s): a = s.split(); return int(a[0]), int(a[1])


ORACLE_MAXDIM = 40

def rows_of_tokens(s):
    t = s.split(); n, m = int(t[0]), int(t[1]); p = 2; rows = []
    for _ in range(n):
        k = int(t[p]); p += 1; rw = []
        for _ in range(k): rw.append((int(t[p]), F(t[p + 1]))); p += 2
        rows.append(rw)
    return n, m, rows

def oracle_line(line, impl_out):
    """oracle case line for one case and the implementation's output (or None)"""
    cid, op, payload = line.split(" ", 2)
    if impl_out is None or impl_out.startswith(("EXC", "BADCRS", "CRASH", "UNSUPPORTED")): return None
    c = Cur(payload)
    small = lambda *ds: all(d <= ORACLE_MAXDIM for d in ds)
    try:
        if op in ("saad", "rmerge", "product"):
            if op == "product": nt = int(c.tok())
            a = c.crs(); b = c.crs()
            srt = 1 if op == "rmerge" else int(c.tok())
            if op == "product" and nt > 16: srt = 1
            if not small(*(c.dims(a) + c.dims(b))): return None
            return "%s o.product %s %s %d %s" % (cid, a, b, srt, crs_tokens_of_output(impl_out))
        if op == "transpose":
            a = c.crs()
            if not small(*c.dims(a)): return None
            return "%s o.transpose %s %s" % (cid, a, crs_tokens_of_output(impl_out))
        if op == "c.transpose":
            a = c.crs(3)
            return "%s o.c.transpose %s %s" % (cid, a, ccrs_tokens_of_output(impl_out))
        if op == "sum":
            al = c.tok(); a = c.crs(); be_ = c.tok(); b = c.crs(); srt = int(c.tok())
            if not small(*c.dims(a)): return None
            return "%s o.sum %s %s %s %s %d %s" % (cid, al, a, be_, b, srt, crs_tokens_of_output(impl_out))
        if op == "scale":
            a = c.crs(); s = c.tok()
            if not small(*c.dims(a)): return None
            return "%s o.scale %s %s %s" % (cid, a, s, crs_tokens_of_output(impl_out))
        if op == "sort_rows":
            a = c.crs()
            if not small(*c.dims(a)): return None
            return "%s o.sort_rows %s %s" % (cid, a, crs_tokens_of_output(impl_out))
        if op == "diagonal":
            a = c.crs(); inv = c.tok()
            return "%s o.diagonal %s %s %s" % (cid, a, inv, fmt_vec(parse_out_vec(impl_out)))
        if op == "pointwise":
            a = c.crs(); bs = int(c.tok())
            n, m, rows = rows_of_tokens(a)
            # the reduction is specified for sorted rows and sizes divisible by the block size
            if n % bs or m % bs: return None
            if any(rw != sorted(rw, key=lambda e: e[0]) for rw in rows): return None
            return "%s o.pointwise %s %d %s" % (cid, a, bs, crs_tokens_of_output(impl_out))
        if op == "specrad":
            sc = int(c.tok()); nt = c.tok(); a = c.crs()
            return "%s o.specrad %d %s %s" % (cid, sc, a, impl_out.strip())
        if op in ("block", "unblock"):
            b = int(c.tok()); a = c.crs()
            n, m, rows = rows_of_tokens(a)
            if n % b or m % b: return None
            # specified for rows sorted by column without duplicates
            if any(any(rw[i][0] >= rw[i + 1][0] for i in range(len(rw) - 1)) for rw in rows): return None
            if op == "unblock":
                if not small(n, m): return None
                return "%s o.unblock %s %s" % (cid, a, crs_tokens_of_output(impl_out))
            return "%s o.block %d %s %s" % (cid, b, a, bcrs_tokens_of_output(impl_out))
        if op in ("copy_crs", "copy_ranges", "copy_tuple", "copy_convert"):
            a = c.crs()
            return "%s o.copy %s %s" % (cid, a, crs_tokens_of_output(impl_out))
    except Exception as e:          # malformed output: let the correspondence stage report it
        return None
    return None


def is_block_line(l):
    return l.split(" ", 2)[1].startswith(("bm.", "cm."))

def is_scalar_multiple(B):
    b = len(B); return all(B[i][j] == (B[0][0] if i == j else 0) for i in range(b) for j in range(b))

def block_oracle_line(line, impl_out):
    """oracle case line for a block / complex case: the scalar dense definition (existing o.* ops of ops_matops.ml)
    applied to the EXPANDED (unblocked) inputs and the expanded output of the implementation where the operation
    commutes with expansion, the block-level / complex specification (bm.o.*, cm.o.*) otherwise"""
    cid, op, payload = line.split(" ", 2)
    if impl_out is None or impl_out.startswith(("EXC", "BADCRS", "CRASH", "UNSUPPORTED")): return None
    t = bv.Toks(payload)
    X = lambda n, m, rows, b: fmt_crs(n * b, m * b, bv.b_expand(rows, b))
    small = lambda *ds: all(d <= ORACLE_MAXDIM for d in ds)
    try:
        if op in ("bm.saad", "bm.rmerge", "bm.product"):
            b = t.i()
            if op == "bm.product": nt = t.i()
            A = t.bcrs(b); B = t.bcrs(b)
            srt = 1 if op == "bm.rmerge" else t.i()
            if op == "bm.product" and nt > 16: srt = 1
            C = bv.parse_out_bcrs(impl_out, b)
            if not small(A[0] * b, A[1] * b, B[1] * b): return None
            return "%s o.product %s %s %d %s" % (cid, X(*A, b), X(*B, b), 0, X(*C, b)), \
                   "%s bm.o.product %d %s %s %d %s" % (cid, b, bv.fmt_bcrs(*A), bv.fmt_bcrs(*B), srt, bv.fmt_bcrs(*C))
        if op == "bm.transpose":
            b = t.i(); A = t.bcrs(b); C = bv.parse_out_bcrs(impl_out, b)
            if not small(A[0] * b, A[1] * b): return None
            # expanded rows of the transpose are not sorted inside a block column: only the dense part of o.transpose applies
            return "%s o.unblock %s %s" % (cid, fmt_crs(A[1] * b, A[0] * b, gen_transpose_rows(bv.b_expand(A[2], b), A[1] * b)), X(*C, b)), \
                   "%s bm.o.transpose %d %s %s" % (cid, b, bv.fmt_bcrs(*A), bv.fmt_bcrs(*C))
        if op == "bm.sum":
            b = t.i(); al = t.blk(b); A = t.bcrs(b); be_ = t.blk(b); B = t.bcrs(b); srt = t.i()
            C = bv.parse_out_bcrs(impl_out, b)
            out = ["%s bm.o.sum %d %s %s %s %s %d %s" % (cid, b, bv.fmt_blk(al), bv.fmt_bcrs(*A), bv.fmt_blk(be_), bv.fmt_bcrs(*B), srt, bv.fmt_bcrs(*C))]
            if is_scalar_multiple(al) and is_scalar_multiple(be_) and small(A[0] * b, A[1] * b):
                out.insert(0, "%s o.sum %s %s %s %s 0 %s" % (cid, fmt_q(al[0][0]), X(*A, b), fmt_q(be_[0][0]), X(*B, b), X(*C, b)))
            return tuple(out)
        if op == "bm.scale":
            b = t.i(); A = t.bcrs(b); sc = t.s(); C = bv.parse_out_bcrs(impl_out, b)
            if not small(A[0] * b, A[1] * b): return None
            return ("%s o.scale %s %s %s" % (cid, X(*A, b), sc, X(*C, b)),)
        if op == "bm.sort_rows":
            b = t.i(); A = t.bcrs(b); C = bv.parse_out_bcrs(impl_out, b)
            if not small(A[0] * b, A[1] * b): return None
            sorted_ok = all(rw[i][0] <= rw[i + 1][0] for rw in C[2] for i in range(len(rw) - 1))
            lens_ok = [len(rw) for rw in A[2]] == [len(rw) for rw in C[2]]
            if not (sorted_ok and lens_ok): return ("%s o.fail block-rows-not-sorted-or-length-changed" % cid,)
            return ("%s o.unblock %s %s" % (cid, X(*A, b), X(*C, b)),)
        if op == "bm.diagonal":
            b = t.i(); A = t.bcrs(b); inv = t.i()
            d = parse_out_vec(impl_out)
            return ("%s bm.o.diagonal %d %s %d %d %s" % (cid, b, bv.fmt_bcrs(*A), inv, len(d) // (b * b), " ".join(fmt_q(x) for x in d)),)
        if op == "bm.pointwise":
            b = t.i(); A = t.bcrs(b); bs = t.i()
            n, m, rows = A
            if n % bs or m % bs: return None
            if any(any(rw[i][0] > rw[i + 1][0] for i in range(len(rw) - 1)) for rw in rows): return None
            return ("%s bm.o.pointwise %d %s %d %s" % (cid, b, bv.fmt_bcrs(*A), bs, crs_tokens_of_output(impl_out)),)
        if op == "bm.specrad":
            b = t.i(); sc = t.i(); t.i(); A = t.bcrs(b)
            return ("%s bm.o.specrad %d %d %s %s" % (cid, b, sc, bv.fmt_bcrs(*A), impl_out.strip()),)
        if op == "cm.transpose":
            c = Cur(payload); a = c.crs(3)
            return ("%s cm.o.transpose %s %s" % (cid, a, ccrs_tokens_of_output(impl_out)),)
        if op in ("cm.saad", "cm.rmerge", "cm.product"):
            c = Cur(payload)
            if op == "cm.product": nt = int(c.tok())
            a = c.crs(3); b_ = c.crs(3)
            srt = 1 if op == "cm.rmerge" else int(c.tok())
            if op == "cm.product" and nt > 16: srt = 1
            return ("%s cm.o.product %s %s %d %s" % (cid, a, b_, srt, ccrs_tokens_of_output(impl_out)),)
        if op == "cm.sum":
            c = Cur(payload); al = c.tok(2); a = c.crs(3); be_ = c.tok(2); b_ = c.crs(3); srt = int(c.tok())
            return ("%s cm.o.sum %s %s %s %s %d %s" % (cid, al, a, be_, b_, srt, ccrs_tokens_of_output(impl_out)),)
        if op == "cm.scale":
            c = Cur(payload); k = c.tok(); a = c.crs(3); sc = c.tok(2 if k == "c" else 1)
            return ("%s cm.o.scale %s %s %s %s" % (cid, k, a, sc, ccrs_tokens_of_output(impl_out)),)
    except Exception as e:          # malformed output: let the correspondence stage report it
        return None
    return None

def gen_transpose_rows(rows, m):
    """scalar transpose of expanded rows (python reference; values unchanged: the scalar adjoint is the identity)"""
    out = [[] for _ in range(m)]
    for i, rw in enumerate(rows):
        for c, v in rw: out[c].append((i, v))
    return out


def block_run(ctx, ls, nt, env, by_id):
    fails = []
    shards = 16 if nt <= 2 else (6 if nt <= 4 else 2)
    f, impl, model = diff_run(ctx, "matops_block", ls, env=env, shards=shards)
    for x in f:
        x["theorem"] = "correspondence drv_matops_block (%s, OMP_NUM_THREADS=%d) vs MatOps.v/MatOps2.v at BlockS QcS b / ComplexS QcS; spec theorems C08_nc_*" % (x["op"], nt)
    fails += f
    olines = []; k = 0
    for l in ls:
        cid = l.split(" ", 1)[0]
        o = block_oracle_line(l, impl.get(cid))
        for ol in (o or ()):
            # several oracle lines per case: unique ids "cid#k" mapped back to the case
            oid = "%s#%d" % (cid, k); k += 1
            olines.append(oid + " " + ol.split(" ", 1)[1])
    of = oracle_run(ctx, olines, "C08 dense definition on the expanded (unblocked) matrices / at block level / at ComplexS (OMP_NUM_THREADS=%d)" % nt,
                    lambda oid: by_id[oid.split("#")[0]])
    for x in of:
        cid = x["case"].split(" ", 1)[0]
        x["impl"] = impl.get(cid); x["model"] = model.get(cid)
        x["impl_eq_model"] = (impl.get(cid) is not None and impl.get(cid) == model.get(cid))
        x["theorem"] = "C08 %s: dense definition violated by the implementation's output for block/complex values (OMP_NUM_THREADS=%d)" % (x["op"], nt)
    fails += of
    return fails


def tiny_diagonal_stage(ctx):
    """diagonal(A, invert) in binary64 on power-of-two data with TINY non-zero diagonal entries (2^-50 .. 2^-70, below the machine
    epsilon): the definition inverts every non-zero entry (the exact build cannot see a threshold on |a_ii| because the epsilon of
    the rational type is 0).  Implementation (double) vs the model at Q on the same line: both are exact."""
    r = random.Random(ctx["seed"] * 1000 + 808)
    lines = []; mlines = []
    for k in range(40 if ctx["tier"] == "quick" else 400):
        n = r.choice([1, 2, 3, 5, 8])
        rows = []
        for i in range(n):
            rw = {}
            for j in range(n):
                if j != i and r.random() < 0.4: rw[j] = F(r.choice([-1, 1])) * F(2) ** r.randint(-6, 6)
            e = r.choice([-55, -60, -70, -52, -53, -30, 0, 3]) if r.random() < 0.8 else None
            rw[i] = F(0) if e is None else F(r.choice([-1, 1])) * F(2) ** e
            rows.append(list(rw.items()) if r.random() < 0.5 else sorted(rw.items()))
        payload = "%s %d" % (fmt_crs(n, n, rows), 1 if k % 4 else 0)
        lines.append("td%d diagonal_d %s" % (k, payload)); mlines.append("td%d diagonal %s" % (k, payload))
    impl = ctx["run_driver"](ctx["cpp"]["matops"], lines, env_extra={"OMP_NUM_THREADS": "2"})
    model = ctx["run_driver"](ctx["model"], mlines)
    account(ctx, lines, impl)
    fails = []
    for l in lines:
        cid = l.split(" ", 1)[0]
        if impl.get(cid) != model.get(cid):
            ctx["stats"]["mismatches"] += 1
            fails.append(dict(kind="counterexample", case=l, impl=impl.get(cid), model=model.get(cid), op="diagonal_d", size=len(l),
                              theorem="C08 diagonal(A, invert) in binary64 on power-of-two data = the model at Q (C08_diagonal_*): every non-zero entry is inverted"))
    return fails


def run(ctx, cases_override=None):
    lines = cases_override or cases(ctx["tier"], ctx["seed"])
    fails = []
    # stage 'specrad' (spectral-radius clauses; generates its own cases, replayed lines are routed to it)
    sr_lines = [l for l in lines if is_specrad_line(l)]
    lines = [l for l in lines if not is_specrad_line(l)]
    if cases_override is None: fails += run_specrad(ctx)
    elif sr_lines: fails += run_specrad(ctx, sr_lines)
    groups = {}
    for l in lines: groups.setdefault(nt_of(l), []).append(l)
    by_id = {l.split(" ", 1)[0]: l for l in lines}
    for nt in sorted(groups):
        ls = groups[nt]
        env = {"OMP_NUM_THREADS": str(nt), "OMP_DYNAMIC": "false",
               "OMP_WAIT_POLICY": "passive", "GOMP_SPINCOUNT": "0"}   # no busy-waiting when oversubscribed
        bls = [l for l in ls if is_block_line(l)]
        ls = [l for l in ls if not is_block_line(l)]
        if bls: fails += block_run(ctx, bls, nt, env, by_id)
        if not ls: continue
        # power method: feed the model the start vector the implementation draws
        model_lines = None
        pm = [l for l in ls if l.split(" ", 2)[1] == "specrad_power"]
        if pm:
            ns = sorted({int(Cur(l.split(" ", 2)[2]).t[2]) for l in pm})
            st = ctx["run_driver"](ctx["cpp"]["matops"], ["s%d pm_start %d" % (n, n) for n in ns], env_extra=env, shards=1)
            model_lines = []
            for l in ls:
                if l.split(" ", 2)[1] == "specrad_power":
                    n = int(Cur(l.split(" ", 2)[2]).t[2])
                    v = st.get("s%d" % n, "[]")
                    try: vec = fmt_vec(parse_out_vec(v))
                    except Exception: vec = "0"
                    model_lines.append(l + " " + vec)
                else: model_lines.append(l)
        shards = 16 if nt <= 2 else (6 if nt <= 4 else 2)
        f, impl, model = diff_run(ctx, "matops", ls, env=env, shards=shards, model_lines=model_lines)
        for x in f:
            x["theorem"] = "correspondence drv_matops (%s, OMP_NUM_THREADS=%d) vs MatOps.v/MatOps2.v; spec theorems C08" % (x["op"], nt)
        fails += f
        # oracle stage on the implementation's outputs
        olines = []
        for l in ls:
            cid = l.split(" ", 1)[0]
            o = oracle_line(l, impl.get(cid))
            if o: olines.append(o)
        of = oracle_run(ctx, olines, "C08 dense definition (extracted specification applied to the implementation's output, OMP_NUM_THREADS=%d)" % nt,
                        lambda cid: by_id[cid])
        for x in of:
            cid = x["case"].split(" ", 1)[0]
            x["impl"] = impl.get(cid); x["model"] = model.get(cid)
            x["impl_eq_model"] = (impl.get(cid) is not None and impl.get(cid) == model.get(cid))
            x["theorem"] = "C08 %s: dense definition violated by the implementation's output (OMP_NUM_THREADS=%d)" % (x["op"], nt)
        fails += of
    if not cases_override: fails += tiny_diagonal_stage(ctx)
    if BSTAT:
        ctx["log"].append(("C08 block generators: stored blocks / scalar / diagonal / symmetric; sampled pairs / non-commuting",
                           "%(blocks)d / %(scalar)d / %(diagonal)d / %(symmetric)d; %(pairs)d / %(noncommuting)d" % BSTAT))
    return fails


# ================================================================================================
# Stage "specrad": the two spectral-radius clauses of the property (Properties_C08.v section 7).
#   power method     estimate^2 <= ||A||_F^2 (exactly: r^2 <= ||A||_F^2 t^2 with t = |last iterate|^2 of the model run
#                    from the same start vector -- C08_power_oracle_accepts_model; vq::Q / QcS share the floor root on
#                    the 2^-64 grid, so t is slightly above 1), plus impl-vs-model on more matrices / more sweeps
#   Gershgorin       estimate >= |lambda| for eigenpairs built by the generator, scalar and block values, both variants
#                    (C08_gershgorin_eigenpair_oracle_Qc, C08_block_gershgorin_bound(_scaled))
# Case lines (self-contained, replayable; ids "sr.<k>"):
#   sr.power <scale> <iters> <crs>                      start vector: the implementation's (op pm_start)
#   sr.geig  <scale> <nt> <crs> <vec v> <lam>           eigenpair of A (scale=0) / of D^-1 A (scale=1)
#   sr.bgeig <b> <scale> <nt> <bcrs> <blocks v> <lam>   block eigenpair; v_i = b x b blocks (columns embedded)
# Oracles: model driver group "specrad" (coq/Extract_specrad.v, ocaml/specrad/ops_specrad.ml).
SR_OPS = ("sr.power", "sr.geig", "sr.bgeig")

def is_specrad_line(l):
    sp = l.split(" ", 2)
    return len(sp) > 1 and sp[1] in SR_OPS

def _mat_inv(Mx):
    """exact inverse of a small square matrix of Fractions (None if singular)"""
    n = len(Mx); A = [list(rw) + [F(int(i == j)) for j in range(n)] for i, rw in enumerate(Mx)]
    for c in range(n):
        p = next((i for i in range(c, n) if A[i][c] != 0), None)
        if p is None: return None
        A[c], A[p] = A[p], A[c]
        pv = A[c][c]; A[c] = [x / pv for x in A[c]]
        for i in range(n):
            if i != c and A[i][c] != 0:
                f = A[i][c]; A[i] = [x - f * y for x, y in zip(A[i], A[c])]
    return [rw[n:] for rw in A]

def _dense_to_rows(r, D, keep_zero=0.0, shuffle=False):
    rows = []
    for rw in D:
        es = [(j, x) for j, x in enumerate(rw) if x != 0 or r.random() < keep_zero]
        if shuffle: r.shuffle(es)
        rows.append(es)
    return rows

def _split_dups(r, rows, prob=0.3):
    """store some entries twice (a = a1 + a2): the dense matrix is unchanged, the Gershgorin sum only grows"""
    out = []
    for rw in rows:
        nw = []
        for c, x in rw:
            if r.random() < prob:
                a1 = gen.rq(r); nw.append((c, a1)); nw.append((c, x - a1))
            else: nw.append((c, x))
        out.append(nw)
    return out

def _sr_eig_similar(r, n):
    """A = S L S^-1 with rational S: all n eigenpairs (lam_k, S[:,k])"""
    while True:
        kind = r.choice(["gen", "upper", "lower", "near_id"])
        S = [[F(r.randint(-3, 3)) if kind == "gen" or (kind == "upper" and j >= i) or (kind == "lower" and j <= i)
              else F(0) for j in range(n)] for i in range(n)]
        if kind == "near_id": S = [[F(int(i == j)) + (F(r.randint(-1, 1), 4) if r.random() < 0.4 else 0) for j in range(n)] for i in range(n)]
        Si = _mat_inv(S)
        if Si is not None: break
    L = [r.choice([F(5), F(-4), F(3), F(7, 2), F(-9, 2), F(1, 2), F(0), F(2), F(-1), F(6)]) for _ in range(n)]
    A = [[sum(S[i][k] * L[k] * Si[k][j] for k in range(n)) for j in range(n)] for i in range(n)]
    return A, [(L[k], [S[i][k] for i in range(n)]) for k in range(n)]

def _sr_eig_fit(r, n, scale, small_off):
    """one eigenpair on an arbitrary sparse pattern: off-diagonal part O and v free, diagonal fitted.
    returns (rows, v, lam) with rows in storage order (diagonal at a random position), or None"""
    for _ in range(20):
        O = gen.rcrs(r, n, n, density=r.choice([0.2, 0.4, 0.7]), sorted_rows=True, dups=False, empty_rows=(not scale))
        O = [[(c, (x / 4 if small_off else x)) for c, x in rw if c != i and x != 0] for i, rw in enumerate(O)]
        v = [gen.rq(r, nz=True) for _ in range(n)]
        Ov = [sum(x * v[c] for c, x in rw) for rw in O]
        if not scale:
            lam = r.choice([F(5), F(-6), F(3), F(-7, 2), F(1, 2), F(0), F(9), F(-2)])
            d = [lam - Ov[i] / v[i] for i in range(n)]
        else:
            if n == 1: lam = F(1); d = [gen.rq(r, nz=True)]
            else:
                if any(x == 0 for x in Ov): continue
                lam = F(1) + r.choice([F(1, 4), F(-1, 4), F(1, 2), F(2), F(-3), F(1, 8), F(-5, 2)])
                d = [Ov[i] / ((lam - 1) * v[i]) for i in range(n)]
        rows = []
        for i, rw in enumerate(O):
            rw = list(rw)
            if scale and r.random() < 0.25:
                # the diagonal stored twice: D is the LAST stored one; (d1 + d2) v_i + (Ov)_i = lam d2 v_i
                d1 = gen.rq(r, nz=True)
                d2 = None if n == 1 else (Ov[i] + d1 * v[i]) / ((lam - 1) * v[i])
                if d2 is None or d2 == 0: rw.insert(r.randint(0, len(rw)), (i, d[i]))
                else:
                    p1 = r.randint(0, len(rw)); rw.insert(p1, (i, d1)); rw.insert(r.randint(p1 + 1, len(rw)), (i, d2))
            elif d[i] != 0 or scale or r.random() < 0.5:
                rw.insert(r.randint(0, len(rw)) if r.random() < 0.5 else sum(1 for c, _ in rw if c < i), (i, d[i]))
            rows.append(rw)
        if scale and any(all(c != i for c, _ in rw) for i, rw in enumerate(rows)): continue
        return rows, v, lam
    return None

def _bl_vec_block(v, b):
    """b-vector as the b x b block with that column 0"""
    return [[v[i] if j == 0 else F(0) for j in range(b)] for i in range(b)]

def _sr_beig_fit(r, b, n, scale, small_off):
    for _ in range(20):
        O = bv.rbcrs(r, b, n, n, density=r.choice([0.3, 0.6]), sorted_rows=True, dups=False, empty_rows=(not scale))
        O = [[(c, (bv.bl_scale(F(1, 4), X) if small_off else X)) for c, X in rw if c != i] for i, rw in enumerate(O)]
        v = [[gen.rq(r, nz=(k == 0 or r.random() < 0.8)) for k in range(b)] for _ in range(n)]
        Ov = []
        for rw in O:
            acc = [F(0)] * b
            for c, X in rw: acc = [x + y for x, y in zip(acc, bv.bl_matvec(X, v[c]))]
            Ov.append(acc)
        if not scale:
            lam = r.choice([F(5), F(-6), F(3), F(-7, 2), F(1, 2), F(0), F(9), F(-2)])
            w = [[lam * v[i][k] - Ov[i][k] for k in range(b)] for i in range(n)]
        else:
            if n == 1: lam = F(1); w = None
            else:
                if any(all(x == 0 for x in o) for o in Ov): continue
                lam = F(1) + r.choice([F(1, 4), F(-1, 4), F(1, 2), F(2), F(-3), F(1, 8)])
                w = [[Ov[i][k] / (lam - 1) for k in range(b)] for i in range(n)]
        rows = []; ok = True
        for i, rw in enumerate(O):
            if w is None: D = bv.rblock_inv(r, b)
            else:
                # D v_i = w_i: D = R + (w_i - R v_i) v_i^T / (v_i^T v_i)
                R = bv.rblock(r, b, r.choice(["gen", "diag", "scalar", "upper"]))
                vv = sum(x * x for x in v[i]); Rv = bv.bl_matvec(R, v[i])
                D = [[R[p][q] + (w[i][p] - Rv[p]) * v[i][q] / vv for q in range(b)] for p in range(b)]
            if scale and bv.bl_det(D) == 0: ok = False; break
            rw = list(rw); rw.insert(r.randint(0, len(rw)) if r.random() < 0.5 else sum(1 for c, _ in rw if c < i), (i, D))
            rows.append(rw)
        if not ok: continue
        return rows, v, lam
    return None

def specrad_cases(tier, seed):
    r = random.Random(seed * 1000 + 808)
    quick = tier == "quick"
    out = []
    def add(op, *parts): out.append("sr.%d %s %s" % (len(out), op, " ".join(str(p) for p in parts)))
    # ---------------- power method
    NP = 400 if quick else 3000
    for it in range(NP):
        kind = r.choice(["spd", "spd", "dd", "rank1", "random", "random_diag", "nodiag", "refl", "zero", "tiny"])
        n = r.choice([1, 2, 2, 3, 3, 4, 5, 6, 8]) if quick else r.choice([1, 2, 3, 4, 5, 6, 8, 10, 12])
        scale = r.choice([0, 1])
        if kind == "spd": rows = gen.spd_mmatrix(r, n)
        elif kind == "dd": rows = gen.nonsym_dd(r, n)
        elif kind == "rank1":
            n = min(n, 5); u = [gen.rq(r, nz=True) for _ in range(n)]; c = r.choice([F(1), F(-2), F(1, 2), F(3)])
            rows = _dense_to_rows(r, [[c * u[i] * u[j] for j in range(n)] for i in range(n)], shuffle=(r.random() < 0.5))
        elif kind == "random": rows = gen.rcrs(r, n, n, dups=(r.random() < 0.4)); scale = 0
        elif kind == "random_diag": rows = gen.c08_with_diag(r, gen.rcrs(r, n, n, dups=(r.random() < 0.4)), n, zero_ok=False)
        elif kind == "nodiag":      # rows without a diagonal entry: the thread-private dia survives from the row before
            rows = gen.c08_with_diag(r, gen.rcrs(r, n, n), n, zero_ok=False)
            rows = [[e for e in rw if not (e[0] == i and r.random() < 0.4)] for i, rw in enumerate(rows)]
        elif kind == "refl": n = 2; rows = [[(0, F(3)), (1, F(4))], [(0, F(4)), (1, F(-3))]]; scale = 0
        elif kind == "zero": rows = [[] for _ in range(n)] if r.random() < 0.5 else [[(i, F(0))] for i in range(n)]; scale = 0
        else: n = r.choice([0, 1]); rows = [[(0, gen.rq(r, nz=True))]] * n
        if r.random() < 0.3:
            f = r.choice([F(10), F(1, 16), F(-3), F(100)]); rows = [[(c, f * x) for c, x in rw] for rw in rows]
        if scale and kind in ("spd", "dd", "rank1", "random_diag") and any(all(c != i or x == 0 for c, x in rw) for i, rw in enumerate(rows)):
            scale = 0          # scaling divides by the diagonal: keep it non-zero (the C++ asserts / divides by zero otherwise)
        if scale and any(x == 0 for i, rw in enumerate(rows) for c, x in rw if c == i): scale = 0
        iters = r.choice([1, 2, 2, 3, 3, 4, 5, 6]) if n <= 5 else r.choice([1, 2, 3, 4])
        add("sr.power", scale, iters, crs(n, n, rows))
    # ---------------- Gershgorin, scalar eigenpairs
    NG = 450 if quick else 4000
    for it in range(NG):
        nt = r.choice([1, 1, 4])
        if it % 3 == 0:
            n = r.choice([1, 2, 3, 4])
            A, pairs = _sr_eig_similar(r, n)
            rows = _dense_to_rows(r, A, keep_zero=r.choice([0.0, 0.3]), shuffle=(r.random() < 0.5))
            if r.random() < 0.3: rows = _split_dups(r, rows)
            for lam, v in pairs[: (2 if quick else n)]:
                add("sr.geig", 0, nt, crs(n, n, rows), fmt_vec(v), fmt_q(lam))
        else:
            n = r.choice([1, 2, 3, 4, 5, 6, 8]); scale = r.choice([0, 1])
            g = _sr_eig_fit(r, n, scale, small_off=(r.random() < 0.6))
            if g is None: continue
            rows, v, lam = g
            if not scale and r.random() < 0.25: rows = _split_dups(r, rows)
            add("sr.geig", scale, nt, crs(n, n, rows), fmt_vec(v), fmt_q(lam))
    # ---------------- Gershgorin, block eigenpairs
    NB = 350 if quick else 3000
    for it in range(NB):
        b = r.choice([2, 2, 3]); nt = r.choice([1, 1, 4])
        if it % 4 == 0:
            n = r.choice([1, 2]) if b == 3 else r.choice([1, 2, 3])
            A, pairs = _sr_eig_similar(r, n * b)
            rows = [[(J, [[A[I * b + p][J * b + q] for q in range(b)] for p in range(b)]) for J in range(n)
                     if any(A[I * b + p][J * b + q] != 0 for p in range(b) for q in range(b)) or r.random() < 0.2] for I in range(n)]
            if r.random() < 0.4: rows = [list(reversed(rw)) for rw in rows]
            for lam, v in pairs[:2]:
                vb = [_bl_vec_block(v[I * b:(I + 1) * b], b) for I in range(n)]
                add("sr.bgeig", b, 0, nt, bv.fmt_bcrs(n, n, rows), bv.fmt_blocks(vb), fmt_q(lam))
        else:
            n = r.choice([1, 2, 3, 4]); scale = r.choice([0, 1])
            g = _sr_beig_fit(r, b, n, scale, small_off=(r.random() < 0.6))
            if g is None: continue
            rows, v, lam = g
            add("sr.bgeig", b, scale, nt, bv.fmt_bcrs(n, n, rows), bv.fmt_blocks([_bl_vec_block(x, b) for x in v]), fmt_q(lam))
    return out


def run_specrad(ctx, lines=None):
    """stage 'specrad': see the comment block above.  lines: replayed case lines (default: generated)"""
    import vcheck
    lines = lines if lines is not None else specrad_cases(ctx["tier"], ctx["seed"])
    if not lines: return []
    try:
        sr_model = vcheck.build_model(ctx["log"], "specrad")
    except Exception as e:
        return [dict(kind="broken-model-build", case=None, has_input=False, op="specrad", size=0,
                     theorem="Extract_specrad.v / ocaml/specrad (oracle driver of the spectral-radius clauses)", oracle=str(e)[-2000:])]
    ctx2 = dict(ctx); ctx2["model"] = sr_model
    by_id = {l.split(" ", 1)[0]: l for l in lines}
    fails = []
    env1 = {"OMP_NUM_THREADS": "1", "OMP_DYNAMIC": "false", "OMP_WAIT_POLICY": "passive", "GOMP_SPINCOUNT": "0"}
    # ---- power method
    pw = [l for l in lines if l.split(" ", 2)[1] == "sr.power"]
    if pw:
        parsed = {}
        for l in pw:
            cid, _, payload = l.split(" ", 2); c = Cur(payload)
            sc_ = c.tok(); it = c.tok(); a = c.crs(); parsed[cid] = (sc_, it, a, c.dims(a)[0])
        ns = sorted({p[3] for p in parsed.values()})
        st = ctx["run_driver"](ctx["cpp"]["matops"], ["s%d pm_start %d" % (n, n) for n in ns], env_extra=env1, shards=1)
        start = {}
        for n in ns:
            try: start[n] = fmt_vec(parse_out_vec(st.get("s%d" % n, "[]")))
            except Exception: start[n] = "0"
        impl_lines = ["%s specrad_power %s %s %s" % (cid, p[0], p[1], p[2]) for cid, p in parsed.items()]
        model_lines = ["%s sr.power %s %s %s %s" % (cid, p[0], p[1], p[2], start[p[3]]) for cid, p in parsed.items()]
        f, impl, model = diff_run(ctx2, "matops", impl_lines, env=env1, shards=16, model_lines=model_lines)
        for x in f:
            cid = x["case"].split(" ", 1)[0]; x["case"] = by_id[cid]
            x["theorem"] = "correspondence drv_matops specrad_power (more sweeps / matrices) vs MatOps2.spectral_radius_power"
        fails += f
        olines = []
        for cid, p in parsed.items():
            o = impl.get(cid)
            if o is None or o.startswith(("EXC", "CRASH", "UNSUPPORTED", "BADCRS")): continue
            olines.append("%s sr.o.power %s %s %s %s %s" % (cid, p[0], p[1], p[2], start[p[3]], o.strip()))
        of = oracle_run(ctx2, olines, "C08_power_oracle_accepts_model / C08_power_method_bound_any_root: the power-method "
                        "estimate r of the implementation violates 0 <= r, r^2 <= ||A||_F^2 t^2 (never above the largest singular value)",
                        lambda cid: by_id[cid])
        for x in of: x["impl"] = impl.get(x["case"].split(" ", 1)[0])
        fails += of
    # ---- Gershgorin: scalar and block eigenpairs, per thread count
    for op, drv in (("sr.geig", "matops"), ("sr.bgeig", "matops_block")):
        gl = [l for l in lines if l.split(" ", 2)[1] == op]
        groups = {}
        for l in gl:
            cid, _, payload = l.split(" ", 2); t = bv.Toks(payload)
            if op == "sr.geig":
                sc_ = t.i(); nt = t.i(); st_ = t.p; n, m, rows = t.crs(); a = " ".join(t.t[st_:t.p]); rest = " ".join(t.t[t.p:])
                il = "%s specrad %d %d %s" % (cid, sc_, nt, a); head = "%d %s" % (sc_, a)
            else:
                b = t.i(); sc_ = t.i(); nt = t.i(); st_ = t.p; n, m, rows = t.bcrs(b); a = " ".join(t.t[st_:t.p]); rest = " ".join(t.t[t.p:])
                il = "%s bm.specrad %d %d %d %s" % (cid, b, sc_, nt, a); head = "%d %d %s" % (b, sc_, a)
            groups.setdefault(nt, []).append((cid, il, head, rest))
        for nt in sorted(groups):
            env = dict(env1); env["OMP_NUM_THREADS"] = str(nt)
            ils = [g[1] for g in groups[nt]]
            impl = ctx["run_driver"](ctx["cpp"][drv], ils, env_extra=env, shards=(16 if nt <= 2 else 6))
            from props.common import account
            account(ctx, ils, impl)
            olines = []
            for cid, il, head, rest in groups[nt]:
                o = impl.get(cid)
                if o is None or o.startswith(("EXC", "CRASH", "UNSUPPORTED", "BADCRS", "UNKNOWN")):
                    fails.append(dict(kind="counterexample", case=by_id[cid], impl=o, model=None, op=op, size=len(by_id[cid]),
                                      theorem="spectral_radius (Gershgorin) raised / crashed on a matrix with a constructed eigenpair"))
                    continue
                olines.append("%s %s %s %s %s" % (cid, op.replace("sr.", "sr.o."), head, rest, o.strip()))
            of = oracle_run(ctx2, olines, ("C08_gershgorin_eigenpair_oracle_Qc" if op == "sr.geig" else "C08_block_gershgorin_bound(_scaled)") +
                            ": the Gershgorin estimate of the implementation is below |lambda| for a constructed eigenpair "
                            "(OMP_NUM_THREADS=%d)" % nt, lambda cid: by_id[cid])
            for x in of: x["impl"] = impl.get(x["case"].split(" ", 1)[0])
            fails += of
    return fails

TRUSTED_BASE.append("spectral-radius stage: coq/Extract_specrad.v + ocaml/specrad/ops_specrad.ml (oracle / model driver group 'specrad'); the eigenpair "
                    "generators of tools/props/C08.py only propose cases: every pair is re-checked exactly by the extracted eig_check / beig_check")
ASSUMPTIONS.append("spectral-radius oracles: vq::Q and QcS share the floor square root on the 2^-64 grid (C08_qc_sqrt_grid is about QcS; the byte-for-byte "
                   "tie of the estimates carries it over); eigenpairs: lambda a base scalar, real base scalars; power method on one thread")
