"""reuse_cases.py -- C15 (objects): scripted call histories on ONE object vs a FRESH object per call.

Objects (harness/drv_reuse*.cpp, protocol in harness/reuse_common.hh):
  amg<builtin<V>, C, R> for the 4 coarsenings x {damped_jacobi, spai0, gauss_seidel, ilu0, chebyshev}, bare and inside
  make_solver<amg, S> for the 8 solvers; relaxation::as_preconditioner<R> (9 relaxations), bare and inside make_solver;
  solver::skyline_lu; deflated_solver; preconditioner::cpr / cpr_drs (+ partial_update); schur_pressure_correction
  (2 inner-solver variants, types 1 and 2); make_block_solver (block size 2).  V = vq::Q (exact) and double.
Every driver line prints `<results on one object> || <results on fresh objects>`; the halves must be identical.
"""
import hashlib, os, random
from fractions import Fraction as F
from vcheck import fmt_q, fmt_crs
import gen
from props.common import account
import props.krylov_cases as kc

COARSENINGS = ["aggregation", "smoothed_aggregation", "ruge_stuben", "smoothed_aggr_emin"]
AMG_RELAX = ["damped_jacobi", "spai0", "gauss_seidel", "ilu0", "chebyshev"]
PREC_RELAX = ["damped_jacobi", "spai0", "gauss_seidel", "ilu0", "iluk", "ilup", "ilut", "chebyshev", "spai1"]
DRIVERS = ["reuse", "reuse_comp"] + ["reuse_amg_" + c for c in COARSENINGS]
OPS = ("ramg.", "rprec", "rsky", "rdefl", "rcpr", "rschur", "rmbs")
MODEL_GROUP = "reuse"          # coq/Extract_reuse.v + ocaml/reuse/ops_reuse.ml: second extracted model driver
MODEL_SOLVERS = ["none", "cg", "richardson", "bicgstab", "gmres", "fgmres"]   # state-passing models ReuseProofs2/3.v
MAX_MODEL_OUT = 120000
TMO = 150   # a mutated smoother can make the exact rationals explode: bounded per shard

_H = os.path.join(os.path.dirname(os.path.dirname(os.path.dirname(os.path.abspath(__file__)))), "harness")
def extra_flags():
    """the reuse drivers include harness/reuse_*.hh, which the runner's source hash does not see (it hashes *.hpp:
    a new .hpp would invalidate every driver binary of every property): their hash enters the cache key as a flag"""
    h = hashlib.sha256()
    for f in ("reuse_common.hh", "reuse_amg.hh"):
        try: h.update(open(os.path.join(_H, f), "rb").read())
        except OSError: h.update(b"<missing>")
    fl = ["-DVQ_REUSE_HDR=0x" + h.hexdigest()[:12]]
    return {d: fl for d in DRIVERS}

def driver_of(op):
    op = op[2:] if op.startswith("d.") else op
    if op.startswith("ramg."): return "reuse_amg_" + op[5:]
    if op in ("rcpr", "rschur", "rmbs"): return "reuse_comp"
    return "reuse"

def is_reuse_line(line):
    tk = line.split(" ", 2)
    return len(tk) > 1 and (tk[1][2:] if tk[1].startswith("d.") else tk[1]).startswith(OPS)

# ---------------------------------------------------------------- formatting
def fv(v): return " ".join([str(len(v))] + [x if isinstance(x, str) else fmt_q(x) for x in v])
def crs(n, rows): return fmt_crs(n, n, rows)

def skew(n):
    """skew system of C15.breakdown_sys: BiCGStab breaks down (throws), the others stagnate"""
    rows = [[] for _ in range(n)]
    for i in range(0, n - 1, 2):
        rows[i].append((i + 1, F(1))); rows[i + 1].append((i, F(-1)))
    if n % 2: rows[n - 1].append((n - 1, F(1)))
    return rows

def perturb(r, rows):
    """same pattern, other values (still an SPD M-matrix: diagonal increased, off-diagonals scaled down)"""
    s = F(r.choice([1, 1, 2, 3]), r.choice([2, 4])); d = F(r.choice([1, 2, 3]), r.choice([1, 2]))
    return [[(c, v + d if c == i else v * s) for c, v in rw] for i, rw in enumerate(rows)]

def dvec(r, n, dbl):
    return gen.dyvec(r, n) if dbl else gen.rvec(r, n)

def nz(v):
    if all(x == 0 for x in v): v[0] = F(1)
    return v

# ---------------------------------------------------------------- scripts
def script(r, n, rows, dbl, solver, cmds_allowed, rebuild_ok=False, nlen=None):
    """history of nlen commands; the last commands are always plain calls (apply and, with a solver, solve) whose
    results must not be influenced by what came before.  Returns (tokens, meta)"""
    z = [F(0)] * n
    out = []; kinds = []
    pool = []
    for c in cmds_allowed:
        if c == "apply": pool += ["apply", "apply", "applyx", "applyz"] + (["applynan"] if dbl else [])
        elif c == "cycle": pool += ["cycle", "cyclex"]
        elif c == "solve": pool += ["solve", "solve", "solvex", "solvez"] + (["solvenan"] if dbl else [])
        elif c == "solveA": pool += ["solveA", "break"]
        elif c == "msapply": pool += ["msapply"]
        elif c == "project": pool += ["project"]
        elif c == "rebuild": pool += ["rebuild", "rebuild", "rebuildbad"]
        elif c == "update": pool += ["update"]
    if solver == "none": pool = [p for p in pool if not p.startswith(("solve", "break", "msapply"))]
    if nlen is None: nlen = r.choice([3, 4, 5, 6])
    def vec(): return nz(dvec(r, n, dbl))
    def nanvec():
        v = vec(); v[r.randrange(n)] = "nan"; return v
    for i in range(nlen):
        k = r.choice(pool)
        kinds.append(k)
        if k == "apply": out.append("apply %s %s" % (fv(vec()), fv(z)))
        elif k == "applyx": out.append("apply %s %s" % (fv(vec()), fv(vec())))
        elif k == "applyz": out.append("apply %s %s" % (fv(z), fv(vec())))
        elif k == "applynan": out.append("apply %s %s" % (fv(nanvec()), fv(z)))
        elif k == "cycle": out.append("cycle %s %s" % (fv(vec()), fv(z)))
        elif k == "cyclex": out.append("cycle %s %s" % (fv(vec()), fv(vec())))
        elif k == "solve": out.append("solve %s %s" % (fv(vec()), fv(z)))
        elif k == "solvex": out.append("solve %s %s" % (fv(vec()), fv(vec())))
        elif k == "solvez": out.append("solve %s %s" % (fv(z), fv(vec())))
        elif k == "solvenan": out.append("solve %s %s" % (fv(nanvec()), fv(z)))
        elif k == "solveA": out.append("solveA %s %s %s" % (crs(n, perturb(r, rows)), fv(vec()), fv(z)))
        elif k == "break": out.append("solveA %s %s %s" % (crs(n, skew(n)), fv([F(1) if i % 2 == 0 else F(0) for i in range(n)]), fv(z)))
        elif k == "msapply": out.append("msapply %s %s" % (fv(vec()), fv(vec())))
        elif k == "project": out.append("project %s %s" % (fv(vec()), fv(vec())))
        elif k == "rebuild":
            out.append("rebuild %s" % crs(n, perturb(r, rows) if rebuild_ok or r.random() < 0.5 else rows))
        elif k == "rebuildbad":
            m = n + 1; out.append("rebuild %s" % fmt_crs(m, m, [[(i, F(2))] for i in range(m)]))   # wrong size: throws
        elif k == "update": out.append("update %s" % crs(n, perturb(r, rows)))
    # the closing plain calls
    f1, f2 = vec(), vec()
    if "apply" in cmds_allowed: out.append("apply %s %s" % (fv(f1), fv(z))); kinds.append("apply")
    if "cycle" in cmds_allowed and r.random() < 0.5: out.append("cycle %s %s" % (fv(f2), fv(f1))); kinds.append("cyclex")
    if solver != "none" and "solve" in cmds_allowed:
        out.append("solve %s %s" % (fv(f1), fv(z))); kinds.append("solve")
        if r.random() < 0.5: out.append("solve %s %s" % (fv(f2), fv(f1))); kinds.append("solvex")
    if "dump" in cmds_allowed and r.random() < 0.5: out.append("dump"); kinds.append("dump")
    return "%d %s" % (len(out), " ".join(out)), kinds

def solver_prm(r, solver, dbl, heavy=False):
    if dbl:
        return dict(maxiter=r.choice([2, 5, 20]), tol=F(1, 10 ** 8), M=r.choice([2, 3, 30]), K=r.choice([1, 3]), L=r.choice([1, 2, 3]),
                    s=r.choice([1, 2, 4]), damping=F(3, 4), smoothing=int(r.random() < 0.3), replacement=int(r.random() < 0.3), areset=1)
    return dict(maxiter=(1 if heavy else r.choice([1, 2])), tol=F(0), abstol=kc.ABSTOL_MIN, M=r.choice([1, 2]), K=1, L=1, s=r.choice([1, 2]),
                damping=r.choice([F(1), F(1, 2)]), smoothing=0, replacement=0, areset=1)

def float32(x):
    import struct
    return F(struct.unpack("f", struct.pack("f", float(x)))[0])

def amg_cfg(r, n, flavour):
    """flavour 0/1: max_levels reached while the level is larger than coarse_enough (coarsest level RELAXED although
    direct_coarse is on (0) / off (1)); 2: direct coarse solve; 3: anything"""
    big = n > 10
    d = dict(npre=r.choice([1, 1, 2, 0]), npost=r.choice([1, 1, 2, 0]), ncycle=r.choice([1, 1, 2] if not big else [1, 1, 1, 2]),
             pre_cycles=r.choice([1, 1, 1, 2, 0]))
    if d["npre"] == 0 and d["npost"] == 0: d["npost"] = 1
    if flavour in (0, 1):
        d.update(coarse_enough=r.choice([0, 1, 1, 2]), max_levels=r.choice([1, 2, 2, 2, 3]), direct_coarse=1 - flavour)
    elif flavour == 2:
        d.update(coarse_enough=r.choice([2, 3, max(1, n // 2)]), max_levels=4294967295, direct_coarse=1)
    else:
        d.update(coarse_enough=r.choice([0, 1, 2, 3, 5, max(1, n // 2), n, n + 3]), max_levels=r.choice([4294967295, 1, 2, 3]),
                 direct_coarse=r.choice([1, 1, 0]))
    return d

def amg_cprm(r, co):
    eps = fmt_q(float32(F(r.choice(["1/4", "2/25", "1/8", "0", "1/2"]))))
    d = dict(eps_strong=eps, relax="-", over_interp="-", do_trunc="-", eps_trunc="-")
    if co == "aggregation": d["over_interp"] = r.choice(["-", "3/2", "2", "1"])
    if co == "smoothed_aggregation": d["relax"] = r.choice(["-", "1", "1/2", "3/4"])
    if co == "ruge_stuben": d["do_trunc"] = r.choice(["-", "1", "0"]); d["eps_trunc"] = r.choice(["-", "1/4", "1/8"])
    return d

def amg_line(cid, dbl, co, rx, cfg, allow_rebuild, cprm, damping, solver, side, prm, n, rows, scr):
    return " ".join([cid, ("d." if dbl else "") + "ramg." + co, rx,
                     " ".join(str(cfg[k]) for k in ("coarse_enough", "direct_coarse", "max_levels", "npre", "npost", "ncycle", "pre_cycles")),
                     str(allow_rebuild), " ".join(cprm[k] for k in ("eps_strong", "relax", "over_interp", "do_trunc", "eps_trunc")),
                     damping, solver, side, kc.fmt_prm(**prm), crs(n, rows), scr])

def cases(tier, seed):
    r = random.Random(seed * 1000 + 1515)
    pre = "%s%d_" % (tier[0], seed)
    out = []   # (line, meta)
    mult = 1 if tier == "quick" else 4
    def add(line, **meta): out.append((line, meta))
    # ---- 1. amg hierarchies and make_solver<amg, S>
    k = 0
    for ci, co in enumerate(COARSENINGS):
        for ri, rx in enumerate(AMG_RELAX):
            for rep in range(6 * mult):
                for dbl in (False, True):
                    k += 1
                    with_solver = rep % 3 != 0
                    solver = kc.SOLVERS[(k + seed + rep) % 8] if with_solver else "none"
                    heavy = solver not in kc.SQRT_FREE and solver != "none"
                    if dbl: n = r.choice([6, 9, 16, 25, 40])
                    elif solver == "none": n = r.choice([4, 5, 6, 8, 9])
                    else: n = r.choice([3, 4, 5]) if heavy else r.choice([4, 5, 6])
                    rows = (gen.dyadic_spd(r, n) if dbl and r.random() < 0.5 else
                            gen.spd_mmatrix(r, n, extra_diag=(F(r.choice([1, 2]), r.choice([1, 2, 4])) if r.random() < 0.7 else None)))
                    flavour = (rep + ci + ri) % 4 if rep < 3 else r.randrange(4)
                    cfg = amg_cfg(r, n, flavour)
                    if not dbl and solver != "none":   # keep the exact rationals affordable
                        cfg["ncycle"] = 1; cfg["npre"] = min(cfg["npre"], 1); cfg["npost"] = min(cfg["npost"], 1); cfg["pre_cycles"] = min(cfg["pre_cycles"], 1)
                        if cfg["npre"] + cfg["npost"] == 0: cfg["npost"] = 1
                    allow = int(r.random() < 0.6)
                    cmds = ["apply", "cycle", "dump"] + (["solve", "solveA", "msapply"] if solver != "none" else []) + ["rebuild"]
                    nlen = r.choice([3, 4, 5]) if (dbl or solver == "none") else r.choice([2, 3])
                    scr, kinds = script(r, n, rows, dbl, solver, cmds, rebuild_ok=True, nlen=nlen)
                    if not dbl:   # the model run needs the transfer operators: the hierarchy is dumped first
                        cnt, rest = scr.split(" ", 1); scr = "%d dump %s" % (int(cnt) + 1, rest); kinds = ["dump"] + kinds
                    side = kc.side_for(r, solver) if solver != "none" else "right"
                    damping = r.choice(["1/2", "3/4", "-", "1"])
                    cprm = amg_cprm(r, co); sprm = solver_prm(r, solver, dbl, heavy)
                    add(amg_line("%sa%d" % (pre, k), dbl, co, rx, cfg, allow, cprm, damping, solver, side, sprm, n, rows, scr),
                        obj="amg", coarsening=co, relax=rx, solver=solver, dbl=dbl, flavour=flavour, kinds=kinds,
                        model=(None if dbl or solver not in MODEL_SOLVERS else
                               dict(co=co, rx=rx, cfg=cfg, allow=allow, cprm=cprm, damping=damping, solver=solver, side=side, prm=sprm,
                                    n=n, rows=rows, scr=scr)))
    # ---- 2. relaxation as preconditioner
    for ri, rx in enumerate(PREC_RELAX):
        for rep in range(4 * mult):
            for dbl in (False, True):
                k += 1
                solver = kc.SOLVERS[(k + seed) % 8] if rep % 2 else "none"
                heavy = (solver not in kc.SQRT_FREE and solver != "none") or rx == "spai1"
                n = r.choice([8, 16, 30]) if dbl else (r.choice([3, 4]) if heavy else r.choice([4, 5, 6]))
                rows = gen.spd_mmatrix(r, n, extra_diag=F(1, 2))
                kk = "-" if rx not in ("iluk", "ilup", "ilut") else r.choice(["1", "2"])
                cheb = "%d 1/32 1 %d %d" % (r.choice([1, 2, 3, 5] if dbl else [1, 2, 3]), int(r.random() < 0.4), (r.choice([0, 0, 3]) if dbl else 0))
                scr, kinds = script(r, n, rows, dbl, solver, ["apply"] + (["solve", "solveA", "msapply"] if solver != "none" else []),
                                    nlen=(r.choice([3, 4, 5]) if dbl or not heavy else 2))
                side = kc.side_for(r, solver) if solver != "none" else "right"; sprm = solver_prm(r, solver, dbl, heavy)
                add("%sp%d %srprec %s %s %s %s 1 %s %s %s %s %s" % (pre, k, "d." if dbl else "", rx, r.choice(["-", "3/4", "1/2"]), kk, cheb, solver,
                    side, kc.fmt_prm(**sprm), crs(n, rows), scr),
                    obj="rprec", relax=rx, solver=solver, dbl=dbl, kinds=kinds,
                    cheby_model=(None if dbl or rx != "chebyshev" or solver not in MODEL_SOLVERS else
                                 "%s %s %s %s %s %s" % (" ".join(cheb.split(" ")[:4]), solver, side, kc.fmt_prm(**sprm), crs(n, rows), scr)))
    # ---- 2b. as_preconditioner<chebyshev> with every modelled solver (exact; compared with the model object as well)
    for rep in range(6 * mult):
        k += 1
        solver = MODEL_SOLVERS[rep % len(MODEL_SOLVERS)]
        heavy = solver in ("gmres", "fgmres")
        n = r.choice([3, 4]) if heavy else r.choice([3, 4, 5, 6])
        rows = gen.spd_mmatrix(r, n, extra_diag=F(1, 2))
        cheb = "%d %s 1 %d 0" % (r.choice([1, 2, 3]), r.choice(["1/32", "1/16", "1/4"]), int(r.random() < 0.5))
        scr, kinds = script(r, n, rows, False, solver, ["apply"] + (["solve", "solveA", "msapply"] if solver != "none" else []),
                            nlen=(2 if heavy else r.choice([2, 3, 4])))
        side = kc.side_for(r, solver) if solver != "none" else "right"; sprm = solver_prm(r, solver, False, heavy)
        add("%sp%d rprec chebyshev - - %s 1 %s %s %s %s %s" % (pre, k, cheb, solver, side, kc.fmt_prm(**sprm), crs(n, rows), scr),
            obj="rprec", relax="chebyshev", solver=solver, dbl=False, kinds=kinds,
            cheby_model="%s %s %s %s %s %s" % (" ".join(cheb.split(" ")[:4]), solver, side, kc.fmt_prm(**sprm), crs(n, rows), scr))
    # ---- 3. skyline LU
    for rep in range(8 * mult):
        for dbl in (False, True):
            k += 1
            n = r.choice([1, 2, 3, 5, 8, 12]) if not dbl else r.choice([2, 5, 12, 30])
            rows = gen.spd_mmatrix(r, n) if r.random() < 0.5 else gen.nonsym_dd(r, n, density=0.4)
            scr, kinds = script(r, n, rows, dbl, "none", ["apply"], nlen=r.choice([2, 3, 5]))
            add("%ss%d %srsky %s %s" % (pre, k, "d." if dbl else "", crs(n, rows), scr), obj="skyline_lu", dbl=dbl, kinds=kinds)
    # ---- 4. deflated solver
    for rep in range(6 * mult):
        for dbl in (False, True, True):
            k += 1
            pk = ["spai0", "amg"][k % 2]
            solver = kc.SOLVERS[(k + seed) % 8]
            heavy = solver not in kc.SQRT_FREE
            n = r.choice([8, 16, 30]) if dbl else (r.choice([4, 5]) if heavy else r.choice([5, 6]))
            sym = kc.sym_needed(solver) or r.random() < 0.5
            rows = gen.spd_mmatrix(r, n, extra_diag=F(1, 2)) if sym else gen.nonsym_dd(r, n, density=0.4)
            nv = r.choice([1, 2])
            Z = [[F(1)] * n, [F(i % 3) for i in range(n)]][:nv]
            scr, kinds = script(r, n, rows, dbl, solver, ["solve", "solveA", "msapply", "project"], nlen=(r.choice([3, 4, 5]) if dbl else 2))
            add("%sf%d %srdefl %s %s %s %s %s %d %s %s" % (pre, k, "d." if dbl else "", pk, solver, kc.side_for(r, solver),
                kc.fmt_prm(**solver_prm(r, solver, dbl, heavy)), crs(n, rows), nv, " ".join(fv(z) for z in Z), scr),
                obj="deflated_solver", precond=pk, solver=solver, dbl=dbl, kinds=kinds)
    # ---- 5. CPR / CPR-DRS
    for rep in range(4 * mult):
        for kind in ("cpr", "cprdrs"):
            for dbl in (False, True, True):
                k += 1
                sk = ["spai0", "ilu0"][k % 2]
                solver = r.choice(["none", "bicgstab", "fgmres", "gmres", "idrs", "richardson"]) if dbl else r.choice(["none", "none", "bicgstab", "richardson"])
                bs = r.choice([2, 3]) if dbl else 2
                nb = r.choice([4, 8, 12]) if dbl else r.choice([2, 3])
                n = bs * nb
                rows = gen.spd_mmatrix(r, n, extra_diag=F(1, 2))
                active = r.choice([0, 0, n - bs]) if nb > 2 else 0
                scr, kinds = script(r, n, rows, dbl, solver, ["apply", "update"] + (["solve", "msapply"] if solver != "none" else []),
                                    nlen=(r.choice([3, 4, 5]) if dbl else 2))
                add("%sc%d %srcpr %s %s %d %d %d %d %s right %s %s %s" % (pre, k, "d." if dbl else "", kind, sk, bs, active, r.choice([0, 1]), r.choice([2, 2, 3]),
                    solver, kc.fmt_prm(**solver_prm(r, solver, dbl, True)), crs(n, rows), scr),
                    obj=kind, sprecond=sk, solver=solver, dbl=dbl, kinds=kinds)
    # ---- 6. Schur pressure correction
    for rep in range(2 * mult):
        for var in "ab":
            for typ in (1, 2):
                for dbl in (False, True, True):
                    k += 1
                    solver = r.choice(["none", "fgmres", "bicgstab", "gmres"]) if dbl else r.choice(["none", "none", "fgmres"])
                    n = r.choice([9, 12, 18]) if dbl else r.choice([4, 5, 6])
                    rows = gen.spd_mmatrix(r, n, extra_diag=F(1, 2))
                    mask = r.choice(["il:3", "il:2", "ct:%d" % max(1, n // 3), "hd:%d" % max(1, n // 3)])
                    inner = r.choice([1, 2, 4]) if dbl else 1
                    scr, kinds = script(r, n, rows, dbl, solver, ["apply"] + (["solve", "msapply"] if solver != "none" else []),
                                        nlen=(r.choice([2, 3, 4]) if dbl else 1))
                    add("%sh%d %srschur %s %d %d %d %d %s %d %s right %s %s %s" % (pre, k, "d." if dbl else "", var, typ, int(r.random() < 0.4),
                        r.choice([0, 1, 2]), int(r.random() < 0.5), mask, inner, solver, kc.fmt_prm(**solver_prm(r, solver, dbl, True)), crs(n, rows), scr),
                        obj="schur_pressure_correction", variant=var, type=typ, solver=solver, dbl=dbl, kinds=kinds)
    # ---- 7. make_block_solver (block size 2)
    for rep in range(2 * mult):
        for solver in ("cg", "bicgstab", "gmres"):
            for dbl in (False, True):
                k += 1
                nb = r.choice([4, 8, 15]) if dbl else r.choice([2, 3])
                n = 2 * nb
                rows = gen.spd_mmatrix(r, n, extra_diag=F(1, 2))
                scr, kinds = script(r, n, rows, dbl, solver, ["solve"], nlen=(r.choice([2, 3, 4]) if dbl else 1))
                add("%sb%d %srmbs %s %s %s %d %d %s %s" % (pre, k, "d." if dbl else "", solver, kc.side_for(r, solver),
                    kc.fmt_prm(**solver_prm(r, solver, dbl, True)), r.choice([0, 1, 2]), r.choice([2, 2, 3]), crs(n, rows), scr),
                    obj="make_block_solver", solver=solver, dbl=dbl, kinds=kinds)
    return out

# ---------------------------------------------------------------- model object (make_solver<amg, S> with threaded state)
def model_exe(ctx):
    """the extracted model driver of group 'reuse' (built on first use; None if the build fails)"""
    if "_reuse_model" not in ctx:
        import vcheck
        try:
            ok, out = vcheck.coq_build(ctx["log"], None, MODEL_GROUP)
            if not ok: raise RuntimeError("coq build for Extract_%s.v failed:\n%s" % (MODEL_GROUP, out[-2000:]))
            ctx["_reuse_model"] = vcheck.build_model(ctx["log"], MODEL_GROUP)
        except Exception as e:
            ctx["_reuse_model"] = None; ctx["_reuse_model_err"] = str(e)[-3000:]
    return ctx["_reuse_model"]

def model_line(cid, m, one):
    """msm line for an exact amg case from its meta and the ONE-object half of the implementation output
    (first command = dump: the transfer operators of the hierarchy)"""
    from props import amg_common as ac
    ts, lv = ac.transfers_from_output(one)
    if ts is None: return None
    cf = m["cfg"]
    damping = m["damping"]
    if damping == "-": damping = fmt_q(F(0.72)) if m["rx"] == "damped_jacobi" else "1"
    scale = "-"
    if m["co"] == "aggregation":
        import struct
        oi = m["cprm"]["over_interp"]; oi = F(3, 2) if oi == "-" else F(oi)
        f32 = struct.unpack("f", struct.pack("f", float(oi)))[0]
        scale = fmt_q(F(struct.unpack("f", struct.pack("f", 1.0 / f32))[0]))     # 1 / prm.over_interp evaluated in float
    tstoks = [str(len(ts))]
    for t in ts:
        if t is None: tstoks.append("0")
        else: tstoks += ["1", fmt_crs(*t[0]), fmt_crs(*t[1])]
    return " ".join([cid, "msm", m["rx"],
                     " ".join(str(cf[k]) for k in ("coarse_enough", "direct_coarse", "max_levels", "npre", "npost", "ncycle", "pre_cycles")),
                     str(m["allow"]), damping, scale, m["solver"], m["side"], kc.fmt_prm(**m["prm"]), crs(m["n"], m["rows"]),
                     " ".join(tstoks), m["scr"]])

def meta_from_line(l):
    """meta of a replayed case line (the model comparison of exact amg lines needs the pieces of the line)"""
    tk = l.split(" ")
    m = dict(obj=tk[1])
    if tk[1] == "rprec" and tk[2] == "chebyshev":
        # id rprec chebyshev damping k degree lower higher scale power serial solver side prm16 A script
        try:
            solver = tk[11]
            m.update(obj="rprec", relax="chebyshev", solver=solver, dbl=False)
            if solver in MODEL_SOLVERS and tk[9] == "0":
                m["cheby_model"] = " ".join(tk[5:9] + tk[11:])
        except Exception:
            pass
        return m
    if not tk[1].startswith("ramg."): return m
    try:
        co = tk[1][5:]; rx = tk[2]
        cfg = dict(zip(("coarse_enough", "direct_coarse", "max_levels", "npre", "npost", "ncycle", "pre_cycles"), [int(x) for x in tk[3:10]]))
        allow = int(tk[10]); cprm = dict(zip(("eps_strong", "relax", "over_interp", "do_trunc", "eps_trunc"), tk[11:16]))
        damping, solver, side = tk[16], tk[17], tk[18]
        prm = {}
        for k, v in zip(kc.PRM_ORDER, tk[19:19 + len(kc.PRM_ORDER)]): prm[k] = F(v) if k in ("tol", "abstol", "damping", "omega", "delta") else int(v)
        i = 19 + len(kc.PRM_ORDER); n = int(tk[i]); j = i + 2; rows = []
        for _ in range(n):
            cnt = int(tk[j]); j += 1
            rows.append([(int(tk[j + 2 * e]), F(tk[j + 2 * e + 1])) for e in range(cnt)]); j += 2 * cnt
        scr = " ".join(tk[j:])
        m.update(obj="amg", coarsening=co, relax=rx, solver=solver, dbl=False)
        if solver in MODEL_SOLVERS and tk[j + 1] == "dump":
            m["model"] = dict(co=co, rx=rx, cfg=cfg, allow=allow, cprm=cprm, damping=damping, solver=solver, side=side, prm=prm, n=n, rows=rows, scr=scr)
    except Exception:
        pass
    return m

# ---------------------------------------------------------------- run
def run(ctx, lines_override=None):
    if lines_override is not None: cs = [(l, meta_from_line(l)) for l in lines_override]
    else: cs = cases(ctx["tier"], ctx["seed"])
    by = {}
    for l, m in cs: by.setdefault(driver_of(l.split(" ", 2)[1]), []).append(l)
    impl = {}
    for d, ls in by.items():
        impl.update(ctx["run_driver"](ctx["cpp"][d], ls, timeout=TMO))
    account(ctx, [l for l, _ in cs], impl)
    fails = []
    info = dict(objects={}, commands=0, commands_with_exception=0, commands_with_nan=0, constructor_exceptions=0,
                relaxed_coarsest_amg_cases=0, rebuild_commands_ok=0)
    for l, m in cs:
        cid, op = l.split(" ", 2)[:2]
        a = impl.get(cid)
        what = "%s%s" % (m.get("obj", op), (" + " + m["solver"]) if m.get("solver", "none") != "none" else "")
        if a is None or a.startswith(("CRASH", "UNSUPPORTED")) or "INPUT-MODIFIED" in a or "UNSUPPORTED-CMD" in a:
            fails.append(dict(kind="counterexample", case=l, impl=(a or "")[:2000], model=None, op="reuse:" + op, size=len(l),
                              theorem="C15 objects: implementation run of %s (crash / input modified by a call / unsupported)" % what))
            continue
        if a.startswith("EXC") and " || " not in a:
            info["constructor_exceptions"] += 1; continue
        one, _, fresh = a.partition(" || ")
        pa, pb = one.split(" ; "), fresh.split(" ; ")
        info["objects"][m.get("obj", op)] = info["objects"].get(m.get("obj", op), 0) + 1
        info["commands"] += len(pa); info["commands_with_exception"] += one.count("EXC"); info["commands_with_nan"] += sum(1 for p in pa if "nan" in p)
        info["rebuild_commands_ok"] += sum(1 for p in pa if p == "ok")
        if m.get("flavour") in (0, 1): info["relaxed_coarsest_amg_cases"] += 1
        ctx["stats"]["oracle_checks"] += len(pa)
        if one != fresh:
            ctx["stats"]["mismatches"] += 1
            first = next((i for i in range(max(len(pa), len(pb))) if i >= len(pa) or i >= len(pb) or pa[i] != pb[i]), -1)
            fails.append(dict(kind="counterexample", case=l, impl=one[:3000], model=fresh[:3000], op="reuse:" + op, size=len(l),
                              oracle=dict(op="reuse", first_differing_call=first, command=(m.get("kinds") or [None] * (first + 1))[first] if first >= 0 and first < len(m.get("kinds") or []) else None),
                              theorem="C15 reuse of objects: call history on ONE %s object vs a FRESH object per call (%s)" % (
                                  what, "double, printed exactly" if op.startswith("d.") else "exact")))
    # model object: the one-object half of the exact amg / make_solver<amg, S> histories vs the extracted state-passing
    # model with its state (amg scratch, solver workspace) threaded through the script
    mcases = []
    for l, m in cs:
        if not (m.get("model") or m.get("cheby_model")): continue
        cid = l.split(" ", 1)[0]; a = impl.get(cid)
        if a is None or " || " not in a or a.startswith(("EXC", "CRASH")): continue
        one = a.partition(" || ")[0]
        if len(one) > MAX_MODEL_OUT: info["model_skipped_too_large"] = info.get("model_skipped_too_large", 0) + 1; continue
        if m.get("cheby_model"):    # make_solver<as_preconditioner<chebyshev>, S>: state (p, r) threaded by ReuseProofs4.cheby_sp
            mcases.append((cid, l, "%s rpm %s" % (cid, m["cheby_model"]), one, dict(m, coarsening="as_preconditioner")))
            continue
        ml = model_line(cid, m["model"], one)
        if ml is not None: mcases.append((cid, l, ml, one, m))
    if mcases:
        exe = model_exe(ctx)
        if exe is None:
            fails.append(dict(kind="broken-model-build", case=None, impl=None, model=ctx.get("_reuse_model_err"), op="msm", size=0, has_input=False,
                              theorem="Extract_reuse.v / ocaml/reuse model driver does not build"))
        else:
            mo = ctx["run_driver"](exe, [x[2] for x in mcases], timeout=TMO)
            info["model_compared"] = 0
            for cid, l, ml, one, m in mcases:
                b = mo.get(cid)
                ctx["stats"]["oracle_checks"] += 1; info["model_compared"] += 1
                if b != one:
                    ctx["stats"]["mismatches"] += 1
                    pa, pb = one.split(" ; "), (b or "").split(" ; ")
                    first = next((i for i in range(max(len(pa), len(pb))) if i >= len(pa) or i >= len(pb) or pa[i] != pb[i]), -1)
                    fails.append(dict(kind="counterexample", case=l, impl=one[:3000], model=(b or "")[:3000], op="reuse-model:" + l.split(" ", 2)[1], size=len(l),
                                      oracle=dict(op="msm", first_differing_call=first, model_line=ml[:4000]),
                                      theorem="C15 correspondence: history on ONE make_solver<%s(%s), %s> object vs the extracted state-passing model object "
                                              "(preconditioner state and solver workspace threaded through the script)" % (
                                                  "amg:" + m["coarsening"] if m.get("model") else "as_preconditioner", m["relax"], m["solver"])))
    ctx["stats"]["samples"].append(dict(reuse_info=info))
    return fails
