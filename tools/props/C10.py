"""C10 -- outputs are a function of the inputs only; no memory errors on valid input."""
import random
from fractions import Fraction as F
from vcheck import fmt_q, fmt_crs
import gen
from props import amg_common as ac
from props.common import account, diff_run

COARS = ac.COARSENINGS
DRIVERS = ["amgd_%s@poison" % c for c in COARS] + ["amg_%s@poison" % c for c in COARS] + ["amgd_%s@asan" % c for c in COARS] + \
          ["own", "own@asan", "ll2", "ll2@poison", "ll2@asan", "ub@poison", "relaxfill@poison", "relaxfill@asan", "amgns@poison", "amgns@asan"]
EXTRA_FLAGS = {"@poison": ["-DVQ_POISON"],
               "@asan": ["-fsanitize=address,undefined", "-fno-sanitize-recover=all", "-fno-omit-frame-pointer", "-g"],
               "own@asan": ["-DOWN_NO_TRACKER"],
               # reads behind size() of a std::vector are reported even inside its capacity (tentative_prolongation reuses Bpart)
               "amgns@asan": ["-D_GLIBCXX_SANITIZE_VECTOR"]}
# the amg poison/sanitizer sections compare implementation runs with each other and do not call a model;
# the model driver of this property is the extracted crs::own_data state machine (coq/Own.v) together with the
# extracted array-level models of coq/LowLevel2*.v (ocaml/own/ops_ll2.ml)
MODEL = "own"
ASSUMPTIONS = [
    "prior heap contents are modelled by a poisoning operator new (fills 00 / FF / AA / pseudo-random); stack contents and allocator addresses are not varied",
    "memory safety is checked by AddressSanitizer/UndefinedBehaviourSanitizer runs of the harness on the generated and the listed degenerate inputs (a test, reported as such); the Coq theorems cover junk-independence of the modelled kernels, the bounds-checked re-statements of spmv/residual/CRS construction/transpose (coq/LowLevel.v, coq/LowLevelT.v), the array-level models with unwritten cells of sort_row/sort_rows, spgemm_saad, diagonal + plain_aggregates, tentative_prolongation (no null space), the ilu0 constructor and skyline_lu after its ordering (coq/LowLevel2*.v) and the crs::own_data state machine (coq/Own.v) only",
    "array-level models (C10-A2'): one thread (the OpenMP loops of spgemm_saad / plain_aggregates are modelled sequentially; a 3-thread run of the same cases is compared with the one-thread model as a test); int / ptrdiff_t are unbounded Z / nat (no overflow); std::vector<T>(n) and vector::resize are value-initialised, only new T[n] (crs::set_size / set_nonzeros, numa_vector(n, false)) yields unwritten cells; max_neib/reserve of plain_aggregates is not modelled; the double instantiations of ilu0 and skyline_lu have no exact model line (self-consistency across heap fills and ASan only); the permutation used by the skyline model is the extracted CuthillMcKee.cuthill_mckee (tied by C16)",
    "uninitialised output buffers: write-only outputs are numa_vector<double>(n, false) obtained from the poisoning operator new[]; 'bitwise identical' is judged on the printed 64-bit patterns of the result vectors under the fills 00 / FF (NaN pattern) / AA / pseudo-random",
    "larger fill (op rf, harness/drv_relaxfill.cpp): relaxation constructors + sweeps on n = 36..80 matrices with up to 27 entries per row under ASan+UBSan and under an allocator that "
    "fills fresh AND released blocks (fills 00 / FF / AA / pseudo-random, bit patterns of the sweep results compared); a test, no model; only operator new / delete are intercepted",
    "crs::own_data (C10-A3): ptr/col/val are modelled as one block unit (set_nonzeros(n, need_values=false), which leaves val null, is outside the model); the tracking allocator of harness/drv_own.cpp sees operator new[]/delete[] only; object lifetimes are those of the driver's std::map<int, shared_ptr<crs>>",
]
RULE = "crs::own_data: op sequences (construct / zero_copy view / copy / move / copy-assign / move-assign / destroy, ids 0..4) on amgcl::backend::crs<double> under a tracking allocator and under ASan+LSan vs the extracted Own.step; non-trivial = the sequence contains an effective copy/move between two objects.  Array-level kernels (ll_/lld_ ops: sort_rows, spgemm_saad, plain_aggregates, tentative_prolongation, ilu0, skyline_lu; exact rationals and small-integer doubles; fixed degenerate inputs 0x0, 1x1, empty rows, diagonal, duplicates, positive off-diagonals, disconnected blocks, missing diagonal with an upper entry, zero pivots + generated ones): raw result arrays of amgcl vs the arrays of the extracted LowLevel2 models, again under 3-5 heap fills, under ASan+UBSan and with 3 OpenMP threads; non-trivial = a result with at least one stored entry.  Uninitialised output buffers (ub_ ops: spmv/residual/copy/clear/axpby/axpbypcz/vmul with zero coefficient, as_preconditioner<9 relaxations>::apply, amg::apply for 6 coarsening x relaxation pairs): 4 heap fills, bit patterns compared; non-trivial = a non-zero word in the output.  Larger fill (rf ops: constructor + apply_pre + apply_post + apply of damped_jacobi, spai0, spai1, gauss_seidel, ilu0, iluk k=1..4, ilup k=1..2, ilut p=2|4, chebyshev on 2-D 9-point, 3-D 7-/27-point and random sparse SPD matrices, n = 36..80): ASan+UBSan build and 4 heap fills of fresh and released blocks, bit patterns compared; non-trivial = a non-zero word in the output.  amg hierarchies (4 coarsenings x 5 relaxations) on generated SPD/non-symmetric systems and a fixed list of degenerate inputs (1x1, diagonal, disconnected, positive off-diagonals, n <= coarse_enough, max_levels = 1), each run under several heap fill patterns (double and exact builds) and under ASan+UBSan; non-trivial = non-zero output"

def degenerate(r):
    """(name, n, rows) -- the degenerate inputs named by the property"""
    out = []
    out.append(("1x1", 1, [[(0, F(3))]]))
    out.append(("diag", 4, [[(i, F(i + 2))] for i in range(4)]))
    out.append(("diag1", 2, [[(0, F(1))], [(1, F(1))]]))
    # disconnected graph: two path components + an isolated node
    out.append(("disconnected", 7, [[(0, F(2)), (1, F(-1))], [(0, F(-1)), (1, F(2)), (2, F(-1))], [(1, F(-1)), (2, F(2))],
                                    [(3, F(5))],
                                    [(4, F(2)), (5, F(-1))], [(4, F(-1)), (5, F(3)), (6, F(-1))], [(5, F(-1)), (6, F(2))]]))
    # rows whose only off-diagonal entries are positive
    out.append(("posoff", 4, [[(0, F(4)), (1, F(1))], [(0, F(1)), (1, F(4)), (2, F(1))], [(1, F(1)), (2, F(4)), (3, F(1))], [(2, F(1)), (3, F(4))]]))
    out.append(("mixed-sign", 5, [[(0, F(4)), (1, F(1)), (4, F(-1))], [(0, F(1)), (1, F(4)), (2, F(-2))], [(1, F(-2)), (2, F(5)), (3, F(1))],
                                  [(2, F(1)), (3, F(3))], [(0, F(-1)), (4, F(2))]]))
    out.append(("path3", 3, gen.spd_mmatrix(r, 3, kind="path")))
    out.append(("path12", 12, gen.spd_mmatrix(r, 12, kind="path")))
    return out

def make_cases(tier, seed):
    r = random.Random(seed * 1000 + 10)
    relaxes = ["damped_jacobi", "spai0", "gauss_seidel", "ilu0", "chebyshev"]
    cases = []; k = 0
    for name, n, rows in degenerate(r):
        for co in COARS:
            for rx in (relaxes if tier != "quick" else relaxes[:3] + [relaxes[3 + (k % 2)]]):
                for cfgv in (dict(coarse_enough=0, max_levels=4294967295), dict(coarse_enough=n + 2, max_levels=4294967295),
                             dict(coarse_enough=0, max_levels=1), dict(coarse_enough=1, max_levels=3)):
                    cfg = dict(coarse_enough=cfgv["coarse_enough"], direct_coarse=(k % 3 != 0) * 1, max_levels=cfgv["max_levels"],
                               npre=1, npost=1, ncycle=1 + (k % 2), pre_cycles=1)
                    f = gen.rvec(r, n); x0 = gen.rvec(r, n)
                    script = [("dump",), ("apply", f, x0), ("apply", f, x0), ("rebuild", rows), ("apply", f, x0)]
                    c = ac.Case("d%d" % k, co, rx, cfg, ac.rand_cprm(r, co), "3/4", n, rows, script); c.meta = name
                    cases.append(c); k += 1
    N = 80 if tier == "quick" else 600
    for i in range(N):
        n = r.choice([2, 3, 5, 8, 12, 16, 24, 40])
        rows = gen.spd_mmatrix(r, n) if r.random() < 0.6 else gen.nonsym_dd(r, n, density=min(0.5, 3.0 / n))
        if r.random() < 0.3:   # make some rows positive-off-diagonal only
            rows = [[(c, (abs(v) if (c != j and j % 3 == 0) else v)) for c, v in rw] for j, rw in enumerate(rows)]
        co = COARS[i % 4]; rx = relaxes[(i // 4) % 5]
        cfg = ac.rand_cfg(r, n)
        f = gen.rvec(r, n); x0 = gen.rvec(r, n)
        script = [("dump",), ("apply", f, x0), ("cycle", f, x0), ("rebuild", rows), ("apply", f, x0)]
        c = ac.Case("g%d" % i, co, rx, cfg, ac.rand_cprm(r, co), r.choice(["1/2", "3/4"]), n, rows, script); c.meta = "generated"
        cases.append(c)
    return cases

# ------------------------------------------------------------------ C10-A3: crs::own_data life cycle
OWN_TAGS1 = ["E", "O", "D"]                 # one id
OWN_TAGS2 = ["C", "M", "c", "m"]            # target, source

def own_fmt(cid, ops):
    return "%s own %d %s" % (cid, len(ops), " ".join(" ".join(str(x) for x in o) for o in ops))

def own_effective(ops):
    """python mirror of the existence bookkeeping only: number of copy/move ops that are not no-ops"""
    live = set(); eff = 0
    for o in ops:
        t = o[0]
        if t in ("E", "O", "V"):
            live.add(o[1])
        elif t == "D":
            live.discard(o[1])
        elif t in ("C", "M"):
            if o[1] not in live and o[2] in live: live.add(o[1]); eff += 1
        elif t in ("c", "m"):
            if o[1] in live and o[2] in live: eff += 1
    return eff

def own_cases(tier, seed):
    r = random.Random(seed * 1000 + 110)
    out = []
    # all sequences up to a small length over a small alphabet (ids 0..1, one user block)
    alpha = [(t, k) for t in OWN_TAGS1 for k in (0, 1)] + [("V", k, 0) for k in (0, 1)] + \
            [(t, k, j) for t in ("C", "M") for (k, j) in ((0, 1), (1, 0))] + \
            [(t, k, j) for t in ("c", "m") for (k, j) in ((0, 1), (1, 0), (0, 0))]
    L = 3 if tier == "quick" else 4
    seqs = [[]]
    k = 0
    for _ in range(L):
        seqs = [q + [a] for q in seqs for a in alpha]
        for q in seqs:
            out.append(own_fmt("oe%d" % k, q)); k += 1
    # random sequences: ids 0..4, user blocks 0..2, biased towards ops whose operands exist
    N = 4000 if tier == "quick" else 40000
    maxlen = 12 if tier == "quick" else 40
    for i in range(N):
        n = r.randint(1, maxlen)
        live = set(); ops = []
        for _ in range(n):
            valid = r.random() < 0.85
            t = r.choice(["E", "O", "O", "V", "V", "C", "M", "c", "c", "c", "m", "m", "D"])
            ids = list(range(5))
            dead = [x for x in ids if x not in live]; lv = sorted(live)
            if t in ("E", "O", "V"):
                kk = r.choice(dead) if (valid and dead) else r.choice(ids)
                o = (t, kk, r.randint(0, 2)) if t == "V" else (t, kk)
            elif t == "D":
                o = (t, r.choice(lv) if (valid and lv) else r.choice(ids))
            elif t in ("C", "M"):
                kk = r.choice(dead) if (valid and dead) else r.choice(ids)
                jj = r.choice(lv) if (valid and lv) else r.choice(ids)
                o = (t, kk, jj)
            else:
                kk = r.choice(lv) if (valid and lv) else r.choice(ids)
                jj = r.choice(lv) if (valid and lv) else r.choice(ids)
                o = (t, kk, jj)
            ops.append(o)
            if o[0] in ("E", "O", "V") or (o[0] in ("C", "M") and o[1] not in live and o[2] in live): live.add(o[1])
            elif o[0] == "D": live.discard(o[1])
        out.append(own_fmt("or%d" % i, ops))
    return out

def own_parse_ops(line):
    tk = line.split()[3:]
    ops = []; i = 0
    while i < len(tk):
        if tk[i] in OWN_TAGS1: ops.append((tk[i], int(tk[i + 1]))); i += 2
        else: ops.append((tk[i], int(tk[i + 1]), int(tk[i + 2]))); i += 3
    return ops

def run_own(ctx, lines):
    def nontrivial(op, payload, impl_out):
        return impl_out is not None and impl_out.startswith("leaks=") and own_effective(own_parse_ops("x own " + payload)) > 0
    fails, impl, model = diff_run(ctx, "own", lines, nontrivial=nontrivial, shards=8,
                                  theorem="C10-A3 correspondence: crs::own_data life cycle on amgcl::backend::crs<double> under the tracking allocator (drv_own) vs Own.step (theorems C10_own_*)")
    # the oracle of the property itself, on the implementation's output alone
    for l in lines:
        cid = l.split(" ", 1)[0]
        o = impl.get(cid) or ""
        ctx["stats"]["oracle_checks"] += 1
        bad = [w for w in ("leaks=", "freed_user=", "double_free=") if (w + "0 ") not in o]
        if bad and not any(f["case"] == l for f in fails):
            fails.append(dict(kind="counterexample", case=l, impl=o, model=model.get(cid), op="own", size=len(l),
                              theorem="C10-A3: owned arrays are freed exactly once, borrowed arrays never (%s non-zero)" % ",".join(bad)))
    # does a mismatch reproduce the historical copy assignment (before /repo b0b02bf)?
    if fails:
        fl = [f["case"] for f in fails][:2000]
        old = ctx["run_driver"](ctx["model"], [l.replace(" own ", " own_old ", 1) for l in fl])
        for f in fails:
            cid = f["case"].split(" ", 1)[0]
            f["input_class"] = "as-before-b0b02bf" if (old.get(cid) is not None and old.get(cid) == f.get("impl")) else "own-sequence"
    # the same sequences under ASan + LeakSanitizer (one process per case), no tracking allocator
    sub = lines if len(lines) <= 1500 else lines[:: max(1, len(lines) // (1500 if ctx["tier"] == "quick" else 6000))]
    san = ctx["run_driver"](ctx["cpp"]["own@asan"], sub, env_extra={"ASAN_OPTIONS": "detect_leaks=1:abort_on_error=0", "UBSAN_OPTIONS": "print_stacktrace=1"},
                            timeout=1500)
    for l in sub:
        cid = l.split(" ", 1)[0]
        ctx["stats"]["oracle_checks"] += 1
        o = san.get(cid); m = model.get(cid) or ""
        want = "leaks=0 " + m[m.find("live_objects="):]
        if o != want and not any(f["case"] == l for f in fails):
            fails.append(dict(kind="counterexample", case=l, impl=o, model=want, op="own", size=len(l), input_class="own-sequence",
                              theorem="C10-A3: crs::own_data life cycle under AddressSanitizer/LeakSanitizer (leak, bad free or state differs from Own.step)"))
    for f in fails:
        f.setdefault("input_class", "own-sequence"); f["site"] = "crs::own_data"; f["build"] = "own"
    return fails

# ------------------------------------------------------------------ C10-A2, second layer: LowLevel2*.v
def _rq(r, integer):
    if integer: return F(r.choice([-3, -2, -1, 1, 2, 3, 4, 5]))
    return F(r.randint(-9, 9) or 1, r.choice([1, 1, 2, 3, 5]))

def _rrows(r, n, m, maxlen, integer, dup=True):
    rows = []
    for _ in range(n):
        k = 0 if m == 0 else r.choice([0, 1, 2, 3, maxlen, r.randint(0, maxlen)])
        if dup: cols = [r.randrange(m) for _ in range(k)]
        else: cols = r.sample(range(m), min(k, m))
        rows.append([(c, _rq(r, integer)) for c in cols])
    return rows

def _crs(n, m, rows):
    return fmt_crs(n, m, rows)

def ll2_cases(tier, seed):
    """case lines of the array-level kernels: each input is used once with exact rationals (ll_) and
    once with small integers for the double instantiation (lld_)"""
    r = random.Random(seed * 1000 + 210)
    out = []; k = 0
    def both(name, mk):
        nonlocal k
        for integer, pre in ((False, "ll_"), (True, "lld_")):
            out.append("L%d %s%s %s" % (k, pre, name, mk(integer))); k += 1
    # --- sort_rows: degenerate inputs first
    fixed_sort = [(0, 0, []), (0, 3, []), (1, 1, [[(0, F(3))]]), (1, 1, [[]]), (3, 4, [[], [], []]),
                  (2, 5, [[(4, F(1)), (3, F(2)), (2, F(3)), (1, F(4)), (0, F(5))], [(0, F(1)), (1, F(2)), (2, F(3))]]),
                  (2, 3, [[(1, F(1)), (1, F(2)), (1, F(3)), (0, F(4)), (1, F(5))], [(2, F(7)), (2, F(8))]]),
                  (3, 3, [[(0, F(2))], [(1, F(3))], [(2, F(4))]]),
                  (3, 3, [[(1, F(1)), (0, F(2))], [], [(2, F(1)), (1, F(1)), (0, F(1))]])]
    for n, m, rows in fixed_sort:
        both("sort_rows", lambda integer, n=n, m=m, rows=rows: _crs(n, m, rows))
    N = 150 if tier == "quick" else 1500
    for _ in range(N):
        n = r.choice([0, 1, 2, 3, 5, 8]); m = r.choice([1, 2, 3, 6, 12])
        st = r.getrandbits(48)
        def mk(integer, n=n, m=m, st=st):
            r2 = random.Random(st)
            return _crs(n, m, _rrows(r2, n, m, r2.choice([2, 4, 9]), integer))
        both("sort_rows", mk)
    # --- spgemm_saad
    I = lambda v: F(v)
    fixed_saad = [
        (0, 0, [], 0, []), (0, 2, [], 3, [[], []]), (1, 1, [[(0, I(2))]], 1, [[(0, I(3))]]),
        (1, 1, [[]], 1, [[(0, I(3))]]), (1, 1, [[(0, I(2))]], 1, [[]]),
        (2, 2, [[(0, I(2))], [(1, I(3))]], 2, [[(0, I(4))], [(1, I(5))]]),            # diagonal x diagonal
        (3, 3, [[], [(0, I(1)), (2, I(1))], []], 2, [[(1, I(2))], [], [(1, I(3)), (0, I(1))]]),   # empty rows
        (2, 2, [[(1, I(1)), (1, I(2)), (0, I(1))], [(0, I(1)), (0, I(1))]], 3, [[(2, I(1)), (2, I(1)), (0, I(2))], [(2, I(3)), (1, I(1))]]),  # duplicates
        (2, 3, [[(0, I(1)), (1, I(1)), (2, I(1))], [(2, I(1)), (1, I(1)), (0, I(1))]], 0, [[], [], []]),   # B without columns
        (3, 1, [[(0, I(1))], [(0, I(2))], [(0, I(3))]], 4, [[(3, I(1)), (1, I(1)), (2, I(1)), (0, I(1))]]),  # every row needs sorting
    ]
    for n, kk, ra, m, rb in fixed_saad:
        for srt in (0, 1):
            both("saad", lambda integer, n=n, kk=kk, ra=ra, m=m, rb=rb, srt=srt: "%s %s %d" % (_crs(n, kk, ra), _crs(kk, m, rb), srt))
    N = 250 if tier == "quick" else 2500
    for _ in range(N):
        n = r.choice([1, 2, 3, 5, 8]); kk = r.choice([1, 2, 3, 5, 8]); m = r.choice([1, 2, 3, 6, 10]); srt = r.randint(0, 1)
        dup = r.random() < 0.3
        st = r.getrandbits(48)
        def mk(integer, n=n, kk=kk, m=m, srt=srt, dup=dup, st=st):
            r2 = random.Random(st)
            ra = _rrows(r2, n, kk, r2.choice([2, 4]), integer, dup); rb = _rrows(r2, kk, m, r2.choice([2, 5]), integer, dup)
            return "%s %s %d" % (_crs(n, kk, ra), _crs(kk, m, rb), srt)
        both("saad", mk)
    # --- plain_aggregates / tentative_prolongation (no null space) / ilu0: square matrices that store their diagonal
    def sq_rows(r2, n, integer, kind):
        rows = []
        for i in range(n):
            if kind == "diag": cols = [i]
            elif kind == "path": cols = [c for c in (i - 1, i, i + 1) if 0 <= c < n]
            elif kind == "blocks": cols = [c for c in (i - 1, i, i + 1) if 0 <= c < n and c // 3 == i // 3]
            else:
                cols = sorted(set([i] + [r2.randrange(n) for _ in range(r2.choice([0, 1, 2, 3]))]))
                if kind == "shuffled": r2.shuffle(cols)
            row = []
            for c in cols:
                if c == i: v = F(r2.choice([2, 3, 4, 5, 8]))
                elif kind == "posoff": v = F(r2.choice([1, 2]))
                else: v = F(r2.choice([-3, -2, -1, -1, 1, 2])) if integer else F(r2.choice([-3, -2, -1, 1]), r2.choice([1, 2, 3]))
                row.append((c, v))
            rows.append(row)
        return rows
    EPS = [("1/4", "1/16"), ("1/2", "1/4"), ("1/8", "1/64"), ("0", "0"), ("2", "4")]
    kinds = ["diag", "path", "blocks", "random", "random", "shuffled", "posoff"]
    fixed_sq = [(1, [[(0, F(3))]]), (2, [[(0, F(1))], [(1, F(1))]]), (1, [[(0, F(0))]]),
                (3, [[(0, F(2)), (1, F(-1))], [(0, F(-1)), (1, F(2)), (2, F(-1))], [(1, F(-1)), (2, F(2))]]),
                (4, [[(0, F(4)), (1, F(1))], [(0, F(1)), (1, F(4)), (2, F(1))], [(1, F(1)), (2, F(4)), (3, F(1))], [(2, F(1)), (3, F(4))]]),
                (7, [[(0, F(2)), (1, F(-1))], [(0, F(-1)), (1, F(2)), (2, F(-1))], [(1, F(-1)), (2, F(2))], [(3, F(5))],
                     [(4, F(2)), (5, F(-1))], [(4, F(-1)), (5, F(3)), (6, F(-1))], [(5, F(-1)), (6, F(2))]])]
    for n, rows in fixed_sq:
        for e1, e2 in EPS[:2]:
            both("plain_aggregates", lambda integer, n=n, rows=rows, e1=e1, e2=e2: "%s %s %s" % (_crs(n, n, rows), e1, e2))
        both("ilu0", lambda integer, n=n, rows=rows: _crs(n, n, rows))
    N = 200 if tier == "quick" else 2000
    for _ in range(N):
        n = r.choice([1, 2, 3, 4, 6, 9, 12]); kind = r.choice(kinds); e1, e2 = r.choice(EPS); st = r.getrandbits(48)
        both("plain_aggregates", lambda integer, n=n, kind=kind, e1=e1, e2=e2, st=st:
             "%s %s %s" % (_crs(n, n, sq_rows(random.Random(st), n, integer, kind)), e1, e2))
    # tentative prolongation: ids as plain_aggregates produces them (and arbitrary ones: only aggr[i] >= 0 matters for the memory)
    fixed_tent = [(0, 0, []), (1, 1, [0]), (1, 0, [-2]), (3, 0, [-2, -2, -2]), (4, 2, [0, 0, 1, 1]), (5, 2, [1, 0, -2, 0, 1]), (3, 1, [-1, 0, -1])]
    for n, na, ids in fixed_tent:
        both("tentative", lambda integer, n=n, na=na, ids=ids: "%d %d %d %s" % (n, na, n, " ".join(map(str, ids))))
    for _ in range(N // 2):
        n = r.choice([1, 2, 3, 5, 8, 13]); na = r.randint(1, n)
        ids = [r.choice([-2, -2, -1] + list(range(na)) * 2) for _ in range(n)]
        both("tentative", lambda integer, n=n, na=na, ids=ids: "%d %d %d %s" % (n, na, n, " ".join(map(str, ids))))
    # ilu0: also rows without a diagonal entry that have an upper entry (-> "No diagonal value"), explicit zero pivots
    for _ in range(N):
        n = r.choice([1, 2, 3, 4, 6, 9]); kind = r.choice(kinds); st = r.getrandbits(48); damage = r.random()
        def mk(integer, n=n, kind=kind, st=st, damage=damage):
            r2 = random.Random(st)
            rows = sq_rows(r2, n, integer, kind)
            if damage < 0.08 and n > 1:
                i = r2.randrange(n - 1)
                rows[i] = [(c, v) for c, v in rows[i] if c != i]
                if not any(c > i for c, v in rows[i]): rows[i].append((i + 1, F(1)))
            elif damage < 0.14:
                i = r2.randrange(n)
                rows[i] = [(c, (F(0) if c == i else v)) for c, v in rows[i]]
            elif damage < 0.45:         # explicit zeros off the diagonal: the in-place removal of zeros really moves entries
                rows = [[(c, (F(0) if (c != i and r2.random() < 0.4) else v)) for c, v in rw] for i, rw in enumerate(rows)]
            return _crs(n, n, rows)
        both("ilu0", mk)
    # skyline_lu (default ordering): constructor tables + one solve; n >= 1 (the empty matrix is the known finding
    # C03-empty-coarse-level-direct-solver-crash)
    from vcheck import fmt_vec
    for n, rows in fixed_sq:
        both("skyline", lambda integer, n=n, rows=rows: "%s %s %s" % (_crs(n, n, rows), fmt_vec([F(i + 1) for i in range(n)]), fmt_vec([F(7)] * n)))
    for _ in range(N // 2):
        n = r.choice([1, 2, 3, 4, 6, 9]); kind = r.choice(kinds + ["random", "shuffled"]); st = r.getrandbits(48)
        def mk(integer, n=n, kind=kind, st=st):
            r2 = random.Random(st)
            rows = sq_rows(r2, n, integer, kind)
            if r2.random() < 0.15:      # an explicit zero entry / a duplicate entry
                i = r2.randrange(n); rows[i] = rows[i] + [(r2.randrange(n), F(0))]
            if r2.random() < 0.15:
                i = r2.randrange(n); c, v = r2.choice(rows[i]); rows[i] = rows[i] + [(c, v + 1)]
            rv = lambda: [F(r2.randint(-5, 5)) if integer else F(r2.randint(-9, 9), r2.choice([1, 2, 3])) for _ in range(n)]
            return "%s %s %s" % (_crs(n, n, rows), fmt_vec(rv()), fmt_vec(rv()))
        both("skyline", mk)
    return out

LL2_WHAT = {"sort_rows": "backend::sort_rows / detail::sort_row (LowLevel2.v; theorems C10_ll2_sort_row, C10_ll2_sort_rows)",
            "saad": "backend::spgemm_saad (LowLevel2G.v; theorem C10_ll2_spgemm_saad)",
            "plain_aggregates": "coarsening::plain_aggregates (LowLevel2A.v; theorem C10_ll2_plain_aggregates)",
            "tentative": "coarsening::tentative_prolongation without null space (LowLevel2A.v; theorem C10_ll2_tentative)",
            "ilu0": "relaxation::ilu0 constructor (LowLevel2I.v; theorem C10_ll2_ilu0)",
            "skyline": "solver::skyline_lu constructor + operator() (LowLevel2K.v; theorems C10_ll2_skyline_build, C10_ll2_skyline_solve)"}
# double instantiations whose arithmetic is not exact: no model line, the reference is the plain double run
LL2_NOMODEL = ("lld_ilu0", "lld_skyline")

def run_ll2(ctx, lines):
    def kern(l): return l.split(" ", 2)[1].split("_", 1)[1]
    def nontrivial(op, payload, impl_out):
        if impl_out is None or impl_out.startswith(("EXC", "ERR", "CRASH", "UNSUPPORTED", "BAD", "GLUE", "NOFACTORS")): return False
        return "col=[]" not in impl_out.split(" U=")[0] if impl_out.startswith(("{", "L=")) else any(ch in "123456789" for ch in impl_out)
    fails, impl, model = diff_run(ctx, "ll2", lines, nontrivial=nontrivial, shards=8,
                                  theorem="C10-A2 correspondence: raw result arrays of the amgcl kernel vs the arrays of the array-level model with uninitialised cells (coq/LowLevel2*.v)")
    fails = [f for f in fails if f["op"] not in LL2_NOMODEL]
    ctx["stats"]["mismatches"] = len(fails)
    for l in lines:
        if l.split(" ", 2)[1] in LL2_NOMODEL:
            cid = l.split(" ", 1)[0]; model[cid] = impl.get(cid)
            if impl.get(cid) is None or impl[cid].startswith(("CRASH", "UNSUPPORTED")):
                fails.append(dict(kind="counterexample", case=l, impl=impl.get(cid), model=None, op=l.split(" ", 2)[1], size=len(l),
                                  theorem="C10-A2: the double build crashed"))
    for f in fails:
        f["theorem"] += " -- " + LL2_WHAT.get(kern(f["case"]), kern(f["case"]))
    seen = set(f["case"] for f in fails)
    def compare(out, label, why):
        for l in lines:
            cid = l.split(" ", 1)[0]
            ctx["stats"]["oracle_checks"] += 1
            o = out.get(cid); m = model.get(cid)
            if o != m and l not in seen:
                seen.add(l)
                fails.append(dict(kind="counterexample", case=l, impl=o, model=m, op=l.split(" ", 2)[1], size=len(l), build=label,
                                  theorem="C10-A2: %s -- %s" % (why, LL2_WHAT.get(kern(l), kern(l)))))
    fills = ["00", "FF", "rand"] if ctx["tier"] == "quick" else ["00", "FF", "AA", "55", "rand"]
    for fl in fills:
        compare(ctx["run_driver"](ctx["cpp"]["ll2@poison"], lines, env_extra={"VQ_POISON_FILL": fl}, shards=8),
                "poison", "result arrays under a poisoned heap (fill %s) differ from the model (a never-written cell is read or returned)" % fl)
    compare(ctx["run_driver"](ctx["cpp"]["ll2@asan"], lines, env_extra={"ASAN_OPTIONS": "detect_leaks=1:abort_on_error=0", "UBSAN_OPTIONS": "print_stacktrace=1"}, shards=8),
            "asan", "AddressSanitizer/UBSan report, crash or different arrays")
    compare(ctx["run_driver"](ctx["cpp"]["ll2"], lines, env_extra={"OMP_NUM_THREADS": "3"}, shards=8),
            "omp3", "result arrays with 3 OpenMP threads differ from the one-thread model")
    for f in fails:
        f["site"] = "ll2/" + kern(f["case"]); f.setdefault("build", "exact"); f["input_class"] = f["case"].split(" ", 2)[1]
    return fails

# ------------------------------------------------------------------ C10: uninitialised output buffers
UB_RELAX = ["damped_jacobi", "spai0", "spai1", "gauss_seidel", "ilu0", "iluk", "ilup", "ilut", "chebyshev"]
UB_AMG = [("smoothed_aggregation", "spai0"), ("smoothed_aggregation", "spai1"), ("aggregation", "damped_jacobi"),
          ("ruge_stuben", "gauss_seidel"), ("smoothed_aggr_emin", "ilu0"), ("aggregation", "chebyshev")]
UB_FILLS = ["00", "FF", "AA", "rand"]

def ub_cases(tier, seed):
    """write-only outputs handed over unwritten (numa_vector(n, false) under the poisoning allocator)"""
    from vcheck import fmt_vec
    r = random.Random(seed * 1000 + 310)
    out = []; k = 0
    def add(s):
        nonlocal k
        out.append("U%d %s" % (k, s)); k += 1
    def rv(n): return [F(r.randint(-9, 9), r.choice([1, 1, 2, 4])) for _ in range(n)]
    N = 40 if tier == "quick" else 400
    for _ in range(N):
        n = r.choice([1, 2, 3, 5, 9, 17]); m = r.choice([1, 2, 4, 9])
        rows = _rrows(r, n, m, r.choice([2, 4]), False)
        add("ub_spmv %s %s %s" % (fmt_q(F(r.randint(-3, 3), 2)), _crs(n, m, rows), fmt_vec(rv(m))))
        add("ub_residual %s %s %s" % (fmt_vec(rv(n)), _crs(n, m, rows), fmt_vec(rv(m))))
        add("ub_copy %s" % fmt_vec(rv(n)))
        add("ub_clear %d" % n)
        add("ub_axpby %s %s" % (fmt_q(F(r.randint(-3, 3), 2)), fmt_vec(rv(n))))
        add("ub_axpbypcz %s %s %s %s" % (fmt_q(F(r.randint(-3, 3))), fmt_vec(rv(n)), fmt_q(F(r.randint(-3, 3))), fmt_vec(rv(n))))
        add("ub_vmul %s %s %s" % (fmt_q(F(r.randint(-3, 3))), fmt_vec(rv(n)), fmt_vec(rv(n))))
    N = 12 if tier == "quick" else 60
    for i in range(N):
        for rx in UB_RELAX:
            n = r.choice([1, 2, 3, 6, 12, 25])
            rows = gen.spd_mmatrix(r, n) if r.random() < 0.7 else gen.nonsym_dd(r, n, density=min(0.5, 3.0 / n))
            add("ub_asprec %s %s %s" % (rx, _crs(n, n, rows), fmt_vec(rv(n))))
    N = 8 if tier == "quick" else 40
    for i in range(N):
        for co, rx in UB_AMG:
            n = r.choice([3, 6, 12, 25, 40])
            rows = gen.spd_mmatrix(r, n, kind=r.choice(["path", "grid"])) if r.random() < 0.5 else gen.spd_mmatrix(r, n)
            add("ub_amg %s %s %d %s %s" % (co, rx, r.choice([1, 1, 2]), _crs(n, n, rows), fmt_vec(rv(n))))
    return out

def run_ub(ctx, lines):
    res = {}
    for fl in UB_FILLS:
        res[fl] = ctx["run_driver"](ctx["cpp"]["ub@poison"], lines, env_extra={"VQ_POISON_FILL": fl}, shards=8, timeout=1500)
    def nontrivial(op, payload, impl_out):
        return impl_out is not None and impl_out.startswith("[") and bool(impl_out.replace("0", "").replace("[", "").replace("]", "").strip())
    account(ctx, lines, res[UB_FILLS[0]], nontrivial)
    fails = []
    for l in lines:
        cid, op = l.split(" ", 2)[:2]
        outs = [res[fl].get(cid) for fl in UB_FILLS]
        ctx["stats"]["oracle_checks"] += 1
        site = "ub/" + op[3:] + ("/" + l.split(" ", 4)[2] if op == "ub_asprec" else "/" + "+".join(l.split(" ", 4)[2:4]) if op == "ub_amg" else "")
        if any(o is None or o.startswith(("CRASH", "UNSUPPORTED")) for o in outs):
            fails.append(dict(kind="counterexample", case=l, impl=str(outs)[:1500], model=None, op=op, size=len(l), build="ub-poison", site=site,
                              input_class="uninitialised-output", theorem="C10: crash with an unwritten output buffer (fills %s)" % UB_FILLS))
        elif len(set(outs)) != 1:
            j = next(i for i in range(1, len(outs)) if outs[i] != outs[0])
            fails.append(dict(kind="counterexample", case=l, impl=outs[j][:1500], model=outs[0][:1500], op=op, size=len(l), build="ub-poison", site=site,
                              input_class="uninitialised-output",
                              theorem="C10: a write-only output depends on what the unwritten buffer held (bit patterns differ, heap fill %s vs %s)" % (UB_FILLS[j], UB_FILLS[0])))
    return fails

# ------------------------------------------------------------------ C10: larger fill under ASan + poison
# Every relaxation constructor and sweeps of the constructed object on matrices with n = 30..80 and 6..27 entries per row:
# the working rows / fill-in of the incomplete factorisations (iluk k up to 4, ilup, ilut) grow far beyond the initial
# capacity of their containers; harness/drv_relaxfill.cpp, builds @asan (any sanitizer report = CRASH) and @poison (its own
# allocator fills fresh AND released blocks; the four fills must give bitwise identical results).
RF_RELAX = [("damped_jacobi", 0), ("spai0", 0), ("spai1", 0), ("gauss_seidel", 0), ("ilu0", 0), ("iluk", 1), ("iluk", 2), ("iluk", 3), ("iluk", 4),
            ("ilup", 1), ("ilup", 2), ("ilut", 2), ("ilut", 4), ("chebyshev", 0),
            # fractional fill factors: the two passes of ilut (array sizes, then per-row budgets) must round lenL*p / lenU*p the same way
            ("ilut", "3/2"), ("ilut", "5/4"), ("ilut", "7/4")]
RF_FILLS = ["00", "FF", "AA", "rand"]

def _stencil_rows(r, dims, full):
    """SPD M-matrix of a 2-D / 3-D grid: 5/9-point (2-D) resp. 7/27-point (3-D) stencil, slightly varying coefficients"""
    import itertools
    idx = {c: i for i, c in enumerate(itertools.product(*[range(d) for d in dims]))}
    n = len(idx); w = {}
    for c, i in idx.items():
        for off in itertools.product(*[(-1, 0, 1)] * len(dims)):
            if all(o == 0 for o in off): continue
            if not full and sum(abs(o) for o in off) != 1: continue
            d = tuple(a + o for a, o in zip(c, off))
            j = idx.get(d)
            if j is None or j < i: continue
            w[(i, j)] = F(r.choice([1, 1, 1, 2, 3]), r.choice([1, 1, 2, 4]))
    rows = [dict() for _ in range(n)]; diag = [F(0)] * n
    for (i, j), v in w.items():
        rows[i][j] = -v; rows[j][i] = -v; diag[i] += v; diag[j] += v
    for i in range(n): rows[i][i] = diag[i] + F(r.choice([0, 0, 1, 1, 2]), r.choice([1, 2, 8])) + (F(1, 4) if i == 0 else 0)
    return n, [sorted(rw.items()) for rw in rows]

def _random_spd_rows(r, n, per_row):
    """random sparse symmetric strictly diagonally dominant matrix with about per_row entries per row (both signs)"""
    rows = [dict() for _ in range(n)]
    for i in range(n):
        need = max(0, (per_row - 1) // 2)
        for j in r.sample([c for c in range(n) if c != i], min(n - 1, need)):
            v = F(r.choice([-3, -2, -1, -1, -1, 1, 2]), r.choice([1, 2, 4]))
            rows[i][j] = v; rows[j][i] = v
    for i in range(n):
        rows[i][i] = sum(abs(v) for c, v in rows[i].items()) + F(r.choice([1, 2, 3]), r.choice([1, 2]))
    return [sorted(rw.items()) for rw in rows]

def rf_matrices(r, tier):
    quick = tier == "quick"
    out = []
    g2 = [(6, 6), (8, 9)] if quick else [(5, 6), (6, 6), (7, 8), (8, 9), (5, 16), (8, 10)]
    g3 = [(4, 4, 4), (3, 4, 5)] if quick else [(3, 3, 4), (4, 4, 4), (3, 4, 5), (3, 5, 5), (4, 4, 5)]
    g27 = [(3, 3, 4), (4, 4, 4)] if quick else [(3, 3, 4), (4, 4, 4), (3, 4, 5), (3, 3, 8)]
    for d in g2: out.append(("grid2d9 %dx%d" % d,) + _stencil_rows(r, d, True))
    for d in g3: out.append(("grid3d7 %dx%dx%d" % d,) + _stencil_rows(r, d, False))
    for d in g27: out.append(("grid3d27 %dx%dx%d" % d,) + _stencil_rows(r, d, True))
    for n, pr in ([(40, 8), (80, 12), (60, 6)] if quick else [(30, 6), (40, 8), (50, 10), (60, 6), (80, 12), (80, 9), (70, 12)]):
        out.append(("random-spd n=%d ~%d/row" % (n, pr), n, _random_spd_rows(r, n, pr)))
    return out

def rf_cases(tier, seed):
    from vcheck import fmt_vec
    r = random.Random(seed * 1000 + 410)
    out = []; k = 0
    for name, n, rows in rf_matrices(r, tier):
        rhs = [F(r.randint(-9, 9), r.choice([1, 2, 4])) for _ in range(n)]
        x0 = [F(r.randint(-4, 4), r.choice([1, 2])) for _ in range(n)]
        for rx, p in RF_RELAX:
            out.append("R%d rf %s %s %s %s %s" % (k, rx, p, _crs(n, n, rows), fmt_vec(rhs), fmt_vec(x0))); k += 1
    return out

def run_rf(ctx, lines):
    def site(l):
        tk = l.split(" ", 4); return "relaxfill/%s%s" % (tk[2], ("(%s)" % tk[3]) if tk[2] in ("iluk", "ilup", "ilut") else "")
    def complete(exe, env, first):
        """a report / crash loses the rest of its shard: re-run the unanswered cases"""
        res = first
        for _round in range(40):
            missing = [l for l in lines if res.get(l.split(" ", 1)[0]) is None]
            if not missing: break
            more = ctx["run_driver"](ctx["cpp"][exe], missing, env_extra=env, shards=min(32, len(missing)), timeout=1500)
            if not more: break
            res.update(more)
        return res
    res = {}
    for fl in RF_FILLS:
        env = {"VQ_POISON_FILL": fl}
        res[fl] = complete("relaxfill@poison", env, ctx["run_driver"](ctx["cpp"]["relaxfill@poison"], lines, env_extra=env, shards=8, timeout=1500))
    def nontrivial(op, payload, impl_out):
        return impl_out is not None and impl_out.startswith("[") and bool(impl_out.replace("0", "").replace("[", "").replace("]", "").strip())
    account(ctx, lines, res[RF_FILLS[0]], nontrivial)
    fails = []
    for l in lines:
        cid, op = l.split(" ", 2)[:2]
        outs = [res[fl].get(cid) for fl in RF_FILLS]
        ctx["stats"]["oracle_checks"] += 1
        if any(o is None or o.startswith(("CRASH", "UNSUPPORTED", "EXC")) for o in outs):
            fails.append(dict(kind="counterexample", case=l, impl=str(outs)[:1500], model=None, op=op, size=len(l), build="relaxfill-poison", site=site(l),
                              input_class="larger-fill", theorem="C10: relaxation constructor / sweep crashed or threw on a valid SPD matrix under the poisoning allocator (fills %s)" % RF_FILLS))
        elif len(set(outs)) != 1:
            j = next(i for i in range(1, len(outs)) if outs[i] != outs[0])
            fails.append(dict(kind="counterexample", case=l, impl=outs[j][:1500], model=outs[0][:1500], op=op, size=len(l), build="relaxfill-poison", site=site(l),
                              input_class="larger-fill",
                              theorem="C10: the constructed relaxation depends on what fresh / released heap blocks hold (sweep results differ bitwise, heap fill %s vs %s): "
                                      "a never-written cell or a released block (dangling pointer / reference) is read" % (RF_FILLS[j], RF_FILLS[0])))
    env = {"ASAN_OPTIONS": "detect_leaks=1:abort_on_error=0", "UBSAN_OPTIONS": "print_stacktrace=1"}
    san = complete("relaxfill@asan", env, ctx["run_driver"](ctx["cpp"]["relaxfill@asan"], lines, env_extra=env, shards=16, timeout=1500))
    seen = set(f["case"] for f in fails)
    for l in lines:
        cid, op = l.split(" ", 2)[:2]
        o = san.get(cid)
        ctx["stats"]["oracle_checks"] += 1
        if o is None or o.startswith(("CRASH", "UNSUPPORTED", "EXC")):
            fails.append(dict(kind="counterexample", case=l, impl=o, model=None, op=op, size=len(l), build="relaxfill-asan", site=site(l), input_class="larger-fill",
                              theorem="C10: AddressSanitizer/UBSan report or crash in a relaxation constructor / sweep on a valid SPD matrix"))
    return fails

# ------------------------------------------------------------------ C10: near-null-space vectors + pointwise aggregates
# AMG constructions WITH user near-null-space vectors (harness/drv_amgns.cpp): coarsening {aggregation, smoothed_aggregation,
# smoothed_aggr_emin} x aggr.block_size {1,2,3} x nullspace.cols {1,2,3,4} on matrices whose strength graph is NOT symmetric
# (coupling p -> q weak, q -> p strong: plain aggregation leaves one-node / small aggregates), disconnected chains, isolated
# nodes, small grids; >= 3 levels where the sizes allow it.  The only guard between such aggregates and a QR block with
# fewer rows than columns (qr.R(ii,jj) then reads behind the scratch vector) is remove_small_aggregates: coq/SmallAggr.v,
# theorems C10_smallaggr_*.  Builds: amgns@poison (allocator fills fresh blocks + 64 bytes of slack + released blocks; four
# fills, bit patterns compared) and amgns@asan (ASan + UBSan + _GLIBCXX_SANITIZE_VECTOR, 1 and 3 OpenMP threads).
NS_COARS = ["aggregation", "smoothed_aggregation", "smoothed_aggr_emin"]
NS_RELAX = ["damped_jacobi", "spai0", "gauss_seidel"]
NS_FILLS = ["00", "FF", "AA", "rand"]

def _ns_nodes(r, kind, nn):
    """node graph: (number of nodes, coordinates, undirected edges)"""
    if kind == "grid":
        w = r.choice([2, 3, 4]); h = max(2, nn // w); nn = w * h
        xy = [(F(i % w), F(i // w)) for i in range(nn)]
        ed = [(i, i + 1) for i in range(nn) if (i + 1) % w] + [(i, i + w) for i in range(nn - w)]
        return nn, xy, ed
    # disconnected chains (length 1 = an isolated node)
    xy = []; ed = []; p = 0; c = 0
    while p < nn:
        ln = min(nn - p, r.choice([1, 2, 3, 5, 8, 13, 20]))
        for i in range(ln):
            xy.append((F(i + 3 * c), F(i % 3, 2) + 7 * c))
            if i: ed.append((p + i - 1, p + i))
        p += ln; c += 1
    return nn, xy, ed

def _ns_matrix(r, nn, bs, ed, diag, p_weak, weak_dir=None):
    """bs x bs blocks per node pair; the couplings p -> q and q -> p are weak (1/8) / strong (2) independently of each other,
    so the strength graph is not symmetric; rows sorted, values dyadic"""
    rows = [dict() for _ in range(nn * bs)]
    def put(p, q, w):
        for k in range(bs):
            rows[p * bs + k][q * bs + k] = -w
            if bs > 1 and r.random() < 0.4: rows[p * bs + k][q * bs + (k + 1) % bs] = -w / 4
    for (p, q) in ed:
        for (a, b) in ((p, q), (q, p)):
            weak = (r.random() < p_weak) if weak_dir is None else ((a, b) in weak_dir)
            put(a, b, F(1, 8) if weak else F(2))
    for p in range(nn):
        for k in range(bs):
            for j in range(bs):
                rows[p * bs + k][p * bs + j] = F(diag) if j == k else F(1, 2)
    return [sorted(rw.items()) for rw in rows]

def _ns_B(r, nn, bs, cols, xy, kind):
    """near-null-space vectors, row-major n x cols: rigid-body-like modes (translations per unknown of a node, then
    coordinate-dependent columns) or random dyadic numbers"""
    out = []
    for p in range(nn):
        x, y = xy[p]
        for k in range(bs):
            for c in range(cols):
                if kind == "rigid":
                    if c < bs: v = F(1) if c == k else F(0)
                    elif c == bs: v = (-y if k == 0 else x if k == 1 else F(0)) if bs > 1 else x
                    else: v = (x * y if k == 0 else y if k == 1 else x) if bs > 1 else x * x + y
                else:
                    v = F(r.randint(-8, 8), 4)
                out.append(v)
    return out

def ns_cases(tier, seed):
    from vcheck import fmt_vec
    r = random.Random(seed * 1000 + 510)
    out = []; k = 0
    def add(co, rx, bs, cols, ce, ml, eps, npre, npost, n, rows, B, f):
        nonlocal k
        out.append("N%d amgns %s %s %d %d %d %d %s %d %d %s %s %s" % (k, co, rx, bs, cols, ce, ml, eps, npre, npost,
                   _crs(n, n, rows), fmt_vec(B), fmt_vec(f))); k += 1
    # fixed input: two chains of 20 nodes with two unknowns per node and three rigid body modes; the coupling node 1 -> node 2
    # of a chain is weak, 2 -> 1 is strong: node 1 ends up alone in its aggregate (2 unknowns < 3 vectors, must be removed)
    for co in NS_COARS:
        nn = 40
        xy = [(F(i % 20 + 3 * (i // 20)), F(i % 20 % 3, 2) + 7 * (i // 20)) for i in range(nn)]
        ed = [(i, i + 1) for i in range(nn - 1) if i != 19]
        rows = _ns_matrix(r, nn, 2, ed, 4, 0, weak_dir=set([(1, 2), (21, 22)]))
        add(co, "damped_jacobi", 2, 3, 2, 5, "2/25", 1, 1, nn * 2, rows, _ns_B(r, nn, 2, 3, xy, "rigid"),
            [F(4 + (i % 5), 4) for i in range(nn * 2)])
    reps = 8 if tier == "quick" else 60
    for rep in range(reps):
        for co in NS_COARS:
            for bs in (1, 2, 3):
                for cols in (1, 2, 3, 4):
                    kind = r.choice(["chains", "chains", "grid"])
                    nn = r.choice([6, 10, 16, 24]) if bs > 1 else r.choice([8, 16, 30, 48])
                    nn, xy, ed = _ns_nodes(r, kind, nn)
                    diag = 5 if kind == "chains" else 9
                    eps = r.choice(["2/25", "1/8", "1/4"] if kind == "chains" else ["2/25", "1/8"])
                    rows = _ns_matrix(r, nn, bs, ed, diag, r.choice([0.1, 0.3, 0.5]))
                    n = nn * bs
                    add(co, NS_RELAX[k % 3], bs, cols, r.choice([0, 1, 2, 3]), r.choice([3, 4, 5]), eps,
                        r.choice([1, 1, 2]), r.choice([1, 0]), n, rows,
                        _ns_B(r, nn, bs, cols, xy, r.choice(["rigid", "random"])), [F(r.randint(-8, 8), 4) for _ in range(n)])
    return out

def run_ns(ctx, lines):
    def site(l): return "amgns/" + l.split(" ", 4)[2]
    def klass(l):
        tk = l.split(" ", 6); return "nullspace cols=%s block_size=%s" % (tk[5], tk[4])
    def complete(exe, env, first, shards):
        """a sanitizer report / crash loses the rest of its shard: re-run the unanswered cases"""
        res = first
        for _round in range(40):
            missing = [l for l in lines if res.get(l.split(" ", 1)[0]) is None]
            if not missing: break
            more = ctx["run_driver"](ctx["cpp"][exe], missing, env_extra=env, shards=min(32, len(missing)), timeout=600)
            if not more: break
            res.update(more)
        return res
    res = {}
    for fl in NS_FILLS:
        env = {"VQ_POISON_FILL": fl}
        res[fl] = complete("amgns@poison", env, ctx["run_driver"](ctx["cpp"]["amgns@poison"], lines, env_extra=env, shards=8, timeout=600), 8)
    def nontrivial(op, payload, impl_out):
        # at least one coarsening step was made by the policy and amg::apply returned a vector
        return impl_out is not None and " T " in impl_out and " X [" in impl_out
    account(ctx, lines, res[NS_FILLS[0]], nontrivial)
    st = ctx["stats"]
    st["ns_three_levels"] = sum(1 for l in lines if (res[NS_FILLS[0]].get(l.split(" ", 1)[0]) or "").split(" ; ")[0].count(" T ") >= 2)
    fails = []
    for l in lines:
        cid, op = l.split(" ", 2)[:2]
        outs = [res[fl].get(cid) for fl in NS_FILLS]
        ctx["stats"]["oracle_checks"] += 1
        if any(o is None or o.startswith(("CRASH", "UNSUPPORTED")) for o in outs):
            fails.append(dict(kind="counterexample", case=l, impl=str(outs)[:1500], model=None, op=op, size=len(l), build="amgns-poison", site=site(l),
                              input_class=klass(l), theorem="C10: amg construction with near-null-space vectors crashed under the poisoning allocator (fills %s)" % NS_FILLS))
        elif len(set(outs)) != 1:
            j = next(i for i in range(1, len(outs)) if outs[i] != outs[0])
            a, b = outs[j], outs[0]
            d = next((i for i in range(min(len(a), len(b))) if a[i] != b[i]), min(len(a), len(b)))
            fails.append(dict(kind="counterexample", case=l, impl="...%s" % a[max(0, d - 300):d + 300], model="...%s" % b[max(0, d - 300):d + 300],
                              op=op, size=len(l), build="amgns-poison", site=site(l), input_class=klass(l),
                              theorem="C10: the hierarchy built from near-null-space vectors (P, R, coarse near-null space, coarse matrices) or amg::apply depends on "
                                      "prior heap contents (bit patterns differ, heap fill %s vs %s): a cell that was never written -- e.g. qr.R(ii,jj) behind a QR block "
                                      "with fewer rows than columns, which remove_small_aggregates must prevent (theorems C10_smallaggr_*) -- or a released block is read"
                                      % (NS_FILLS[j], NS_FILLS[0])))
    seen = set(f["case"] for f in fails)
    for nt in ("1", "3"):
        env = {"ASAN_OPTIONS": "detect_leaks=1:abort_on_error=0", "UBSAN_OPTIONS": "print_stacktrace=1", "OMP_NUM_THREADS": nt, "OMP_WAIT_POLICY": "PASSIVE"}
        san = complete("amgns@asan", env, ctx["run_driver"](ctx["cpp"]["amgns@asan"], lines, env_extra=env, shards=16 if nt == "1" else 6, timeout=600), 16)
        for l in lines:
            cid, op = l.split(" ", 2)[:2]
            o = san.get(cid)
            ctx["stats"]["oracle_checks"] += 1
            if (o is None or o.startswith(("CRASH", "UNSUPPORTED"))) and l not in seen:
                seen.add(l)
                fails.append(dict(kind="counterexample", case=l, impl=o, model=None, op=op, size=len(l), build="amgns-asan", site=site(l), input_class=klass(l),
                                  theorem="C10: AddressSanitizer/UBSan report (heap-buffer-overflow / container-overflow = read behind size() of a std::vector) or crash "
                                          "while building / applying an amg hierarchy with near-null-space vectors (%s OpenMP thread(s))" % nt))
    return fails

def _is_ns(l): return l.split(" ", 2)[1:2] == ["amgns"]

def _is_rf(l): return l.split(" ", 2)[1:2] == ["rf"]

def _is_ub(l): return l.split(" ", 2)[1:2] and l.split(" ", 2)[1].startswith("ub_")

def _is_ll2(l): return l.split(" ", 2)[1:2] and l.split(" ", 2)[1].startswith(("ll_", "lld_"))

def run(ctx, cases_override=None):
    own_override = [l for l in (cases_override or []) if l.split(" ", 2)[1:2] == ["own"]]
    if cases_override and len(own_override) == len(cases_override):
        return run_own(ctx, own_override)
    ll2_override = [l for l in (cases_override or []) if _is_ll2(l)]
    if cases_override and len(ll2_override) == len(cases_override):
        return run_ll2(ctx, ll2_override)
    ub_override = [l for l in (cases_override or []) if _is_ub(l)]
    if cases_override and len(ub_override) == len(cases_override):
        return run_ub(ctx, ub_override)
    rf_override = [l for l in (cases_override or []) if _is_rf(l)]
    if cases_override and len(rf_override) == len(cases_override):
        return run_rf(ctx, rf_override)
    ns_override = [l for l in (cases_override or []) if _is_ns(l)]
    if cases_override and len(ns_override) == len(cases_override):
        return run_ns(ctx, ns_override)
    own_fails = [] if cases_override else run_own(ctx, own_cases(ctx["tier"], ctx["seed"]))
    ll2_fails = [] if cases_override else run_ll2(ctx, ll2_cases(ctx["tier"], ctx["seed"]))
    ub_fails = [] if cases_override else run_ub(ctx, ub_cases(ctx["tier"], ctx["seed"]))
    rf_fails = [] if cases_override else run_rf(ctx, rf_cases(ctx["tier"], ctx["seed"]))
    ns_fails = [] if cases_override else run_ns(ctx, ns_cases(ctx["tier"], ctx["seed"]))
    return own_fails + ll2_fails + ub_fails + rf_fails + ns_fails + run_amg(ctx, cases_override)

def run_amg(ctx, cases_override=None):
    cases = make_cases(ctx["tier"], ctx["seed"])
    if cases_override:
        ids = set(l.split(" ", 1)[0] for l in cases_override)
        cases = [c for c in cases if c.cid in ids] or cases
    fills = ["00", "FF", "rand"] if ctx["tier"] == "quick" else ["00", "FF", "AA", "55", "rand"]
    fails = []
    lines = {c.cid: c.impl_line() for c in cases}
    def run_all(prefix, env):
        out = {}
        for co in COARS:
            ls = [lines[c.cid] for c in cases if c.coarsening == co]
            out.update(ctx["run_driver"](ctx["cpp"]["%s_%s" % (prefix[0], co) + "@" + prefix[1]], ls, env_extra=env, timeout=1500))
        return out
    for build, label in ((("amgd", "poison"), "double"), (("amg", "poison"), "exact")):
        res = {}
        for fl in fills:
            res[fl] = run_all(build, {"VQ_POISON_FILL": fl})
        account(ctx, [lines[c.cid] for c in cases], res[fills[0]])
        for c in cases:
            outs = [res[fl].get(c.cid) for fl in fills]
            ctx["stats"]["oracle_checks"] += 1
            if any(o is None or o.startswith("CRASH") for o in outs):
                fails.append(dict(kind="counterexample", case=lines[c.cid], impl=str(outs)[:1500], model=None, op="amg", size=len(lines[c.cid]),
                                  build=label, site=c.coarsening + "/" + c.relax, input_class=c.meta,
                                  theorem="C10: the %s build crashed under a poisoned heap (fills %s)" % (label, fills)))
            elif len(set(outs)) != 1:
                k = next(i for i in range(1, len(outs)) if outs[i] != outs[0])
                fails.append(dict(kind="counterexample", case=lines[c.cid], impl=outs[k][:1500], model=outs[0][:1500], op="amg", size=len(lines[c.cid]),
                                  build=label, site=c.coarsening + "/" + c.relax, input_class=c.meta,
                                  theorem="C10: output depends on prior heap contents (%s build, fill %s vs %s)" % (label, fills[k], fills[0])))
    # sanitizer run (double build)
    san = run_all(("amgd", "asan"), {"ASAN_OPTIONS": "detect_leaks=1:abort_on_error=0", "UBSAN_OPTIONS": "print_stacktrace=1"})
    for c in cases:
        o = san.get(c.cid)
        ctx["stats"]["oracle_checks"] += 1
        if o is None or o.startswith("CRASH"):
            fails.append(dict(kind="counterexample", case=lines[c.cid], impl=o, model=None, op="amg", size=len(lines[c.cid]),
                              build="asan", site=c.coarsening + "/" + c.relax, input_class=c.meta,
                              theorem="C10: AddressSanitizer/UBSan report or crash on a valid input"))
    return fails

def classify(f):
    return dict(site=f.get("site"), build=f.get("build"), input_class=f.get("input_class"))
