"""C10 -- outputs are a function of the inputs only; no memory errors on valid input."""
import random
from fractions import Fraction as F
from vcheck import fmt_q
import gen
from props import amg_common as ac
from props.common import account

COARS = ac.COARSENINGS
DRIVERS = ["amgd_%s@poison" % c for c in COARS] + ["amg_%s@poison" % c for c in COARS] + ["amgd_%s@asan" % c for c in COARS]
EXTRA_FLAGS = {"@poison": ["-DVQ_POISON"],
               "@asan": ["-fsanitize=address,undefined", "-fno-sanitize-recover=all", "-fno-omit-frame-pointer", "-g"]}
MODEL = "amg"
ASSUMPTIONS = [
    "prior heap contents are modelled by a poisoning operator new (fills 00 / FF / AA / pseudo-random); stack contents and allocator addresses are not varied",
    "memory safety is checked by AddressSanitizer/UndefinedBehaviourSanitizer runs of the harness on the generated and the listed degenerate inputs (a test, reported as such); the Coq theorems cover junk-independence of the modelled kernels only",
]
RULE = "amg hierarchies (4 coarsenings x 5 relaxations) on generated SPD/non-symmetric systems and a fixed list of degenerate inputs (1x1, diagonal, disconnected, positive off-diagonals, n <= coarse_enough, max_levels = 1), each run under several heap fill patterns (double and exact builds) and under ASan+UBSan; non-trivial = non-zero output"

def degenerate(r):
    """(name, n, rows) -- the degenerate inputs named by the property"""
    out = []
    out.append(("1x1", 1, [[(0, F(3))]]))
    out.append(("diag", 4, [[(i, F(i + 2))] for i in range(4)]))
    out.append(("diag1", 2, [[(0, F(1))], [(1, F(1))]]))
    # disconnected graph: two path components + an isolated node
    out.append(("disconnected", 7, [[(0, F(2)), (1, F(-1))], [(0, F(-1)), (1, F(2)), (2, F(-1))], [(1, F(-1)), (2, F(2))],
                                    [(3, F(5))],
                                    [(4, F(2)), (5, F(-1))], [(4, F(-1)), (5, F(3)), (6, F(-1))], [(5, F(-1)), (6, F(2))]]))
    # rows whose only off-diagonal entries are positive
    out.append(("posoff", 4, [[(0, F(4)), (1, F(1))], [(0, F(1)), (1, F(4)), (2, F(1))], [(1, F(1)), (2, F(4)), (3, F(1))], [(2, F(1)), (3, F(4))]]))
    out.append(("mixed-sign", 5, [[(0, F(4)), (1, F(1)), (4, F(-1))], [(0, F(1)), (1, F(4)), (2, F(-2))], [(1, F(-2)), (2, F(5)), (3, F(1))],
                                  [(2, F(1)), (3, F(3))], [(0, F(-1)), (4, F(2))]]))
    out.append(("path3", 3, gen.spd_mmatrix(r, 3, kind="path")))
    out.append(("path12", 12, gen.spd_mmatrix(r, 12, kind="path")))
    return out

def make_cases(tier, seed):
    r = random.Random(seed * 1000 + 10)
    relaxes = ["damped_jacobi", "spai0", "gauss_seidel", "ilu0", "chebyshev"]
    cases = []; k = 0
    for name, n, rows in degenerate(r):
        for co in COARS:
            for rx in (relaxes if tier != "quick" else relaxes[:3] + [relaxes[3 + (k % 2)]]):
                for cfgv in (dict(coarse_enough=0, max_levels=4294967295), dict(coarse_enough=n + 2, max_levels=4294967295),
                             dict(coarse_enough=0, max_levels=1), dict(coarse_enough=1, max_levels=3)):
                    cfg = dict(coarse_enough=cfgv["coarse_enough"], direct_coarse=(k % 3 != 0) * 1, max_levels=cfgv["max_levels"],
                               npre=1, npost=1, ncycle=1 + (k % 2), pre_cycles=1)
                    f = gen.rvec(r, n); x0 = gen.rvec(r, n)
                    script = [("dump",), ("apply", f, x0), ("apply", f, x0), ("rebuild", rows), ("apply", f, x0)]
                    c = ac.Case("d%d" % k, co, rx, cfg, ac.rand_cprm(r, co), "3/4", n, rows, script); c.meta = name
                    cases.append(c); k += 1
    N = 80 if tier == "quick" else 600
    for i in range(N):
        n = r.choice([2, 3, 5, 8, 12, 16, 24, 40])
        rows = gen.spd_mmatrix(r, n) if r.random() < 0.6 else gen.nonsym_dd(r, n, density=min(0.5, 3.0 / n))
        if r.random() < 0.3:   # make some rows positive-off-diagonal only
            rows = [[(c, (abs(v) if (c != j and j % 3 == 0) else v)) for c, v in rw] for j, rw in enumerate(rows)]
        co = COARS[i % 4]; rx = relaxes[(i // 4) % 5]
        cfg = ac.rand_cfg(r, n)
        f = gen.rvec(r, n); x0 = gen.rvec(r, n)
        script = [("dump",), ("apply", f, x0), ("cycle", f, x0), ("rebuild", rows), ("apply", f, x0)]
        c = ac.Case("g%d" % i, co, rx, cfg, ac.rand_cprm(r, co), r.choice(["1/2", "3/4"]), n, rows, script); c.meta = "generated"
        cases.append(c)
    return cases

def run(ctx, cases_override=None):
    cases = make_cases(ctx["tier"], ctx["seed"])
    if cases_override:
        ids = set(l.split(" ", 1)[0] for l in cases_override)
        cases = [c for c in cases if c.cid in ids] or cases
    fills = ["00", "FF", "rand"] if ctx["tier"] == "quick" else ["00", "FF", "AA", "55", "rand"]
    fails = []
    lines = {c.cid: c.impl_line() for c in cases}
    def run_all(prefix, env):
        out = {}
        for co in COARS:
            ls = [lines[c.cid] for c in cases if c.coarsening == co]
            out.update(ctx["run_driver"](ctx["cpp"]["%s_%s" % (prefix[0], co) + "@" + prefix[1]], ls, env_extra=env, timeout=1500))
        return out
    for build, label in ((("amgd", "poison"), "double"), (("amg", "poison"), "exact")):
        res = {}
        for fl in fills:
            res[fl] = run_all(build, {"VQ_POISON_FILL": fl})
        account(ctx, [lines[c.cid] for c in cases], res[fills[0]])
        for c in cases:
            outs = [res[fl].get(c.cid) for fl in fills]
            ctx["stats"]["oracle_checks"] += 1
            if any(o is None or o.startswith("CRASH") for o in outs):
                fails.append(dict(kind="counterexample", case=lines[c.cid], impl=str(outs)[:1500], model=None, op="amg", size=len(lines[c.cid]),
                                  build=label, site=c.coarsening + "/" + c.relax, input_class=c.meta,
                                  theorem="C10: the %s build crashed under a poisoned heap (fills %s)" % (label, fills)))
            elif len(set(outs)) != 1:
                k = next(i for i in range(1, len(outs)) if outs[i] != outs[0])
                fails.append(dict(kind="counterexample", case=lines[c.cid], impl=outs[k][:1500], model=outs[0][:1500], op="amg", size=len(lines[c.cid]),
                                  build=label, site=c.coarsening + "/" + c.relax, input_class=c.meta,
                                  theorem="C10: output depends on prior heap contents (%s build, fill %s vs %s)" % (label, fills[k], fills[0])))
    # sanitizer run (double build)
    san = run_all(("amgd", "asan"), {"ASAN_OPTIONS": "detect_leaks=1:abort_on_error=0", "UBSAN_OPTIONS": "print_stacktrace=1"})
    for c in cases:
        o = san.get(c.cid)
        ctx["stats"]["oracle_checks"] += 1
        if o is None or o.startswith("CRASH"):
            fails.append(dict(kind="counterexample", case=lines[c.cid], impl=o, model=None, op="amg", size=len(lines[c.cid]),
                              build="asan", site=c.coarsening + "/" + c.relax, input_class=c.meta,
                              theorem="C10: AddressSanitizer/UBSan report or crash on a valid input"))
    return fails

def classify(f):
    return dict(site=f.get("site"), build=f.get("build"), input_class=f.get("input_class"))
