"""c12_sdd.py -- C12: amgcl::mpi::subdomain_deflation (amgcl/mpi/subdomain_deflation.hpp), oracle level (no Coq model).

op of drv_mpi_sdd:   sdd <k=v ...> -- A parts f x0
    amgcl::mpi::subdomain_deflation< amgcl::amg<builtin<double>, runtime coarsening, runtime relaxation>, runtime solver with
    mpi::inner_product, mpi::direct::skyline_lu<double> > built through the property tree on the rank's strip; deflation vectors:
    def=const def.k=K (amgcl::mpi::constant_deflation(K) itself, K = unknowns per grid point), def=linear / linear2 def.nx=NX
    (1, x, y resp. 1, x from the global row number on an NX-wide grid); a rank without rows passes num_def_vec = 0.
    Every rank reports (iters, reported residual: exact value and bit pattern, its num_def_vec, its slice of the returned x).

Checks (the clauses of C12 that hold for every distributed solver), all done here on the gathered reports:
  * terminates on all ranks (every mpirun under timeout), no exception, finite numbers;
  * rank consistency: (iters, residual) bitwise identical on every rank;
  * truthfulness: the true relative residual ||f - A x|| / ||f|| of the ASSEMBLED returned solution (after postprocess()),
    recomputed with exact rational arithmetic from the printed doubles, agrees with the reported one:
    |reported - true| <= TRUTH_REL * max(reported, true) + TRUTH_ABS;
    (reported = ||P r_k|| / ||f|| of the projected system; f - A (x + Z E^-1 Z^T r) = P r only if the stored AZ equals A*Z)
  * convergence (reported <= 1.01 tol, iters < maxiter) on the SPD M-matrix cases.
"""
import math, random, re
from fractions import Fraction as F
from vcheck import fmt_vec, fmt_ivec, fmt_crs, parse_out_vec

ASSUMPTIONS = [
    "mpi::subdomain_deflation (op sdd of drv_mpi_sdd): oracle level only, no Coq model; the run is at double; truthfulness compares the reported residual of the "
    "projected system with the exactly recomputed true residual of the assembled returned solution within a tested tolerance (1e-6 relative + 2e-14; unchanged code: "
    "the gap is a rounding floor of <= 2e-16 ABSOLUTE for reported residuals 3e-11..1e-8, i.e. two orders of magnitude of slack); local preconditioner amgcl::amg with runtime coarsening / relaxation on the rank's diagonal block, coarse solver "
    "mpi::direct::skyline_lu<double>; the deflation vectors of every non-empty rank are linearly independent by construction of the cases (>= 2 grid lines per rank), "
    "a rank without rows passes num_def_vec = 0 and occurs only in the cases p<np>.e<k> of the known finding C12-sdd-empty-subdomain; default preconditioning side (right) only; OMP_NUM_THREADS = 1",
]
TRUSTED_BASE = ["harness/drv_mpi_sdd.cpp (op sdd: strip of the rank, property tree incl. the def_vec function pointer, linear deflation functor on global row numbers); "
                "tools/props/c12_sdd.py (assembles the ranks' slices, exact rational residual, float square root)"]
RULE = ("mpi::subdomain_deflation (op sdd, own random stream seed*1000+1377): deflation = constant_deflation(k) for k = 1, 2, 3 (k unknowns per grid point), linear (1, x, y) and (1, x) "
        "-- >= 2 vectors in >= 60% of the cases --, 1..4 (1..8) ranks, SPD grid M-matrices n = 16..96 and non-symmetric M-matrices (bicgstab / gmres), strips of >= 2 whole grid "
        "lines per non-empty rank (>= 3 interface rows per neighbour), sometimes moved by a point (constant deflation only), one case with an empty rank per rank count >= 3 (thorough: 3; known finding, own mpirun each), "
        "local amg: 3 coarsenings x 4 relaxations, solvers cg / bicgstab / gmres")

TOL = "1e-8"
MAXITER = 300
TRUTH_REL = 1e-6
TRUTH_ABS = 2e-14
L_COARSENINGS = ["aggregation", "smoothed_aggregation", "ruge_stuben"]
L_RELAX = ["spai0", "damped_jacobi", "gauss_seidel", "ilu0"]
DEFS = ["const1", "const2", "linear", "const3", "linear2", "const2", "linear", "const1", "const3", "linear2"]

def is_sdd(line): return line.split(" ", 2)[1] == "sdd"


# ---------------------------------------------------------------- case generation
def line_strips(r, nx, ny, np_, bs, jitter, empty=False):
    """contiguous strips of whole grid lines, every non-empty rank owns >= 2 lines; on >= 3 ranks one rank is empty sometimes;
    jitter: the cuts are moved by one grid point (constant deflation only: the linear vectors stay independent on >= 2 full lines too,
    but a cut through a line is kept out of those cases on purpose -- see ASSUMPTIONS)"""
    alive = list(range(np_))
    if empty: alive.remove(r.randrange(np_))
    while 2 * len(alive) > ny: alive.pop(r.randrange(len(alive)))
    k = len(alive)
    extra = ny - 2 * k
    lines = [2] * k
    for _ in range(extra): lines[r.randrange(k)] += 1
    sz = [w * nx for w in lines]
    if jitter and k >= 2:
        i = r.randrange(k - 1); d = r.choice([-1, 1])
        sz[i] += d; sz[i + 1] -= d
    out = [0] * np_
    for a, w in zip(alive, sz): out[a] = w * bs
    return out

def sdd_cases(tier, seed):
    from props import C12 as _c12
    r = random.Random(seed * 1000 + 1377)
    quick = tier == "quick"
    out = []
    for np_ in ([1, 2, 3, 4] if quick else [1, 2, 3, 4, 5, 6, 8]):
        reps = (6 if np_ == 1 else 12) if quick else 40
        # cases with ONE RANK WITHOUT ROWS (ids p<np>.e<k>, own mpirun each): known finding C12-sdd-empty-subdomain
        n_empty = 0 if np_ < 3 else (1 if quick else 3)
        for it in range(reps + n_empty):
            empty = it >= reps
            d = DEFS[(it + np_) % len(DEFS)]
            bs = int(d[5:]) if d.startswith("const") else 1
            nx = r.randint(3, 5) if bs > 1 else r.randint(4, 7)
            ny = r.randint(max(4, 2 * np_), max(5, 2 * np_ + 3))
            while nx * ny * bs > 96 and ny > max(4, 2 * np_): ny -= 1
            while nx * ny * bs > 96 and nx > 3: nx -= 1
            M, xy = _c12.grid_spd(r, nx, ny, bs)
            n = len(M)
            nonsym = it % 5 == 4
            if nonsym:
                # convection-like: entries above the diagonal are halved or quartered (still a row-wise diagonally dominant M-matrix)
                M = [[(c, v * r.choice([F(1, 2), F(1, 4), F(1)]) if c > i else v) for c, v in rw] for i, rw in enumerate(M)]
            p = line_strips(r, nx, ny, np_, bs, jitter=d.startswith("const") and r.random() < 0.3, empty=empty)
            f = [F(r.randint(-4, 4), r.choice([1, 2])) for _ in range(n)]
            if all(v == 0 for v in f): f[0] = F(1)
            x0 = [F(r.randint(-2, 2), r.choice([1, 2])) for _ in range(n)] if r.random() < 0.3 else [F(0)] * n
            coars = r.choice(L_COARSENINGS)
            relax = r.choice(L_RELAX)
            solver = r.choice(["bicgstab", "gmres"]) if nonsym else r.choice(["cg", "cg", "bicgstab", "gmres"])
            cfg = ["sym=%d" % (0 if nonsym else 1)]
            if d.startswith("const"): cfg += ["def=const", "def.k=%d" % bs]
            else: cfg += ["def=" + d, "def.nx=%d" % nx]
            if empty and it % 2 == 1: cfg += ["local.direct_coarse=false"]
            cfg += ["local.coarsening.type=" + coars, "local.relax.type=" + relax, "local.coarse_enough=%d" % r.choice([2, 4, 8]),
                    "local.npre=1", "local.npost=1", "isolver.type=" + solver, "isolver.tol=" + TOL, "isolver.maxiter=%d" % MAXITER]
            out.append("p%d.%s%d sdd %s -- %s %s %s %s" % (np_, "e" if empty else "d", it - reps if empty else it, " ".join(cfg), fmt_crs(n, n, M), fmt_ivec(p), fmt_vec(f), fmt_vec(x0)))
    return out

def driver_line(line):
    """the case line as the MPI driver reads it (the sym= marker is ignored by the driver; a replayed case keeps it)"""
    return line


# ---------------------------------------------------------------- run + check
def run_mpi_cases(ctx, lines, np_, impl, run_mpi, mpirun, timeout):
    if not lines: return
    exe = ctx["cpp"]["mpi_sdd"]
    env = {"OMP_NUM_THREADS": "1"}
    is_e = lambda l: l.split(" ", 1)[0].split(".")[1].startswith("e")
    ls = [driver_line(l) for l in lines if not is_e(l)]
    if ls: impl.update(run_mpi(ctx, exe, ls, np_, mpirun, shards=max(1, min(2, len(ls) // 6)), timeout=timeout, env=env))
    # a rank without rows: crashes today (known finding) -> one mpirun each, short timeout, no retry
    ls = [driver_line(l) for l in lines if is_e(l)]
    if ls: impl.update(run_mpi(ctx, exe, ls, np_, mpirun, shards=len(ls), timeout=20, env=env, retries=0))

class SCase:
    def __init__(self, line):
        cid, op, rest = line.split(" ", 2)
        self.cid, self.op = cid, op
        head, tail = rest.split(" -- ", 1)
        self.kv = dict(w.split("=", 1) for w in head.split())
        t = tail.split(" ")
        n = int(t[0]); p = 2; rows = []
        for _ in range(n):
            k = int(t[p]); p += 1; rw = []
            for _ in range(k): rw.append((int(t[p]), F(t[p + 1]))); p += 2
            rows.append(rw)
        self.n, self.rows = n, rows
        k = int(t[p]); self.parts = [int(x) for x in t[p + 1:p + 1 + k]]; p += 1 + k
        k = int(t[p]); self.f = [F(x) for x in t[p + 1:p + 1 + k]]; p += 1 + k
        d = self.kv.get("def", "const")
        self.ndv = int(self.kv.get("def.k", "1")) if d == "const" else (3 if d == "linear" else 2)

REC_RE = re.compile(r"^it=(\S+) res=(\S+) bits=(\S+) ndv=(\d+) x=(\[[^\]]*\])$")

def true_residual(c, x):
    rr = F(0); ff = F(0)
    for i, rw in enumerate(c.rows):
        s = c.f[i] - sum((v * x[col] for col, v in rw), F(0))
        rr += s * s; ff += c.f[i] * c.f[i]
    return math.sqrt(float(rr / ff))

def check_sdd(line, out, np_, fails, ctx, stat):
    c = SCase(line)
    tag = "%s, %d vector%s" % (c.kv.get("def"), c.ndv, "" if c.ndv == 1 else "s")
    def fail(what, **kw):
        fails.append(dict(kind="counterexample", case=driver_line(line), impl=(out or "")[:4000], model=None, op=c.op, size=len(line), np=np_,
                          oracle=dict(op=what, deflation=c.kv.get("def"), vectors=c.ndv, solver=c.kv.get("isolver.type"), **kw),
                          theorem="C12 subdomain deflation: %s (%s, %d ranks)" % (what, tag, np_)))
    if out is None or out.startswith("CRASH"): return fail("terminates on all ranks (no hang / crash)", got=out)
    per = out.split(" ; ")
    if len(per) != np_: return fail("one report per rank", got=len(per))
    if any(p.startswith("EXC") for p in per): return fail("no exception on any rank", got=[p[:200] for p in per])
    ms = [REC_RE.match(p) for p in per]
    if not all(ms): return fail("well-formed report", got=[p[:120] for p in per])
    stat("sdd_cases_checked")
    if c.ndv >= 2 and sum(1 for w in c.parts if w > 0) >= 2: stat("sdd_cases_with_2+_vectors_on_2+_nonempty_ranks")
    if any(w == 0 for w in c.parts): stat("sdd_cases_with_an_empty_rank")
    # ---- rank consistency
    ctx["stats"]["oracle_checks"] += 1
    heads = [(m.group(1), m.group(2), m.group(3)) for m in ms]
    if len(set(heads)) != 1:
        return fail("rank consistency: identical (iters, residual) on every rank", got=[" ".join(h) for h in heads])
    it, res = int(heads[0][0]), heads[0][1]
    if res in ("nan", "inf", "-inf") or any(w in m.group(5) for m in ms for w in ("nan", "inf")):
        return fail("finite residual and solution on every rank", got=dict(res=res))
    if [len(parse_out_vec(m.group(5))) for m in ms] != c.parts: return fail("every rank reports its slice", got=[len(parse_out_vec(m.group(5))) for m in ms])
    x = []
    for m in ms: x += parse_out_vec(m.group(5))
    # ---- truthfulness of the returned (post-processed) solution
    ctx["stats"]["oracle_checks"] += 1
    rep = float(F(res)); tru = true_residual(c, x)
    gap = abs(rep - tru)
    ctx.setdefault("c12_sdd_gaps", []).append((gap / max(rep, tru, 1e-300), rep, tru, c.cid))
    if not gap <= TRUTH_REL * max(rep, tru) + TRUTH_ABS:
        ctx["stats"]["mismatches"] += 1
        fail("truthfulness: the returned solution has the reported residual", reported=rep, true=tru, iters=it, ratio=tru / rep if rep else None)
    # ---- convergence on SPD M-matrices
    if c.kv.get("sym") == "1":
        ctx["stats"]["oracle_checks"] += 1
        stat("sdd_spd_cases")
        if not (it < MAXITER and rep <= float(TOL) * 1.01):
            fail("convergence on an SPD M-matrix", got=dict(iters=it, res=rep))


def classify(fail):
    """known finding C12-sdd-empty-subdomain: a rank without rows crashes subdomain_deflation (local amg on a 0 x 0 matrix -> direct coarse
    solver -> cuthill_mckee writes perm[0] of an empty vector; with num_def_vec = 0 postprocess() -> backend::lin_comb(0, ...) reads *Z[0]).
    Only a crash / hang / exception of a case that HAS an empty rank is known; every other failed check is not."""
    try:
        if fail.get("op") != "sdd": return {}
        what = (fail.get("oracle") or {}).get("op") or ""
        if not what.startswith(("terminates on all ranks", "no exception on any rank")): return {}
        c = SCase(fail["case"])
        if any(w == 0 for w in c.parts): return dict(site="mpi-subdomain_deflation", defect="empty-subdomain-crash", check="run")
    except Exception:
        pass
    return {}
