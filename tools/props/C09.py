"""C09 -- results do not depend on the number of threads or their interleaving.

Stages (all cases derive from VERIF_SEED):
  S1  gs_sched / ilu_sched : the per-thread tables the implementation builds (dumped through the
      friend accessor) vs the tables of the Coq model (GsSched.v / IluSched.v), byte for byte;
  S2  oracle on the IMPLEMENTATION's tables: the extracted Coq check Sched.sched_ok (permutation,
      level_conflict_free, deps_respected); SchedProofs.sched_ok_sound says a schedule that passes
      gives the serial result under every interleaving;
  S3  gs_sweep / ilu_solve : the real parallel sweeps/solves in exact arithmetic, repeated, vs the
      serial definitions (Relax.gs_sweep, IluSched.ilu_serial_solve);
  S4  kernels, products, transfer operators, reductions at many thread counts, exact and double
      (bit patterns), compared across thread counts and (exact ones) with the model;
  S5  statement tests of the theorems on the model under scripted interleavings;
  S6  REDUCED TEAMS: gs_team / ilu_team / tt.* run the level-scheduled sweeps/solves and the row-parallel
      backend primitives with an executing OpenMP team of k in {1,2,3} threads although nt in {4,5,17} were
      configured at set-up (omp_set_num_threads(k) after set-up; host teams thread_limit(k); call from an
      enclosing active parallel region with nested parallelism off; set-up inside the reduced team as well).
      The driver prints omp_get_num_threads()/omp_get_max_threads() as seen at the call site, the model prints
      what the mode is meant to give, and the result must be the serial definition.  A failing gs_team /
      ilu_team case is additionally compared with the faithful model of the code as it exists
      (SchedTeam.team_trunc: thread t < k runs tasks[t], tasks[t >= k] are run by nobody).
  S7  WHOLE HIERARCHIES (hier_threads_stage, harness/drv_hier_threads.cpp): amg<builtin<V>, C, spai0> built in a process
      started with OMP_NUM_THREADS in {1, 2, 4, 16, 17, 32}, V = vq::Q / static_matrix<vq::Q,2,2> / double, C = the four
      coarsenings; every level (A, P, R, storage order) and apply() / cycle() identical for every thread count.
"""
import random, itertools, re
from fractions import Fraction as F
from vcheck import fmt_q, fmt_vec, fmt_crs, split_top
import gen
from props.common import diff_run, oracle_run, account

DRIVERS = ["sched", "matops_block", "hier_threads"]
MODEL = "sched"
RULE = ("cases derived from VERIF_SEED by tools/props/C09.py; distinct = distinct (op, payload); non-trivial = "
        "schedule dumps with at least two levels or a level split over >= 2 threads, sweeps/kernels with a non-zero result")
TRUSTED_BASE = [
    "harness/drv_sched.cpp + harness/vq_access.hpp (friend accessor, read-only dump of tasks/ord/ptr/col/val/D)",
    "harness/drv_hier_threads.cpp (stage S7: amg hierarchies dumped through the accessor amg::levels; the thread count is the OMP_NUM_THREADS of the process and is printed by the driver)",
    "modelling step: sweep()/solve() execute, between two barriers, exactly the rows of the dumped tasks (read off the C++ text); "
    "OpenMP runtime (barrier semantics, memory model) is trusted; stages S1-S5 run with a full team (team size = omp_get_max_threads()), "
    "stage S6 forces smaller / larger teams and compares the team size the driver observes with the one asked for",
]
ASSUMPTIONS = [
    "S1-S5: omp parallel regions get exactly omp_get_max_threads() threads (omp_set_dynamic(0) in the harness); S6: teams of 1..3 (and 6..8) threads "
    "with 4, 5 or 17 threads configured at set-up (omp_set_num_threads, host teams thread_limit, enclosing active region with nested parallelism off)",
    "data races are only excluded for the modelled regions (level schedules, row-parallel kernels, reductions)",
    "double runs: -ffp-contract=off; bitwise claims are tested across thread counts, not proved for floats",
]
ENV = {"OMP_WAIT_POLICY": "passive", "OMP_DYNAMIC": "false"}

NTS_Q = [4, 5, 8, 16, 17]
NTS_T = [4, 5, 6, 7, 8, 12, 16, 17, 24, 32]
KNTS_Q = [1, 2, 3, 4, 5, 8, 16, 17]
KNTS_T = [1, 2, 3, 4, 5, 6, 7, 8, 12, 16, 17, 24, 32]


# ------------------------------------------------------------------ generators
def pat_rows(r, n, mask_rows, diag_dom=False):
    """rows from a boolean pattern; random non-zero values (sorted columns)"""
    rows = []
    for i in range(n):
        rw = [(j, gen.rq(r, nz=True)) for j in range(n) if mask_rows[i][j]]
        rows.append(rw)
    return rows

def all_patterns(n):
    for bits in range(1 << (n * n)):
        yield [[bool((bits >> (i * n + j)) & 1) for j in range(n)] for i in range(n)]

def is_sym(n, rows):
    s = set((i, c) for i, rw in enumerate(rows) for c, _ in rw)
    return all((c, i) in s for (i, c) in s)

def rand_pattern(r, n, kind):
    """kinds: sym / nonsym sparse random, banded, grid (5-point), arrow; always with diagonal"""
    P = [[False] * n for _ in range(n)]
    if kind in ("sym", "nonsym"):
        dens = r.choice([0.6, 1.2, 2.0, 3.5]) / max(1, n)
        for i in range(n):
            for j in range(n):
                if i != j and r.random() < dens: P[i][j] = True
        if kind == "sym":
            for i in range(n):
                for j in range(n):
                    if P[i][j]: P[j][i] = True
    elif kind == "band":
        w = r.choice([1, 1, 2, 3])
        for i in range(n):
            for j in range(max(0, i - w), min(n, i + w + 1)):
                if r.random() < 0.9: P[i][j] = P[j][i] = True
    elif kind == "grid":
        nx = r.randint(2, max(2, int(n ** 0.5) + 2))
        for i in range(n):
            if (i + 1) % nx and i + 1 < n: P[i][i + 1] = P[i + 1][i] = True
            if i + nx < n: P[i][i + nx] = P[i + nx][i] = True
    elif kind == "arrow":
        for i in range(n): P[i][0] = P[0][i] = True
    for i in range(n):
        if r.random() < 0.95: P[i][i] = True
    return P

def rand_matrix(r, tier, sym=None):
    n = r.choice([4, 5, 6, 8, 9, 12, 16, 17, 20, 25, 31, 33, 40] + ([48, 64, 70] if tier == "thorough" else []))
    if sym is None: sym = r.random() < 0.6
    kind = r.choice(["sym", "sym", "band", "grid", "grid", "arrow"]) if sym else "nonsym"
    P = rand_pattern(r, n, kind)
    rows = pat_rows(r, n, P)
    if r.random() < 0.3: rows = gen.shuffle_rows(r, rows)
    return n, rows

def tri_factors(r, n, P):
    """strictly lower / strictly upper parts of a pattern, and an (inverted) diagonal"""
    L = [[(j, gen.rq(r, nz=True)) for j in range(i) if P[i][j]] for i in range(n)]
    U = [[(j, gen.rq(r, nz=True)) for j in range(i + 1, n) if P[i][j]] for i in range(n)]
    D = [gen.rq(r, nz=True) for _ in range(n)]
    return L, U, D


# ------------------------------------------------------------------ cases
def cases(tier, seed):
    r = random.Random(seed * 1000 + 9)
    nts = NTS_Q if tier == "quick" else NTS_T
    knts = KNTS_Q if tier == "quick" else KNTS_T
    out = []
    cnt = [0]
    def add(op, payload, tag=""):
        out.append("c%d%s %s %s" % (cnt[0], tag, op, payload)); cnt[0] += 1

    # ---- matrices for the Gauss-Seidel schedule: exhaustive small + random ----
    mats = []
    nmax = 3 if tier == "quick" else 4
    for n in range(1, nmax + 1):
        pats = list(all_patterns(n))
        if n == 4:
            # all symmetric 4x4 patterns + a seeded slice of the others
            symp = [p for p in pats if all(p[i][j] == p[j][i] for i in range(4) for j in range(4))]
            rest = r.sample(pats, 6000)
            pats = symp + rest
        for P in pats:
            mats.append((n, pat_rows(r, n, P), True))
    nrand = 250 if tier == "quick" else 900
    for _ in range(nrand):
        n, rows = rand_matrix(r, tier)
        mats.append((n, rows, False))
    # the DESIGN section 8 item 4 witness and its backward / same-thread variants
    W = [(2, [[(0, F(1)), (1, F(1))], [(1, F(1))]], [F(10), F(1)], [F(0), F(5)])]
    for (n, rows, small) in mats:
        A = fmt_crs(n, n, rows)
        use_nts = nts if not small else (nts if tier == "thorough" and n <= 3 else [4, 5, 17])
        for nt in use_nts:
            for fwd in (1, 0):
                add("gs_sched", "%d %d 0 %s" % (fwd, nt, A))
        if not small or r.random() < 0.15:
            for nt in (1, 2, 3):
                add("gs_sched", "%d %d 1 %s" % (r.choice([0, 1]), nt, A))
                add("gs_sched", "%d %d 0 %s" % (r.choice([0, 1]), nt, A))
        # sweeps
        rhs = gen.rvec(r, n); x = gen.rvec(r, n)
        reps = 4
        sw_nts = use_nts if not small else [4]
        for nt in sw_nts:
            for fwd in (1, 0):
                add("gs_sweep", "%d %d %d %s %s %s" % (fwd, nt, reps, A, fmt_vec(rhs), fmt_vec(x)))
        if not small and r.random() < 0.5:
            ch = [[r.randrange(0, 8) for _ in range(r.randint(0, 2 * n))] for _ in range(r.randint(0, n))]
            add("m.gs_pick", "%d %d %s %s %s %d %s" % (r.choice([0, 1]), r.choice(nts), A, fmt_vec(rhs), fmt_vec(x), len(ch),
                                                      " ".join(fmt_ivec(c) for c in ch)))
    for (n, rows, rhs, x) in W:
        A = fmt_crs(n, n, rows)
        add("gs_sweep", "1 4 %d %s %s %s" % (4000 if tier == "quick" else 200000, A, fmt_vec(rhs), fmt_vec(x)))

    # ---- triangular factors for sptr_solve ----
    tris = []
    for n in range(1, nmax + 1):
        pats = list(all_patterns(n)) if n <= 3 else r.sample(list(all_patterns(4)), 3000)
        seen = set()
        for P in pats:
            key = tuple(P[i][j] for i in range(n) for j in range(n) if i != j)
            if key in seen: continue
            seen.add(key)
            tris.append((n, P, True))
    for _ in range(nrand):
        n = r.choice([4, 5, 6, 8, 9, 12, 16, 17, 20, 25, 31, 33, 40])
        kind = r.choice(["sym", "nonsym", "nonsym", "band", "grid", "arrow"])
        tris.append((n, rand_pattern(r, n, kind), False))
    for (n, P, small) in tris:
        L, U, D = tri_factors(r, n, P)
        payload = "%s %s %s" % (fmt_crs(n, n, L), fmt_crs(n, n, U), fmt_vec(D))
        use_nts = ([1, 2, 3] + nts) if not small else [1, 4, 5, 17]
        if small and tier == "quick": use_nts = [4, 5]
        for nt in use_nts:
            add("ilu_sched", "%d %s" % (nt, payload))
        x = gen.rvec(r, n)
        for nt in (use_nts if not small else [4]):
            add("ilu_solve", "%d 0 %d %s %s" % (nt, 3, payload, fmt_vec(x)))
        if not small:
            add("ilu_solve", "%d 1 1 %s %s" % (r.choice(nts), payload, fmt_vec(x)))
            if r.random() < 0.5:
                ch = [[r.randrange(0, 8) for _ in range(r.randint(0, 2 * n))] for _ in range(r.randint(0, n))]
                add("m.ilu_pick", "%d %s %s %d %s" % (r.choice(nts), payload, fmt_vec(x), len(ch), " ".join(fmt_ivec(c) for c in ch)))

    # ---- kernels / products / transfer operators / reductions across thread counts ----
    NB = [F(1, 3), F(1, 10), F(-7, 3), F(2, 7), F(5, 9), F(1), F(-1), F(3, 2), F(-1, 10), F(22, 7), F(1, 1000), F(1000, 3)]
    nk = 60 if tier == "quick" else 250
    for it in range(nk):
        n = r.choice([1, 2, 3, 5, 8, 13, 17, 24, 33, 40]); m = r.choice([n, n, max(1, n + r.randint(-2, 3))])
        def val(): return r.choice(NB) if r.random() < 0.6 else gen.rq(r, nz=True)
        rowsA = [[(c, val()) for c in sorted(r.sample(range(m), r.randint(0, min(m, 5))))] for _ in range(n)]
        k = r.choice([m, max(1, m - 1), m + 2])
        rowsB = [[(c, val()) for c in sorted(r.sample(range(k), r.randint(0, min(k, 5))))] for _ in range(m)]
        rowsA2 = [[(c, val()) for c in sorted(r.sample(range(m), r.randint(0, min(m, 5))))] for _ in range(n)]
        A = fmt_crs(n, m, rowsA); B = fmt_crs(m, k, rowsB); A2 = fmt_crs(n, m, rowsA2)
        x = [val() for _ in range(m)]; y = [val() for _ in range(n)]; f = [val() for _ in range(n)]
        u, v, w = [[val() for _ in range(n)] for _ in range(3)]
        a, b, c = val(), r.choice([F(0), val()]), r.choice([F(0), val()])
        base = cnt[0]; cnt[0] += 1
        def addk(op, payload):
            for pfx in ("", "d."):
                for nt in knts:
                    out.append("k%d.%s%s@%d %s%s %d %s" % (base, pfx.replace(".", ""), op.replace(".", "_"), nt, pfx, op, nt, payload))
        addk("t.spmv", " ".join([fmt_q(a), A, fmt_vec(x), fmt_q(b), fmt_vec(y)]))
        addk("t.residual", " ".join([fmt_vec(f), A, fmt_vec(x), fmt_vec(y)]))
        addk("t.axpby", " ".join([fmt_q(a), fmt_vec(u), fmt_q(b), fmt_vec(v)]))
        addk("t.axpbypcz", " ".join([fmt_q(a), fmt_vec(u), fmt_q(b), fmt_vec(v), fmt_q(c), fmt_vec(w)]))
        addk("t.vmul", " ".join([fmt_q(a), fmt_vec(u), fmt_vec(v), fmt_q(b), fmt_vec(w)]))
        addk("t.product", A + " " + B)
        addk("t.sum", " ".join([fmt_q(a), A, fmt_q(val()), A2]))
        addk("t.transpose", A)
        for nt in knts:
            out.append("k%d.t_inner@%d t.inner %d %s %s" % (base, nt, nt, fmt_vec(u), fmt_vec(v)))
    # coarsening transfer operators and Gershgorin bounds on square systems (with a full diagonal)
    nc = 24 if tier == "quick" else 120
    for it in range(nc):
        n = r.choice([6, 9, 12, 16, 20, 25, 30, 36])
        if r.random() < 0.7:
            rows = gen.spd_mmatrix(r, n)
        else:
            rows = gen.nonsym_dd(r, n, density=r.choice([0.1, 0.2, 0.3]))
        rows = [[(c, v * r.choice([F(1), F(1), F(1, 3), F(7, 10)]) if c != i else v) for c, v in rw] for i, rw in enumerate(rows)]
        A = fmt_crs(n, n, rows)
        base = cnt[0]; cnt[0] += 1
        eps = r.choice(["2/25", "1/4", "0", "1/2"])
        def addc(op, payload, pfxs=("", "d.")):
            for pfx in pfxs:
                for nt in knts:
                    out.append("k%d.%s%s@%d %s%s %d %s" % (base, pfx.replace(".", ""), op.replace(".", "_"), nt, pfx, op, nt, payload))
        addc("t.aggr", "%s %s" % (eps, A))
        addc("t.saggr", "%s %d %s" % (eps, r.choice([0, 1]), A))
        addc("t.rs", "%s %d %s" % (r.choice(["1/4", "1/2", "1/10"]), r.choice([0, 1]), A))
        # rows whose off-diagonal entries are all positive (no strong connections; connect() takes its early exit)
        rows3 = [[(c, abs(v)) for c, v in rw] if r.random() < 0.3 else rw for rw in rows]
        base = cnt[0]; cnt[0] += 1
        addc("t.rs", "%s %d %s" % (r.choice(["1/4", "1/2"]), r.choice([0, 1]), fmt_crs(n, n, rows3)))
        addc("t.gershgorin", "%d %s" % (r.choice([0, 1]), A))
        if it % 4 == 0:
            # degenerate input: some rows without a diagonal entry
            rows2 = [[(c, v) for c, v in rw if not (c == i and r.random() < 0.3)] for i, rw in enumerate(rows)]
            base = cnt[0]; cnt[0] += 1
            addc("t.gershgorin", "1 %s" % fmt_crs(n, n, rows2))
        x = gen.rvec(r, n); rhs = gen.rvec(r, n)
        for nt in [k for k in knts if k >= 1]:
            out.append("k%d.dgs@%d d.gs_sweep %d %d 2 %s %s %s" % (base, nt, it % 2, nt, A, fmt_vec(rhs), fmt_vec(x)))
    out += team_cases(tier, seed)
    return out


# ------------------------------------------------------------------ reduced teams (S6)
# (k, mode) pairs for a set-up count nt: see drv_sched.cpp (gs_team) for the modes
def team_combos(nt, with_setup_inside):
    cs = [(nt, 0), (nt, 1)]                       # full team through the same code path (must always pass)
    for k in (1, 2, 3):
        cs += [(k, 0), (k, 1)]
        if with_setup_inside: cs.append((k, 3))
    cs.append((1, 2))
    if with_setup_inside: cs.append((1, 4))
    return cs

def team_of(nt, k, mode):
    """(team, max) the mode is meant to give at the call site"""
    return {0: (k, k), 1: (k, nt), 3: (k, nt), 2: (1, nt), 4: (1, nt)}[mode]

def team_cases(tier, seed):
    """own generator: the cases of the other stages do not move when this list changes"""
    r = random.Random(seed * 1000 + 909)
    out = []; cnt = [0]
    def add(op, payload):
        out.append("T%d %s %s" % (cnt[0], op, payload)); cnt[0] += 1
    nmat = 40 if tier == "quick" else 160
    # the Coq witnesses (SchedTeam.team_A / team_L) first
    gsm = [(4, [[(i, F(2))] for i in range(4)], [F(2)] * 4, [F(0)] * 4)]
    for _ in range(nmat):
        n, rows = rand_matrix(r, tier)
        gsm.append((n, rows, gen.rvec(r, n), gen.rvec(r, n)))
    for n in (1, 2, 3):
        for P in r.sample(list(all_patterns(n)), min(6, 1 << (n * n))):
            gsm.append((n, pat_rows(r, n, P), gen.rvec(r, n), gen.rvec(r, n)))
    for (n, rows, rhs, x) in gsm:
        A = fmt_crs(n, n, rows)
        for nt in (4, 5):
            for (k, mode) in team_combos(nt, True):
                fwd = r.choice([0, 1])
                pl = "%d %d %d %d %s %s %s" % (fwd, nt, k, mode, A, fmt_vec(rhs), fmt_vec(x))
                add("gs_team", pl)
                if r.random() < 0.25: add("m.gs_team_cyclic", pl)
    one = F(1)
    ilm = [(4, [[], [(0, one)], [(0, one)], [(0, one)]], [[], [], [], []], [one] * 4, [F(1), F(2), F(3), F(4)])]
    for _ in range(nmat):
        n = r.choice([4, 5, 6, 8, 9, 12, 16, 17, 20, 25, 31, 33, 40])
        kind = r.choice(["sym", "nonsym", "nonsym", "band", "grid", "arrow"])
        L, U, D = tri_factors(r, n, rand_pattern(r, n, kind))
        ilm.append((n, L, U, D, gen.rvec(r, n)))
    for (n, L, U, D, x) in ilm:
        payload = "%s %s %s %s" % (fmt_crs(n, n, L), fmt_crs(n, n, U), fmt_vec(D), fmt_vec(x))
        for nt in (4, 5):
            for (k, mode) in team_combos(nt, True):
                pl = "%d %d %d %s" % (nt, k, mode, payload)
                add("ilu_team", pl)
                if r.random() < 0.25: add("m.ilu_team_cyclic", pl)
    # ENLARGED team (omp_set_num_threads raised between set-up and call): one case per process (see run)
    nl = 0
    for (n, rows, rhs, x) in gsm[:3]:
        for nt in (4, 5):
            for k in (nt + 1, 8):
                out.append("TL%d gs_team %d %d %d 0 %s %s %s" % (nl, nl % 2, nt, k, fmt_crs(n, n, rows), fmt_vec(rhs), fmt_vec(x))); nl += 1
    for (n, L, U, D, x) in ilm[:3]:
        for nt in (4, 5):
            for k in (nt + 1, 8):
                out.append("TL%d ilu_team %d %d 0 %s %s %s %s" % (nl, nt, k, fmt_crs(n, n, L), fmt_crs(n, n, U), fmt_vec(D), fmt_vec(x))); nl += 1
    # row-parallel primitives
    NB = [F(1, 3), F(1, 10), F(-7, 3), F(2, 7), F(5, 9), F(1), F(-1), F(3, 2), F(-1, 10), F(22, 7)]
    nk = 14 if tier == "quick" else 60
    for it in range(nk):
        n = r.choice([2, 3, 5, 8, 13, 17, 24, 33, 40]); m = r.choice([n, n, max(1, n + r.randint(-2, 3))])
        def val(): return r.choice(NB) if r.random() < 0.6 else gen.rq(r, nz=True)
        rowsA = [[(c, val()) for c in sorted(r.sample(range(m), r.randint(0, min(m, 5))))] for _ in range(n)]
        k2 = r.choice([m, max(1, m - 1), m + 2])
        rowsB = [[(c, val()) for c in sorted(r.sample(range(k2), r.randint(0, min(k2, 5))))] for _ in range(m)]
        rowsA2 = [[(c, val()) for c in sorted(r.sample(range(m), r.randint(0, min(m, 5))))] for _ in range(n)]
        A = fmt_crs(n, m, rowsA); B = fmt_crs(m, k2, rowsB); A2 = fmt_crs(n, m, rowsA2)
        x = [val() for _ in range(m)]; y = [val() for _ in range(n)]; f = [val() for _ in range(n)]
        u, v, w = [[val() for _ in range(n)] for _ in range(3)]
        a, b, c = val(), r.choice([F(0), val()]), r.choice([F(0), val()])
        sq = gen.spd_mmatrix(r, n) if n >= 2 else [[(0, F(2))]]
        Asq = fmt_crs(n, n, sq)
        gbase = cnt[0]
        for nt in (4, 5, 17):
            for (k, mode) in team_combos(nt, False):
                hd = "%d %d %d " % (nt, k, mode)
                if nt != 17:
                    add("tt.spmv", hd + " ".join([fmt_q(a), A, fmt_vec(x), fmt_q(b), fmt_vec(y)]))
                    add("tt.residual", hd + " ".join([fmt_vec(f), A, fmt_vec(x), fmt_vec(y)]))
                    add("tt.axpby", hd + " ".join([fmt_q(a), fmt_vec(u), fmt_q(b), fmt_vec(v)]))
                    add("tt.axpbypcz", hd + " ".join([fmt_q(a), fmt_vec(u), fmt_q(b), fmt_vec(v), fmt_q(c), fmt_vec(w)]))
                    add("tt.vmul", hd + " ".join([fmt_q(a), fmt_vec(u), fmt_vec(v), fmt_q(b), fmt_vec(w)]))
                    add("tt.sum", hd + " ".join([fmt_q(a), A, fmt_q(val()), A2]))
                    add("tt.transpose", hd + A)
                    add("tt.rmerge", hd + A + " " + B)
                    out.append("T%d.g%d tt.gershgorin %s%d %s" % (cnt[0], gbase, hd, it % 2, Asq)); cnt[0] += 1
                add("tt.inner", hd + fmt_vec(u) + " " + fmt_vec(v))
                add("tt.product", hd + A + " " + B)
    return out

def fmt_ivec(v): return " ".join([str(len(v))] + [str(int(x)) for x in v])


# ------------------------------------------------------------------ helpers for oracles / classification
def parse_case_crs(tok, p):
    """tokens -> (n, m, rows, next position)"""
    n = int(tok[p]); m = int(tok[p + 1]); p += 2
    rows = []
    for _ in range(n):
        k = int(tok[p]); p += 1
        rw = []
        for _ in range(k):
            rw.append((int(tok[p]), tok[p + 1])); p += 2
        rows.append(rw)
    return n, m, rows, p

def tables_tokens(items):
    """items of one dump (nthreads, then per thread [tasks] [ord] {rows} ([D])) -> token string for the check ops"""
    nt = int(items[0]); rest = items[1:]
    per = len(rest) // nt if nt else 0
    toks = [str(nt)]
    for t in range(nt):
        tasks = rest[t * per][1:-1].split(); ordv = rest[t * per + 1][1:-1].split()
        toks += [str(len(tasks) // 2)] + tasks + [str(len(ordv))] + ordv
    return " ".join(toks)

def nontrivial(op, payload, impl_out):
    if impl_out is None or impl_out.startswith(("EXC", "UNSUPPORTED", "CRASH", "SERIAL")): return False
    if op in ("gs_sched", "ilu_sched"):
        items = split_top(impl_out.split(" ; ")[0])
        if len(items) < 2: return False
        tasks0 = items[1][1:-1].split()
        multi_level = len(tasks0) >= 4
        busy = sum(1 for k in range(2, len(items), 3) if items[k] != "[]")
        return multi_level or busy >= 2
    return bool(re.search(r"[1-9]", impl_out))

def gs_reference_levels(n, rows, fwd):
    """the level loop as it was BEFORE the fix /repo dff00c6 (own already-swept neighbours only); only used to
    classify a failure as the historical finding C09-gs-antidep (now status fixed: nothing is suppressed)"""
    level = [0] * n
    order = range(n) if fwd else range(n - 1, -1, -1)
    for i in order:
        l = level[i]
        for c, _ in rows[i]:
            if (fwd and c >= i) or (not fwd and c <= i): continue
            l = max(l, level[c] + 1)
        level[i] = l
    return level

def anti_dependency_pairs(n, rows, fwd):
    """pairs (i, j) with: row i reads x[j], row j does not read x[i], j is swept after i (so the serial sweep
    gives row i the OLD x[j]) -- and the level loop nevertheless puts j into the same level as i ('same': data
    race) or into an earlier level ('earlier': row i deterministically sees the NEW x[j])"""
    level = gs_reference_levels(n, rows, fwd)
    pat = set((i, c) for i, rw in enumerate(rows) for c, _ in rw)
    same, earlier = [], []
    for (i, j) in pat:
        if i == j or j >= n: continue
        after = (j > i) if fwd else (j < i)
        if after and (j, i) not in pat:
            if level[i] == level[j]: same.append((i, j))
            elif level[j] < level[i]: earlier.append((i, j))
    return same, earlier


def classify(f):
    """signature of a failing case.  The known findings are specific:
      * Gauss-Seidel level schedule: structurally non-symmetric pattern AND the offending pair is an
        anti-dependency the level loop ignores (see anti_dependency_pairs).  A conflict on a structurally
        symmetric pattern, a true dependency inside a level, anything in sptr_solve, a table mismatch
        get a different signature and stay a VIOLATION;
      * matrix product, double, only across the saad/rmerge switch (16 -> 17 threads), rows compared sorted;
      * Ruge-Stuben: the matrix has a row without negative off-diagonal entry (uninitialised S.val);
      * spectral_radius<scale>: the matrix has a row without diagonal entry (stale thread-private dia)."""
    sig = {}
    try:
        line = f.get("case") or ""
        tok = line.split()
        op = tok[1] if len(tok) > 1 else ""
        if op in ("gs_sched", "gs_sweep", "d.gs_sweep"):
            fwd = tok[2] == "1"
            n, m, rows, p = parse_case_crs(tok, 5)
            sig["site"] = "gauss_seidel::parallel_sweep"
            sig["structurally_nonsymmetric"] = not is_sym(n, rows)
            same, earlier = anti_dependency_pairs(n, rows, fwd)
            if f.get("oracle"):
                res = f["oracle"].get("result") or ""
                sig["stage"] = "schedule-oracle"
                mm = re.search(r"conflict level=(\d+) i=(\d+) reads j=(\d+)", res)
                m2 = re.search(r"dependency-order i=(\d+) \(level \d+\) reads j=(\d+)", res)
                if mm: sig["anti_dependency_not_ordered"] = (int(mm.group(2)), int(mm.group(3))) in same
                elif m2: sig["anti_dependency_not_ordered"] = (int(m2.group(1)), int(m2.group(2))) in earlier
                else: sig["anti_dependency_not_ordered"] = False
            elif f.get("stage") == "tables":
                sig["stage"] = "tables-vs-model"
                sig["anti_dependency_not_ordered"] = False
            else:
                sig["stage"] = "sweep-vs-serial"
                sig["anti_dependency_not_ordered"] = len(same) + len(earlier) > 0
        elif op in ("gs_team", "ilu_team"):
            # the level-scheduled regions executed by a team smaller than the thread count of the set-up.  The known
            # finding is specific: the team really is smaller AND the implementation's output is exactly what the faithful
            # model of the existing code (SchedTeam.team_trunc: tasks[t >= team] are skipped) predicts; a wrong result with a
            # full team, a wrong team header, or any other wrong value keeps another signature and stays a VIOLATION
            o = 1 if op == "gs_team" else 0
            nt, k, mode = int(tok[2 + o]), int(tok[3 + o]), int(tok[4 + o])
            team, mx = team_of(nt, k, mode)
            sig["site"] = "gauss_seidel::parallel_sweep" if op == "gs_team" else "ilu_solve::sptr_solve"
            sig["region"] = "level schedule: tasks[omp_get_thread_num()] sized by omp_get_max_threads() at set-up"
            sig["stage"] = "reduced-team"
            sig["setup_threads"] = nt; sig["team"] = team
            sig["team_smaller_than_setup_threads"] = team < nt
            if team > nt:
                # tasks[omp_get_thread_num()] is indexed out of bounds: undefined behaviour (crash, garbage or hang),
                # no model of the old code predicts the outcome
                sig["stage"] = "enlarged-team"; sig["team_larger_than_setup_threads"] = True
            sig["matches_truncated_team_model"] = bool(f.get("trunc_model")) and f.get("trunc_model") == f.get("impl")
        elif op.startswith("tt."):
            nt, k, mode = int(tok[2]), int(tok[3]), int(tok[4])
            team, mx = team_of(nt, k, mode)
            sig["site"] = "backend::" + op[3:]; sig["stage"] = "reduced-team"
            sig["setup_threads"] = nt; sig["team"] = team
        elif op in ("ilu_sched", "ilu_solve"):
            sig["site"] = "ilu_solve::sptr_solve"
        elif op.endswith("t.product") and f.get("stage") == "saad-vs-rmerge":
            sig["site"] = "backend::product"; sig["switch_saad_rmerge_at_17_threads"] = True
            sig["value_type"] = "double" if op.startswith("d.") else "exact"
        elif op.endswith("t.rs"):
            n, m, rows, p = parse_case_crs(tok, 5)
            sig["site"] = "ruge_stuben::connect"
            sig["row_without_negative_offdiag"] = any(len(rw) > 0 and all(c == i or F(v) >= 0 for c, v in rw) for i, rw in enumerate(rows))
        elif op.endswith("t.gershgorin"):
            n, m, rows, p = parse_case_crs(tok, 4)
            sig["site"] = "backend::spectral_radius"
            sig["scale"] = tok[3] == "1"
            sig["row_without_diagonal"] = any(all(c != i for c, v in rw) for i, rw in enumerate(rows))
        else:
            sig["site"] = op
    except Exception as e:  # a classifier error must never hide a violation
        sig = {"classifier_error": str(e)}
    return sig


# ------------------------------------------------------------------ run
def block_product_stage(ctx):
    """matrix products with NON-COMMUTING block values across the 16/17-thread algorithm switch
    (spgemm_saad <= 16 threads, spgemm_rmerge above): exact arithmetic (static_matrix<vq::Q,b,b>), so the
    product must be IDENTICAL for every thread count (rows sorted: product(sort=true) / rmerge output).
    Driver: harness/drv_matops_block.cpp of C08 (op bm.product <b> <nt> A B sort)."""
    import props.blockvals as bv
    r = random.Random(ctx["seed"] * 7919 + 17)
    fails = []; lines = []; base = {}
    n_cases = 40 if ctx["tier"] == "quick" else 300
    nts = [1, 2, 16, 17, 32] if ctx["tier"] == "quick" else [1, 2, 3, 4, 5, 8, 16, 17, 24, 32]
    for it in range(n_cases):
        b = r.choice([2, 2, 3]); n = r.randint(2, 9); k = r.randint(1, 9); m = r.randint(1, 9)
        A = bv.rbcrs(r, b, n, k, density=r.choice([0.2, 0.4]), dups=False)
        B = bv.sorted_distinct(bv.rbcrs(r, b, k, m, density=r.choice([0.2, 0.4]), dups=False), b)
        for nt in nts:
            lines.append("bp%d.%d bm.product %d %d %s %s 1" % (it, nt, b, nt, bv.fmt_bcrs(n, k, A), bv.fmt_bcrs(k, m, B)))
    out = {}
    for nt in nts:   # the driver insists that the thread count named in the case is the one it runs with
        ls = [l for l in lines if l.split(" ", 1)[0].endswith(".%d" % nt)]
        out.update(ctx["run_driver"](ctx["cpp"]["matops_block"], ls, env_extra={"OMP_NUM_THREADS": str(nt), "OMP_WAIT_POLICY": "passive"},
                                     shards=(8 if nt <= 2 else 2)))
    st = ctx["stats"]
    for l in lines:
        cid = l.split(" ", 1)[0]; it, nt = cid[2:].split(".")
        o = out.get(cid)
        st["evaluations"] += 1; st["by_op"]["bm.product@threads"] = st["by_op"].get("bm.product@threads", 0) + 1
        if o is not None and not o.startswith(("EXC", "CRASH", "UNSUPPORTED")): st["nontrivial"] += 1
        if nt == "1": base[it] = (o, l); continue
        st["oracle_checks"] += 1
        if o != base[it][0]:
            st["mismatches"] += 1
            fails.append(dict(kind="counterexample", case=l, impl=o, model=base[it][0], op="bm.product", size=len(l), stage="block-product",
                              case_lines=[base[it][1], l],
                              theorem="C09: block-valued matrix product identical for every thread count (exact arithmetic; "
                                      "C08_nc_product_algorithms_agree / C08_nc_product_dense_all_thread_counts): %s threads vs 1 thread" % nt))
    return fails



def run(ctx, cases_override=None):
    lines = cases_override or cases(ctx["tier"], ctx["seed"])
    fails = []
    by_id = {l.split(" ", 1)[0]: l for l in lines}
    sched = [l for l in lines if l.split(" ", 2)[1] in ("gs_sched", "ilu_sched")]
    sweeps = [l for l in lines if l.split(" ", 2)[1] in ("gs_sweep", "ilu_solve")]
    mtests = [l for l in lines if l.split(" ", 2)[1].startswith("m.")]
    kern = [l for l in lines if l.startswith("k")]
    # order by thread count so that a shard keeps its thread team
    def ntkey(l):
        t = l.split(" ", 5); op = t[1]
        return int(t[3]) if op in ("gs_sched", "gs_sweep", "d.gs_sweep") else int(t[2])
    sched.sort(key=ntkey); sweeps.sort(key=ntkey)

    # S1: tables, implementation vs model
    f, impl, model = diff_run(ctx, "sched", sched, env=ENV, shards=8, nontrivial=nontrivial,
                              theorem="correspondence: per-thread schedule tables of the implementation vs GsSched.v / IluSched.v")
    for x in f: x["stage"] = "tables"
    fails += f
    # S2: oracle on the implementation's tables
    olines = []
    for l in sched:
        cid, op, payload = l.split(" ", 2)
        o = impl.get(cid)
        if o is None or o.startswith(("SERIAL", "EXC", "CRASH", "UNSUPPORTED")) or "BAD" in o:
            if o is not None and ("BAD" in o or o.startswith(("EXC", "CRASH"))):
                fails.append(dict(kind="counterexample", case=l, impl=o, model=model.get(cid), op=op, size=len(l), stage="tables",
                                  theorem="schedule dump is well formed"))
            continue
        tok = payload.split()
        try:
            if op == "gs_sched":
                n, m, rows, p = parse_case_crs(tok, 3)
                A = " ".join(tok[3:p])
                olines.append("%s.o gs_sched_check %s %s %s" % (cid, tok[0], A, tables_tokens(split_top(o))))
            else:
                n, m, rows, p = parse_case_crs(tok, 1); L = " ".join(tok[1:p])
                n2, m2, rows2, p2 = parse_case_crs(tok, p); U = " ".join(tok[p:p2])
                lo, up = o.split(" ; ")
                olines.append("%s.ol sptr_sched_check 1 %s %s" % (cid, L, tables_tokens(split_top(lo))))
                olines.append("%s.ou sptr_sched_check 0 %s %s" % (cid, U, tables_tokens(split_top(up))))
        except Exception as e:
            fails.append(dict(kind="counterexample", case=l, impl=o, model=model.get(cid), op=op, size=len(l), stage="tables",
                              theorem="schedule dump is parseable (%s)" % e))
    fails += oracle_run(ctx, olines,
        "implementation's schedule satisfies Sched.sched_ok (every row once; level_conflict_free; dependencies across levels in "
        "serial order) -- by SchedProofs.sched_ok_sound every interleaving then gives the serial result",
        lambda cid: by_id.get(cid.rsplit(".", 1)[0]))

    # S3: real sweeps / solves vs the serial definitions
    f, impl3, model3 = diff_run(ctx, "sched", sweeps, env=ENV, shards=8, nontrivial=nontrivial,
                                theorem="parallel sweep / solve of the implementation (exact arithmetic, repeated) = serial definition "
                                        "(C09_gs_parallel_sweep_serial / C09_sptr_solve_serial)")
    fails += f
    # the race witness is hunted with active waiting as well (more overlap between the threads)
    wit = [l for l in sweeps if " 4000 " in l or " 200000 " in l]
    if wit:
        f, _, _ = diff_run(ctx, "sched", wit, env={"OMP_WAIT_POLICY": "active"}, shards=1, nontrivial=nontrivial,
                           theorem="parallel sweep of the implementation = serial definition (race witness, many repetitions)")
        fails += f

    # S5: statement tests on the model
    if mtests:
        res = ctx["run_driver"](ctx["model"], mtests)
        for l in mtests:
            cid, op = l.split(" ", 2)[:2]
            ctx["stats"]["oracle_checks"] += 1
            o = res.get(cid, "")
            if o.startswith("valid") and not o.endswith("same") or not o.startswith(("valid", "invalid")):
                fails.append(dict(kind="broken-theorem", case=l, impl=None, model=o, op=op, size=len(l),
                                  theorem="statement test: valid model schedule under a scripted interleaving = serial result"))

    # S6: reduced teams
    team = [l for l in lines if l.split(" ", 2)[1] in ("gs_team", "ilu_team") and not l.startswith("TL")]
    big = [l for l in lines if l.split(" ", 2)[1] in ("gs_team", "ilu_team") and l.startswith("TL")]
    if big:
        # one process per case: on the unrepaired code the region reads tasks[tid] out of bounds
        f, _, _ = diff_run(ctx, "sched", big, env=ENV, shards=len(big), nontrivial=nontrivial, timeout=120,
                           theorem="level-scheduled sweep / solve executed by a team LARGER than the thread count of the set-up "
                                   "= serial definition (C09_gs_parallel_sweep_any_team / C09_sptr_solve_any_team hold for every k >= 1)")
        for x in f: x["stage"] = "enlarged-team"
        fails += f
    tkern = [l for l in lines if l.split(" ", 2)[1].startswith("tt.")]
    if team:
        f, impl6, model6 = diff_run(ctx, "sched", team, env=ENV, shards=8, nontrivial=nontrivial,
                                    theorem="level-scheduled sweep / solve executed by a team SMALLER than the thread count of the set-up "
                                            "(team and max threads as printed by the driver) = serial definition "
                                            "(C09_gs_parallel_sweep_any_team / C09_sptr_solve_any_team for the repaired code; "
                                            "C09_gs_reduced_team_refuted / C09_sptr_reduced_team_refuted for the code as it was)")
        if f:
            # what the faithful model of the EXISTING code predicts for the failing cases
            tl = []
            for x in f:
                cid, op, payload = x["case"].split(" ", 2)
                tl.append("%s m.%s_trunc %s" % (cid, op, payload))
            tm = ctx["run_driver"](ctx["model"], tl)
            for x in f:
                x["trunc_model"] = tm.get(x["case"].split(" ", 1)[0])
                x["stage"] = "reduced-team"
        fails += f
    if tkern:
        tmod = [l for l in tkern if l.split(" ", 2)[1] != "tt.gershgorin"]
        f, impl7, model7 = diff_run(ctx, "sched", tmod, env=ENV, shards=8, nontrivial=nontrivial,
                                    theorem="row-parallel backend primitive executed by a team smaller than omp_get_max_threads() "
                                            "(team / max as printed by the driver) = Coq model (Kernels.v / MatOps.v)")
        for x in f: x["stage"] = "reduced-team"
        fails += f
        # Gershgorin radius: no model op in this group; same value for every (set-up, team, mode), right header
        gl = [l for l in tkern if l.split(" ", 2)[1] == "tt.gershgorin"]
        og = ctx["run_driver"](ctx["cpp"]["sched"], gl, env_extra=ENV, shards=4)
        account(ctx, gl, og, nontrivial)
        groups = {}
        for l in gl:
            cid, op, payload = l.split(" ", 2)
            tk = payload.split()
            want = "team=%d max=%d " % team_of(int(tk[0]), int(tk[1]), int(tk[2]))
            o = og.get(cid)
            if o is None or not o.startswith(want):
                ctx["stats"]["mismatches"] += 1
                fails.append(dict(kind="counterexample", case=l, impl=o, model=want + "...", op=op, size=len(l), stage="reduced-team",
                                  theorem="reduced team: the driver sees the team / max threads the mode is meant to give"))
                continue
            groups.setdefault(cid.split(".g")[1], []).append((l, o[len(want):]))
        for g, items in groups.items():
            for l, v in items[1:]:
                if v != items[0][1]:
                    ctx["stats"]["mismatches"] += 1
                    fails.append(dict(kind="counterexample", case=l, impl=v, model=items[0][1], op="tt.gershgorin", size=len(l),
                                      stage="reduced-team", case_lines=[items[0][0], l],
                                      theorem="Gershgorin spectral radius identical for every set-up thread count and executing team"))

    # S4: kernels across thread counts
    if kern:
        exact = [l for l in kern if not l.split(" ", 2)[1].startswith("d.")]
        dbl = [l for l in kern if l.split(" ", 2)[1].startswith("d.")]
        kern.sort(key=lambda l: int(l.split(" ", 1)[0].rsplit("@", 1)[1]))
        outk = ctx["run_driver"](ctx["cpp"]["sched"], kern, env_extra=ENV, shards=8)
        for _ in range(4):
            # a crashing case takes the rest of its shard with it: re-run what got no answer
            todo = [l for l in kern if l.split(" ", 1)[0] not in outk]
            if not todo: break
            outk.update(ctx["run_driver"](ctx["cpp"]["sched"], todo, env_extra=ENV, shards=8))
        account(ctx, kern, outk, nontrivial)
        groups = {}
        for l in kern:
            cid = l.split(" ", 1)[0]; base, nt = cid.rsplit("@", 1)
            groups.setdefault(base, []).append((int(nt), cid, l))
        for base, g in groups.items():
            g.sort()
            op = g[0][2].split(" ", 2)[1]
            ref_nt, ref_id, ref_l = g[0]
            ref = outk.get(ref_id)
            bad = False
            for nt, cid, l in g:
                o = outk.get(cid)
                # an exception (e.g. empty_level: no coarse points) is a regular outcome and must simply
                # be the same at every thread count
                if o is None or o.startswith(("CRASH", "UNSUPPORTED")):
                    bad = True
                    ctx["stats"]["mismatches"] += 1
                    fails.append(dict(kind="counterexample", case=l, impl=o, model=None, op=op, size=len(l),
                                      theorem="kernel runs at %d threads (no crash)" % nt))
            if bad: continue
            if op.endswith("t.product"):
                def parts(o):
                    i = o.index(" S "); return o[2:i], o[i + 3:]
                lo = [(nt, cid, l) for nt, cid, l in g if nt <= 16]; hi = [(nt, cid, l) for nt, cid, l in g if nt > 16]
                for grp in (lo, hi):
                    for nt, cid, l in grp[1:]:
                        if outk.get(cid) != outk.get(grp[0][1]):
                            ctx["stats"]["mismatches"] += 1
                            fails.append(dict(kind="counterexample", case=l, impl=outk.get(cid), model=outk.get(grp[0][1]), op=op, size=len(l),
                                              theorem="matrix product identical (storage order) at %d and %d threads" % (grp[0][0], nt)))
                if lo and hi:
                    a = parts(outk[lo[0][1]])[1]; b = parts(outk[hi[0][1]])[1]
                    if a != b:
                        ctx["stats"]["mismatches"] += 1
                        fails.append(dict(kind="counterexample", case=hi[0][2], impl=b, model=a, op=op, size=len(hi[0][2]), stage="saad-vs-rmerge",
                                          theorem="matrix product (rows sorted) identical at %d and %d threads" % (lo[0][0], hi[0][0])))
            else:
                for nt, cid, l in g[1:]:
                    if outk.get(cid) != ref:
                        ctx["stats"]["mismatches"] += 1
                        fails.append(dict(kind="counterexample", case=l, impl=outk.get(cid), model=ref, op=op, size=len(l),
                                          theorem="%s identical at %d and %d threads (%s)" % (op, ref_nt, nt, "bit patterns" if op.startswith("d.") else "exact")))
        for x in fails:
            cid = (x.get("case") or "").split(" ", 1)[0]
            if cid.startswith("k") and "@" in cid and not x.get("case_lines"):
                x["case_lines"] = [l for _, _, l in groups.get(cid.rsplit("@", 1)[0], [])]
        # exact kernels with a model: the value itself
        modelled = [l for l in exact if l.split(" ", 2)[1] in ("t.spmv", "t.residual", "t.axpby", "t.axpbypcz", "t.vmul", "t.inner",
                                                                "t.product", "t.sum", "t.transpose")]
        mo = ctx["run_driver"](ctx["model"], modelled)
        for l in modelled:
            cid, op = l.split(" ", 2)[:2]
            if outk.get(cid) != mo.get(cid):
                ctx["stats"]["mismatches"] += 1
                fails.append(dict(kind="counterexample", case=l, impl=outk.get(cid), model=mo.get(cid), op=op, size=len(l),
                                  theorem="kernel at a thread count = Coq model (Kernels.v / MatOps.v)"))
    if not cases_override:
        fails += block_product_stage(ctx)
    else:
        bl = [l for l in cases_override if l.split(" ", 2)[1] == "bm.product"]
        if len(bl) >= 2:
            out = {}
            for l in bl:
                out.update(ctx["run_driver"](ctx["cpp"]["matops_block"], [l], env_extra={"OMP_NUM_THREADS": l.split(" ", 4)[3], "OMP_WAIT_POLICY": "passive"}, shards=1))
            ref = out.get(bl[0].split(" ", 1)[0])
            for l in bl[1:]:
                o = out.get(l.split(" ", 1)[0])
                if o != ref:
                    fails.append(dict(kind="counterexample", case=l, impl=o, model=ref, op="bm.product", size=len(l), case_lines=bl,
                                      theorem="C09: block-valued matrix product identical for every thread count"))
    fails += hier_threads_stage(ctx, cases_override)
    return fails


# ------------------------------------------------------------------ S7: whole hierarchies at every thread count
# Driver harness/drv_hier_threads.cpp.  One process per thread count (OMP_NUM_THREADS in the environment), the
# hierarchy is built by amg's own constructor, every level is dumped in storage order, apply() and cycle() are run.
HT_NTS_Q = [1, 2, 4, 16, 17, 32]
HT_NTS_T = [1, 2, 3, 4, 5, 8, 12, 16, 17, 20, 24, 32]
HT_COARSENINGS = ["smoothed_aggregation", "aggregation", "ruge_stuben", "smoothed_aggr_emin"]
HT_FILL = ["00", "ff", "rand", "a5", "5a", "rand", "3c", "c3"]      # VQ_POISON_FILL, different for neighbouring thread counts
HT_OPS = ("ht.", "d.ht.", "htb.")

def ht_cfg(r, n, coarsening, exact_small=True, rich=False):
    ce = r.choice([1, 2, 3, max(1, n // 6)])
    cprm = dict(eps_strong=fmt_q(gen.f32(F(r.choice(["2/25", "2/25", "1/4", "1/8", "0", "1/16"])))), relax="-", over_interp="-",
                do_trunc="-", eps_trunc="-")
    if coarsening == "aggregation": cprm["over_interp"] = r.choice(["-", "3/2", "2", "5/4"])
    if coarsening == "smoothed_aggregation": cprm["relax"] = r.choice(["-", "-", "1", "3/4", "3/2", "g-", "g1"])   # g: Gershgorin estimate
    if coarsening == "ruge_stuben":
        cprm["do_trunc"] = r.choice(["-", "1", "0"]); cprm["eps_trunc"] = r.choice(["-", "1/4", "1/8"])
        cprm["eps_strong"] = fmt_q(gen.f32(F(r.choice(["1/4", "1/4", "1/2", "1/8"]))))
    # exact rationals: the size of the numbers grows with every smoothing step and every level, so deep hierarchies get a
    # plain V(1,1) / V(1,0) / V(0,1) cycle and W-cycles, two smoothing steps, two pre-cycles go with at most two levels
    ml = r.choice([4294967295, 4294967295, 3, 3, 2]) if exact_small else r.choice([4294967295, 3, 3, 3, 2] if rich else [3, 3, 3, 2])
    if ml == 2 or rich:      # rich: double values only
        cyc = [r.choice([1, 1, 2, 0]), r.choice([1, 1, 0]), r.choice([1, 1, 2]), r.choice([1, 1, 2])]
        if ml > 3: cyc[2] = 1        # a W-cycle over many levels enters thousands of tiny parallel regions (slow at 32 threads)
    else:
        cyc = [r.choice([1, 1, 0]), r.choice([1, 1, 0]), 1, 1]
        if cyc[0] == 0 and cyc[1] == 0: cyc[1] = 1
    if coarsening == "smoothed_aggr_emin" and not rich and ml > 2: ml = 3 if n <= 12 else 2
    if not rich and n >= 40 and ml > 2: ml = 2
    cfg = [ce, r.choice([1, 1, 1, 0]), ml] + cyc
    return " ".join(str(x) for x in cfg) + " " + " ".join(cprm[k] for k in ("eps_strong", "relax", "over_interp", "do_trunc", "eps_trunc"))

def hier_cases(tier, seed):
    """own generator (the cases of the other stages do not move).  ids h<k>: exact, hd<k>: double, hb<k>: 2x2 blocks"""
    import props.amg_block as ab
    r = random.Random(seed * 1000 + 919)
    out = []
    nsc = 10 if tier == "quick" else 40          # per coarsening
    k = 0
    for it in range(nsc):
        for co in HT_COARSENINGS:
            n = r.choice([9, 12, 16, 20, 25, 30, 36] + ([49] if co != "ruge_stuben" else []) + ([49, 64, 81] if tier == "thorough" else []))
            if co == "smoothed_aggr_emin": n = r.choice([9, 12, 16, 20])     # its P has the longest rationals of the four
            u = r.random()
            if u < 0.45: rows = gen.spd_mmatrix(r, n, kind="grid")
            elif u < 0.75: rows = gen.spd_mmatrix(r, n, kind=r.choice(["graph", "graph", "path"]))
            elif u < 0.9: rows = gen.nonsym_dd(r, n, density=min(0.4, 3.5 / n))
            else: rows = gen.convdiff(r, n, two_d=True)
            # values of different size: strength of connection and truncation decisions are not all alike
            # (dyadic factors for the larger systems: the exact rationals of a three-level hierarchy stay affordable)
            mult = [F(1), F(1), F(1, 3), F(7, 10), F(2)] if n < 30 else [F(1), F(1), F(1, 2), F(2), F(1, 4)]
            rows = [[(c, v * r.choice(mult) if c != i else v * 2) for c, v in rw] for i, rw in enumerate(rows)]
            if r.random() < 0.4: rows = gen.shuffle_rows(r, rows)       # amg(const Matrix&) copies and sorts
            tail = "%s %s %s %s" % (ht_cfg(r, n, co, n <= 20), fmt_crs(n, n, rows), fmt_vec(gen.rvec(r, n, nz=True)), fmt_vec(gen.rvec(r, n)))
            out.append("h%d ht.%s %s" % (k, co, tail))
            # double: not smoothed_aggr_emin -- its omega is accumulated in an unordered critical section, which the property
            # lists under 'equal up to summation-order rounding' (in exact arithmetic it is compared like the others)
            if co != "smoothed_aggr_emin": out.append("hd%d d.ht.%s %s" % (k, co, tail))
            k += 1
    # larger systems in double only (cheap): more levels, more rows per thread at 16 / 32 threads
    for it in range(6 if tier == "quick" else 24):
        for co in HT_COARSENINGS[:3]:
            n = r.choice([100, 144, 225, 400])
            rows = gen.spd_mmatrix(r, n, kind=r.choice(["grid", "grid", "graph"])) if r.random() < 0.8 else gen.convdiff(r, n, two_d=True)
            rows = [[(c, v * r.choice([F(1), F(1), F(1, 3), F(7, 10)]) if c != i else v * 2) for c, v in rw] for i, rw in enumerate(rows)]
            out.append("hd%d d.ht.%s %s %s %s %s" % (k, co, ht_cfg(r, n, co, rich=True), fmt_crs(n, n, rows), fmt_vec(gen.rvec(r, n, nz=True)), fmt_vec(gen.rvec(r, n))))
            k += 1
    for it in range(8 if tier == "quick" else 32):
        for var, co in (("sa", "smoothed_aggregation"), ("agg", "aggregation")):
            nb = r.choice([5, 6, 8, 9, 10, 12, 16])
            rows = gen.spd_block(r, 2, nb, incomplete=(r.random() < 0.6), kron=(r.random() < 0.15))
            brows = ab.to_blocks(rows, 2)
            if r.random() < 0.4: brows = [r.sample(rw, len(rw)) for rw in brows]
            out.append("hb%d htb.%s %s %s %s %s" % (k, var, ht_cfg(r, nb, co, nb <= 8), ab.fmt_bcrs(nb, nb, brows),
                                                   fmt_vec(gen.rvec(r, 2 * nb, nz=True)), fmt_vec(gen.rvec(r, 2 * nb))))
            k += 1
    return out

def ht_first_difference(a, b):
    """where two outputs of drv_hier_threads differ (for the message only)"""
    if a is None or b is None: return "no output"
    sa, sb = a.split(" ; "), b.split(" ; ")
    if len(sa) != len(sb) or len(sa) != 3: return "outcome %s vs %s" % (a[:40], b[:40])
    if sa[0] != sb[0]:
        ia, ib = split_top(sa[0]), split_top(sb[0])
        if ia[:2] != ib[:2]: return "number of levels %s vs %s" % (ia[1] if len(ia) > 1 else "?", ib[1] if len(ib) > 1 else "?")
        lvl = -1; names = []
        for j in range(2, min(len(ia), len(ib))):
            if ia[j] in ("M", "L", "S") and not ia[j].startswith("{"):
                lvl += 1; names = {"M": ["A", "P", "R"], "L": ["A"], "S": ["A"]}[ia[j]]; pos = 0
                if ia[j] != ib[j]: return "kind of level %d (%s vs %s)" % (lvl, ia[j], ib[j])
                continue
            if ia[j] != ib[j]:
                ra, rb = ia[j].split("|"), ib[j].split("|")
                what = names[pos] if pos < len(names) else "?"
                if ra[0] != rb[0]: return "level %d, shape of %s (%s vs %s)" % (lvl, what, ra[0].strip("{ "), rb[0].strip("{ "))
                row = next((q - 1 for q in range(1, min(len(ra), len(rb))) if ra[q] != rb[q]), -1)
                nza = sum(len(x.split()) for x in ra[1:]); nzb = sum(len(x.split()) for x in rb[1:])
                return "level %d, matrix %s, row %d (stored entries %d vs %d)" % (lvl, what, row, nza, nzb)
            pos += 1
        return "hierarchy dump"
    return "result of apply()" if sa[1] != sb[1] else "result of cycle()"

def hier_threads_stage(ctx, cases_override=None):
    """C09 'bitwise identical ... transfer operators and their hierarchies': amg<builtin<V>, C, spai0> hierarchies for
    C in {smoothed_aggregation, aggregation, ruge_stuben, smoothed_aggr_emin}, V = vq::Q (exact) and double (bit patterns),
    and V = static_matrix<vq::Q,2,2> for smoothed aggregation / aggregation, built in a process started with
    OMP_NUM_THREADS = 1, 2, 4, 16, 17, 32 (thorough: 12 counts).  All levels (A, P, R in storage order, the matrix handed to
    the direct solver) and the results of apply() and cycle() must be identical for every thread count.  Exact values: every
    count against 1 thread (in particular across the 16 -> 17 switch of backend::product from spgemm_saad to spgemm_rmerge).
    double: within 1..16 and within 17..32 (across the switch the summation order of the Galerkin products differs: known
    finding C09-product-saad-rmerge, and a rounding difference may flip a later strength-of-connection decision)."""
    tier = ctx["tier"]
    if cases_override:
        lines = [l for l in cases_override if l.split(" ", 2)[1].startswith(HT_OPS)]
        if not lines: return []
    else:
        lines = hier_cases(tier, ctx["seed"])
    nts = HT_NTS_Q if tier == "quick" else HT_NTS_T
    exe = ctx["cpp"]["hier_threads"]
    st = ctx["stats"]
    outs = {}
    for k, nt in enumerate(nts):
        env = dict(ENV); env.update({"OMP_NUM_THREADS": str(nt), "VQ_POISON_FILL": HT_FILL[k % len(HT_FILL)]})
        sh = 8 if nt <= 2 else (4 if nt <= 4 else 2)
        o = ctx["run_driver"](exe, lines, env_extra=env, shards=sh, timeout=900)
        for _ in range(3):      # a crashing case takes the rest of its shard with it: re-run what got no answer
            todo = [l for l in lines if l.split(" ", 1)[0] not in o]
            if not todo: break
            o.update(ctx["run_driver"](exe, todo, env_extra=env, shards=sh, timeout=900))
        outs[nt] = o
    fails = []
    def fail(l, nt, ref_nt, got, want, why):
        st["mismatches"] += 1
        op = l.split(" ", 2)[1]
        fails.append(dict(kind="counterexample", case=l, impl=got, model=want, op=op, size=len(l), stage="hierarchy-threads", case_lines=[l],
                          env={"OMP_NUM_THREADS": str(nt)}, threads=nt, reference_threads=ref_nt,
                          theorem="C09: amg hierarchy (all levels, storage order) and apply()/cycle() identical for every thread count (%s): "
                                  "OMP_NUM_THREADS=%d vs %d -- %s" % ("bit patterns, double" if op.startswith("d.") else "exact arithmetic", nt, ref_nt, why)))
    for l in lines:
        cid, op = l.split(" ", 2)[:2]
        body = {}
        for nt in nts:
            o = outs[nt].get(cid)
            st["evaluations"] += 1; st["by_op"][op + "@threads"] = st["by_op"].get(op + "@threads", 0) + 1
            if o is None or o.startswith(("CRASH", "UNSUPPORTED")):
                fail(l, nt, nt, o, None, "the driver crashed or gave no answer"); body[nt] = None; continue
            if o.startswith("EXC"):
                body[nt] = o; continue          # an exception is a regular outcome: the same one at every thread count
            hd, _, rest = o.partition(" ")
            if hd != "nt=%d" % nt:
                fail(l, nt, nt, o, "nt=%d ..." % nt, "the driver does not run with the thread count asked for"); body[nt] = None; continue
            body[nt] = rest
        h = hashlib_sha(op + " " + l.split(" ", 2)[2])
        if h not in st["distinct"]:
            st["distinct"].add(h)
            b1 = body.get(nts[0])
            if b1 and b1.startswith("D ") and int(b1.split(" ", 2)[1]) >= 2: st["nontrivial"] += 1
        groups = [nts] if not op.startswith("d.") else [[nt for nt in nts if nt <= 16], [nt for nt in nts if nt > 16]]
        for g in groups:
            g = [nt for nt in g if body.get(nt) is not None]
            for nt in g[1:]:
                st["oracle_checks"] += 1
                if body[nt] != body[g[0]]:
                    fail(l, nt, g[0], body[nt], body[g[0]], "first difference: " + ht_first_difference(body[nt], body[g[0]]))
    return fails

def hashlib_sha(s):
    import hashlib
    return hashlib.sha256(s.encode()).hexdigest()
