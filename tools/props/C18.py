"""C18 -- composite preconditioners realise their block formulas.

  schur   : schur_pressure_correction with exact inner solvers (USolver = single-level amg =
            skyline LU under preonly; PSolver = exact dense solve of the matrix-free operator it is
            handed, recording the preconditioner matrix): apply() on all unit vectors vs the
            extracted Composite.v formulas (inner solvers as verified function arguments);
            oracles: type 1 is the exact inverse (K apply(e_i) = e_i), type 2 solves the block
            upper-triangular system, sub-blocks + gather/scatter reassemble K.
  pattern : pmask_pattern strings through the property-tree constructor, each under a timeout.
  cpr     : operator on all unit vectors + pressure matrix vs the extracted Cpr.v set-up (scalar input,
            block-valued input, active_rows < n, unsorted rows, partial_update); oracles:
            x = S f + Scatter P (Fpp (f - A S f)), pressure matrix = first-row-of-inverse-diagonal-
            block weighting of the active part; scalar input with block_size b vs b x b block-valued
            input; partial update with an unchanged matrix.
  cprdrs  : the same for cpr_drs (dynamic row sum weights; dyadic eps_dd / eps_ps / weights) vs CprDrs.v
            and vs an independent evaluation of the rule (drs_spec).
  deflate : init() + project() / apply() vs the model (E^-1 through Inverse.v); projection leaves a
            residual orthogonal to the deflation vectors; full solve.
"""
import random, subprocess, os
from fractions import Fraction as F
from vcheck import fmt_q, fmt_vec, fmt_crs, split_top
import gen
from props.common import diff_run, oracle_run, account
from props import C17 as c17

DRIVERS = ["composite"]
MODEL = "composite"
ASSUMPTIONS = [
    "amgcl templates instantiated at the exact rational vq::Q execute the same code as at double",
    "inner solvers of the composites are replaced by exact ones through the documented template parameters (USolver/PSolver/PPrecond); the composite's own code (sub-block extraction, adjust_p, apply, matrix-free spmv, transfer operators) is the real one",
    "the model-side inner solvers are dense eliminations in the OCaml driver whose every result is verified against the extracted specification before use",
]
TRUSTED_BASE = ["harness/drv_composite.cpp (exact_dense_solver, rec_exact_precond), ocaml/composite/ops_composite.ml"]


def saddle(r, nu, np_, with_c):
    """[[A, B^T],[B, -C]] : A SPD strictly diagonally dominant, B random (full rank with high
    probability), C = 0 (structurally empty pressure block) or a small SPD diagonal"""
    A = gen.spd_mmatrix(r, nu, extra_diag=F(1))
    n = nu + np_
    rows = [dict(rw) for rw in A] + [dict() for _ in range(np_)]
    for i in range(np_):
        cols = r.sample(range(nu), r.randint(1, min(nu, 3)))
        for c in cols:
            v = gen.rq(r, nz=True); rows[nu + i][c] = v; rows[c][nu + i] = v
        if with_c: rows[nu + i][nu + i] = -F(r.choice([1, 2, 3]), r.choice([1, 2]))
    return [sorted(rw.items()) for rw in rows]


def permute_sym(rows, p):
    """P K P^T for the permutation p (new index -> old index)"""
    inv = {o: k for k, o in enumerate(p)}
    return [sorted((inv[c], v) for c, v in rows[p[i]]) for i in range(len(rows))]


def spec_mask(spec, n):
    kind, arg = spec.split(":", 1)
    if kind == "il": k = int(arg); return [i % k == k - 1 for i in range(n)]
    if kind == "ct": k = int(arg); return [i >= n - k for i in range(n)]
    if kind == "hd": k = int(arg); return [i < k for i in range(n)]
    if kind == "list": return [ch == "1" for ch in arg]
    if arg[0] == "%":
        st, sd = [int(x) for x in arg[1:].split(":")]; return [i >= st and (i - st) % sd == 0 for i in range(n)]
    if arg[0] == "<": return [i < int(arg[1:]) for i in range(n)]
    return [i >= int(arg[1:]) for i in range(n)]


def diff_run_all(ctx, driver, lines, theorem=None):
    """diff_run, re-running the cases left unanswered because an earlier case of the same shard killed a driver"""
    impl = c17.run_all(ctx, ctx["cpp"][driver], lines)
    model = c17.run_all(ctx, ctx["model"], lines)
    account(ctx, lines, impl)
    fails = []
    for l in lines:
        cid, op = l.split(" ", 2)[:2]
        a, b = impl.get(cid), model.get(cid)
        if a != b:
            ctx["stats"]["mismatches"] += 1
            fails.append(dict(kind="counterexample", case=l, impl=a, model=b, op=op, size=len(l),
                              theorem=theorem or ("correspondence %s: implementation vs Coq model (%s)" % (driver, op))))
    return fails, impl, model


def schur_cases(tier, seed):
    r = random.Random(seed * 1000 + 181)
    N = 24 if tier == "quick" else 150
    out = []
    for it in range(N):
        kind = it % 4
        if kind == 0:      # general diagonally dominant matrix, arbitrary masks
            n = r.choice([3, 4, 5, 6, 8])
            rows = gen.nonsym_dd(r, n, density=r.choice([0.4, 0.7, 1.0]))
            k = r.choice([2, 3])
            specs = ["il:%d" % k, "ct:%d" % r.randint(1, n - 1), "hd:%d" % r.randint(1, n - 1)]
            m = [r.random() < 0.4 for _ in range(n)]
            if all(m): m[0] = False
            if not any(m): m[-1] = True
            specs.append("list:" + "".join("1" if x else "0" for x in m))
            specs += ["pat:%%%d:%d" % (r.randint(0, min(n - 1, 9)), r.randint(1, 3)), "pat:<%d" % r.randint(1, n - 1), "pat:>%d" % r.randint(1, n - 1)]
            specs = r.sample(specs, 3)
        else:              # saddle point, contiguous and interleaved numbering
            nu = r.choice([2, 3, 4, 5]); np_ = r.randint(1, min(nu, 3)); n = nu + np_
            rows = saddle(r, nu, np_, with_c=(kind == 3))
            specs = ["ct:%d" % np_]
            if kind == 2:      # interleave the unknowns: pressure mask as an explicit list
                p = list(range(n)); r.shuffle(p)
                rows = permute_sym(rows, p)
                specs = ["list:" + "".join("1" if p[i] >= nu else "0" for i in range(n))]
        if r.random() < 0.4: rows = gen.shuffle_rows(r, rows)
        A = fmt_crs(len(rows), len(rows), rows)
        # the mask must split the unknowns into two non-empty sets (a mask that marks every unknown, e.g.
        # "%0:1", leaves an empty Kuu: outside the domain of the composite -- the constructor segfaults)
        specs = [sp for sp in specs if 0 < sum(spec_mask(sp, len(rows))) < len(rows)]
        for spec in specs:
            for typ in (1, 2):
                for adj in (0, 1, 2):
                    approx = 1 if r.random() < 0.15 else 0
                    simplec = r.choice([0, 1])
                    out.append(dict(id="s%d" % len(out), line="schur %d %d %d %d %s %s" % (typ, adj, approx, simplec, spec, A),
                                    typ=typ, adj=adj, approx=approx, spec=spec, rows=rows, crs=A))
    return out


def cpr_cases(tier, seed):
    r = random.Random(seed * 1000 + 182)
    N = 12 if tier == "quick" else 80
    out = []
    for it in range(N):
        b = r.choice([2, 2, 3]); nb = r.choice([1, 2, 3, 4]); n = b * nb
        rows = gen.nonsym_dd(r, n, density=r.choice([0.3, 0.6, 1.0]))
        A = fmt_crs(n, n, rows)
        for kind in ("scalar_dummy", "block_dummy", "scalar_spai0", "update_dummy"):
            out.append(dict(id="c%d" % len(out), line="cpr %s %d 0 %s" % (kind, b, A), kind=kind, b=b, active=0, crs=A, grp=it))
        # active_rows < n: the trailing unknowns (wells) take no part in the pressure system;
        # active_rows a multiple of the block size (the set-up leaves scatter->ptr unset otherwise)
        if nb >= 2:
            act = b * r.randint(1, nb - 1)
            extra = r.choice([0, 1, 2])      # trailing rows that do not even fill a block
            n2 = n + extra
            rows2 = gen.nonsym_dd(r, n2, density=r.choice([0.5, 1.0])) if extra else rows
            A2 = fmt_crs(n2, n2, rows2)
            for kind in ("scalar_dummy", "scalar_spai0", "update_dummy"):
                out.append(dict(id="c%d" % len(out), line="cpr %s %d %d %s" % (kind, b, act, A2), kind=kind, b=b, active=act, crs=A2, grp=None))
            # block-valued input with active_rows < n (in block units): must be the scalar operator
            out.append(dict(id="c%d" % len(out), line="cpr scalar_dummy %d %d %s" % (b, act, A), kind="scalar_dummy", b=b, active=act, crs=A, grp="a%d" % it))
            out.append(dict(id="c%d" % len(out), line="cpr block_dummy %d %d %s" % (b, act, A), kind="block_dummy", b=b, active=act, crs=A, grp="a%d" % it,
                            coupled=any(c >= act for i in range(act) for c, _ in rows[i])))
        # rows listed in arbitrary order: the template constructor sorts its copy
        if it % 3 == 0:
            As = fmt_crs(n, n, gen.shuffle_rows(r, rows))
            for kind in ("scalar_dummy", "update_dummy"):
                out.append(dict(id="c%d" % len(out), line="cpr %s %d 0 %s" % (kind, b, As), kind=kind, b=b, active=0, crs=A, grp=None))
    return out


DYADIC = [F(0), F(1, 32), F(1, 4), F(1, 2), F(1), F(2), F(8)]

def cprdrs_cases(tier, seed):
    """cpr_drs: dynamic-row-sum weights; eps_dd, eps_ps and the weights are dyadic (exact doubles)"""
    r = random.Random(seed * 1000 + 184)
    N = 14 if tier == "quick" else 90
    out = []
    for it in range(N):
        b = r.choice([2, 2, 3]); nb = r.choice([1, 2, 3, 4]); n = b * nb
        rows = gen.nonsym_dd(r, n, density=r.choice([0.3, 0.6, 1.0]))
        if it % 2 == 0:
            # weaken the diagonal dominance of the non-pressure equations so that the eps tests bite
            rows = [[(c, (v / r.choice([1, 2, 8, 64]) if (c == i and i % b) else v)) for c, v in rw] for i, rw in enumerate(rows)]
        eps_dd = r.choice(DYADIC); eps_ps = r.choice(DYADIC)
        act = 0 if (nb < 2 or r.random() < 0.6) else b * r.randint(1, nb - 1)
        N_act = act if act else n
        w = [] if r.random() < 0.5 else [F(r.randint(-4, 12), 4) for _ in range(N_act)]
        pre = "%d %d %s %s %s" % (b, act, fmt_q(eps_dd), fmt_q(eps_ps), fmt_vec(w))
        A = fmt_crs(n, n, rows); As = fmt_crs(n, n, rows if it % 4 else gen.shuffle_rows(r, rows))   # scalar input also unsorted
        kinds = ["scalar", "block"] + (["update"] if it % 5 == 0 else [])
        for kind in kinds:
            out.append(dict(id="r%d" % len(out), line="cprdrs %s %s %s" % (kind, pre, A if kind == "block" else As), kind=kind, b=b, active=act, eps_dd=eps_dd, eps_ps=eps_ps, w=w, rows=rows, n=n, grp=it,
                            coupled=bool(act) and any(c >= act for i in range(act) for c, _ in rows[i])))
    return out


def fsolve(M, rhs):
    """exact dense solve over Fractions; None if singular"""
    n = len(rhs); M = [list(rw) for rw in M]; rhs = list(rhs)
    for c in range(n):
        p = next((k for k in range(c, n) if M[k][c] != 0), None)
        if p is None: return None
        M[c], M[p] = M[p], M[c]; rhs[c], rhs[p] = rhs[p], rhs[c]
        for k in range(c + 1, n):
            if M[k][c] != 0:
                f = M[k][c] / M[c][c]
                for j in range(c, n): M[k][j] -= f * M[c][j]
                rhs[k] -= f * rhs[c]
    x = [F(0)] * n
    for i in reversed(range(n)):
        x[i] = (rhs[i] - sum(M[i][j] * x[j] for j in range(i + 1, n))) / M[i][i]
    return x


def drs_spec(c):
    """the documented dynamic-row-sum rule on the dense matrix: weights delta, pressure matrix
    App = W K (pressure columns of the active part), operator x = f + Scatter App^-1 W (f - K f)
    (dummy global stage).  Returns (App rows, operator rows) or None if App is singular"""
    b, n = c["b"], c["n"]; Nact = c["active"] or n; np_ = Nact // b
    D = gen.dense_of(n, n, c["rows"])
    delta = []
    for ip in range(np_):
        dia = [D[ip * b + i][ip * b] for i in range(b)]
        off = [sum(abs(D[ip * b + i][jp * b]) for jp in range(np_) if jp != ip) for i in range(b)]
        top = [sum(abs(D[ip * b][jp * b + k]) for jp in range(np_)) for k in range(b)]
        for i in range(b):
            d = c["w"][ip * b + i] if c["w"] else F(1)
            if i > 0 and (dia[i] < c["eps_dd"] * off[i] or top[i] < c["eps_ps"] * abs(dia[0])): d = F(0)
            delta.append(d)
    App = [[sum(delta[ip * b + i] * D[ip * b + i][jp * b] for i in range(b)) for jp in range(np_)] for ip in range(np_)]
    op = []
    for e in range(n):
        f = [F(1) if k == e else F(0) for k in range(n)]
        rs = [f[i] - D[i][e] for i in range(n)]
        rp = [sum(delta[ip * b + i] * rs[ip * b + i] for i in range(b)) for ip in range(np_)]
        xp = fsolve(App, rp)
        if xp is None: return App, None
        x = list(f)
        for ip in range(np_): x[ip * b] += xp[ip]
        op.append(x)
    return App, op


def dense_of_payload(s):
    """'{n m | c:v ...}' -> dense Fractions (duplicates add up)"""
    parts = s.strip()[1:-1].split("|")
    n, m = [int(x) for x in parts[0].split()]
    D = [[F(0)] * m for _ in range(n)]
    for i, p in enumerate(parts[1:]):
        for e in p.split():
            cc, v = e.split(":"); D[i][int(cc)] += F(v)
    return D


def deflate_cases(tier, seed):
    r = random.Random(seed * 1000 + 183)
    N = 15 if tier == "quick" else 100
    out = []
    for it in range(N):
        n = r.choice([3, 4, 5, 6, 8]); nv = r.randint(1, min(5, n - 1))
        nonsym = (it % 2 == 1)       # non-symmetric A: E = Z^T A Z is not symmetric (index order of E^-1 matters)
        rows = gen.nonsym_dd(r, n) if nonsym else gen.spd_mmatrix(r, n)
        Z = []
        for k in range(nv):   # linearly independent: unit-lower-triangular pattern plus noise
            z = [F(0)] * n
            z[k] = F(1)
            for j in range(k + 1, n):
                if r.random() < 0.6: z[j] = gen.rq(r)
            Z.append(z)
        b = gen.rvec(r, n, nz=True); x0 = gen.rvec(r, n)
        pay = "%s %d %s %s" % (fmt_crs(n, n, rows), nv, " ".join(fmt_vec(z) for z in Z), fmt_vec(b))
        out.append(dict(id="d%d" % len(out), line="deflate project %s %s" % (pay, fmt_vec(x0)), what="project", pay=pay, crs=fmt_crs(n, n, rows), b=b))
        out.append(dict(id="d%d" % len(out), line="deflate apply %s %s" % (pay, fmt_vec([F(0)] * n)), what="apply", pay=pay, crs=fmt_crs(n, n, rows), b=b))
        if not nonsym:   # the full solve uses CG: SPD systems only
            out.append(dict(id="d%d" % len(out), line="deflate solve %s %s" % (pay, fmt_vec([F(0)] * n)), what="solve", pay=pay, crs=fmt_crs(n, n, rows), b=b))
    return out


PATTERNS_OK = [("%0:2", 8), ("%1:3", 10), ("%3:4", 12), ("<3", 8), (">5", 8), ("<20", 8), ("%9:1", 12), ("%5:9", 30)]
PATTERNS_2DIGIT = [("%10:3", 40), ("%12:4", 64), ("%10:10", 25), ("%100:7", 130)]
# malformed patterns: the repaired parser (fix: pmask_pattern ...) rejects them by precondition()
PATTERNS_BAD = [("%5", 8), ("%3:0", 8), ("%2:-1", 8), ("%:", 8)]


def vtok(s):
    xs = s.strip()[1:-1].split()
    return " ".join([str(len(xs))] + xs)

def mtok(s):
    """'{n m | c:v ..}' -> crs tokens"""
    parts = s.strip()[1:-1].split("|")
    n, m = parts[0].split()
    out = [n, m]
    for p in parts[1:]:
        es = p.split(); out.append(str(len(es)))
        for e in es:
            c, v = e.split(":"); out += [c, v]
    return " ".join(out)


def classify(fail):
    m = fail.get("meta") or {}
    if fail.get("group") == "schur-adjust1":
        return dict(site="schur_pressure_correction::init adjust_p=1", type=m.get("typ"), kpp_row_without_diagonal=m.get("nodiag"))
    if fail.get("group") == "pattern-hang":
        return dict(site="schur_pressure_correction::params pmask_pattern", start_digits=m.get("start_digits"), stride_parsed=0)
    if fail.get("group") == "cpr-block-active":
        return dict(site="cpr::init block value type", active_rows_lt_n=True, pressure_matrix_illformed=True, active_row_coupled_to_inactive_column=m.get("coupled"), what=m.get("what"))
    if fail.get("group") == "cprdrs-block-active":
        return dict(site="cpr_drs::init block value type", active_rows_lt_n=True, pressure_matrix_illformed=True, active_row_coupled_to_inactive_column=m.get("coupled"), what=m.get("what"))
    if fail.get("group") == "cprdrs-update":
        return dict(site="cpr_drs::first_scalar_pass get_app=false", crash=m.get("crash"))
    return {}


def run(ctx, cases_override=None):
    tier, seed = ctx["tier"], ctx["seed"]
    fails = []
    if cases_override:
        for l in cases_override:
            toks = l.split(); op = toks[1]
            if op == "schur":
                c = dict(id=toks[0], line=l.split(" ", 1)[1], typ=int(toks[2]), adj=int(toks[3]), approx=int(toks[4]), spec=toks[6], crs=" ".join(toks[7:]), rows=None)
                fails += run_schur(ctx, [c])
            elif op == "schur_pattern": fails += run_patterns(ctx, [(toks_pat(l))])
            elif op == "cpr":     # replayed lines carry the model-side flag (dropped here, re-derived from the tree)
                toks = toks[:5] + toks[6:]
                fails += run_cpr(ctx, [dict(id=toks[0], line=" ".join(toks[1:]), kind=toks[2], b=int(toks[3]), active=int(toks[4]), crs=" ".join(toks[5:]), grp=None)])
            elif op == "cprdrs":
                toks = toks[:5] + toks[6:]
                nw = int(toks[7]); w = [F(x) for x in toks[8:8 + nw]]; crs = " ".join(toks[8 + nw:])
                rows = [sorted((cc, F(v)) for cc, v in rw) for rw in crs_rows(crs)]
                fails += run_cprdrs(ctx, [dict(id=toks[0], line=" ".join(toks[1:]), kind=toks[2], b=int(toks[3]), active=int(toks[4]), eps_dd=F(toks[5]), eps_ps=F(toks[6]),
                                               w=w, rows=rows, n=len(rows), grp=0)])
            elif op == "deflate":
                k = crs_len(toks, 3); nv = int(toks[k]); k += 1
                for _ in range(nv): k += 1 + int(toks[k])
                nb = int(toks[k]); b = [F(x) for x in toks[k + 1:k + 1 + nb]]; k += 1 + nb
                fails += run_deflate(ctx, [dict(id=toks[0], line=l.split(" ", 1)[1], what=toks[2], pay=" ".join(toks[3:k]), crs=" ".join(toks[3:crs_len(toks, 3)]), b=b)])
            else:
                f, _, _ = diff_run(ctx, "composite", [l]); fails += f
        return fails
    fails += run_schur(ctx, schur_cases(tier, seed))
    fails += run_patterns(ctx, PATTERNS_OK + PATTERNS_2DIGIT + PATTERNS_BAD)
    fails += run_cpr(ctx, cpr_cases(tier, seed))
    fails += run_cprdrs(ctx, cprdrs_cases(tier, seed))
    fails += run_deflate(ctx, deflate_cases(tier, seed))
    return fails

def crs_len(toks, k):
    """index just after the crs tokens that start at toks[k]"""
    n = int(toks[k]); k += 2
    for _ in range(n): k += 1 + 2 * int(toks[k])
    return k

def toks_pat(l):
    t = l.split(); return (t[2], int(t[3]))


def crs_rows(crs_tokens):
    t = crs_tokens.split(); n = int(t[0]); k = 2; rows = []
    for _ in range(n):
        cnt = int(t[k]); k += 1
        rows.append([(int(t[k + 2 * e]), t[k + 2 * e + 1]) for e in range(cnt)]); k += 2 * cnt
    return rows


def run_schur(ctx, cs):
    lines = ["%s %s" % (c["id"], c["line"]) for c in cs]
    f, impl, model = diff_run_all(ctx, "composite", lines, theorem="correspondence drv_composite (schur_pressure_correction with exact inner solvers) vs Composite.v (schur_apply, schur_op, sub_block, kpp_adjust1)")
    fails = list(f)
    ol = []; byid = {}; meta = {}
    r = random.Random(ctx["seed"] + 5)
    for c in cs:
        cid = c["id"]; line = "%s %s" % (cid, c["line"]); byid[cid] = line; byid[cid + "r"] = line
        o = impl.get(cid, "")
        if not o or o.startswith(("EXC", "CRASH", "UNSUPPORTED")): continue     # singular Schur complement etc.: compared with the model only
        items = split_top(o)
        mask, dense = items[0], items[1]
        rows = crs_rows(c["crs"])
        nodiag = any(mask[i] == "1" and all(cc != i for cc, _ in rows[i]) for i in range(len(rows)))
        meta[cid] = dict(nodiag=nodiag, adj=c["adj"], typ=c["typ"])
        if c["approx"] == 0:
            if c["typ"] == 1: ol.append("%s o.inverse %s %s" % (cid, c["crs"], mtok(dense)))
            else: ol.append("%s o.schur2 %s %s %s" % (cid, c["crs"], mask, mtok(dense)))
        n = len(rows)
        ol.append("%sr o.reassemble %s %s %s" % (cid, c["crs"], mask, fmt_vec(gen.rvec(r, n))))
    of = oracle_run(ctx, ol, "C18: Schur pressure correction type 1 with exact inner solves is the exact inverse / type 2 solves the block upper-triangular system / sub-blocks reassemble K", lambda cid: byid[cid])
    for x in of:
        cid = x["oracle"]["line"].split()[0]
        m = meta.get(cid, {})
        if x["op"] in ("o.inverse", "o.schur2") and m.get("adj") == 1:
            x["group"] = "schur-adjust1"; x["meta"] = m
    fails += of
    return fails


def run_patterns(ctx, pats):
    """each pattern in its own process under a short timeout: a hang must not block the run"""
    fails = []
    exe = ctx["cpp"]["composite"]
    for k, (pat, n) in enumerate(pats):
        line = "pt%d schur_pattern %s %d" % (k, pat, n)
        try:
            p = subprocess.run(["timeout", "5", exe], input=line + "\n", stdout=subprocess.PIPE, stderr=subprocess.PIPE, text=True, timeout=20)
            impl = p.stdout.strip().split(" ", 2)[2] if p.returncode == 0 and p.stdout.strip() else ("TIMEOUT" if p.returncode == 124 else "CRASH rc=%d" % p.returncode)
        except subprocess.TimeoutExpired:
            impl = "TIMEOUT"
        model = ctx["run_driver"](ctx["model"], [line]).get("pt%d" % k)
        ctx["stats"]["evaluations"] += 1; ctx["stats"]["by_op"]["schur_pattern"] = ctx["stats"]["by_op"].get("schur_pattern", 0) + 1
        ctx["stats"]["traces"] += 1
        if impl.startswith(("0", "1")): ctx["stats"]["nontrivial"] += 1
        # expected mask: start, start+stride, ... / first m / from m on
        if (pat, n) in PATTERNS_BAD:
            # both sides must refuse (precondition -> runtime_error); never hang, never return a mask
            if not (impl.startswith("EXC runtime_error") and (model or "").startswith("EXC runtime_error")):
                ctx["stats"]["mismatches"] += 1
                fails.append(dict(kind="counterexample", case=line, impl=impl, model=model, op="schur_pattern", size=len(line),
                                  theorem="C18: malformed pmask_pattern must be rejected by an exception (implementation vs model)"))
            continue
        if pat[0] == "%":
            start, stride = [int(x) for x in pat[1:].split(":")]
            exp = "".join("1" if (i >= start and (i - start) % stride == 0) else "0" for i in range(n))
        elif pat[0] == "<": exp = "".join("1" if i < int(pat[1:]) else "0" for i in range(n))
        else: exp = "".join("1" if i >= int(pat[1:]) else "0" for i in range(n))
        ctx["stats"]["oracle_checks"] += 1
        if impl == "TIMEOUT" and model == "NONTERMINATING":
            # the faithful model predicts the hang: confirmed defect
            fails.append(dict(kind="counterexample", group="pattern-hang", meta=dict(start_digits=len(pat[1:].split(":")[0])),
                              case=line, impl=impl, model=exp, op="schur_pattern", size=len(line),
                              oracle=dict(statement="pmask_pattern \"%start:stride\" marks start, start+stride, ...", expected=exp, got="no termination within 5 s (model: stride parsed as 0)"),
                              theorem="C18: pressure masks given as pattern strings (schur_pressure_correction::params)"))
        elif impl != model or impl != exp:
            ctx["stats"]["mismatches"] += 1
            fails.append(dict(kind="counterexample", case=line, impl=impl, model="%s (model) / %s (intended)" % (model, exp), op="schur_pattern", size=len(line),
                              theorem="C18: pressure masks given as pattern strings: implementation vs model vs intended mask"))
    return fails


def repaired(ctx, header):
    """1 if the tree under test has the repaired block-valued init() of cpr / cpr_drs (entries of the active
    rows in inactive block columns are skipped); the model driver then uses Cpr.cprb_setup_f / CprDrs.drsb_setup_f"""
    try:
        src = open(os.path.join(ctx["repo"], "amgcl", "preconditioner", header)).read()
    except OSError:
        return 0
    return 1 if "if (K->col[j] >= N) continue;" in src else 0

def with_flag(line, fx):
    """'cpr kind b active crs...' -> 'cpr kind b active fx crs...'"""
    t = line.split(" ", 4)
    return " ".join(t[:4] + [str(fx)] + t[4:])


def run_cpr(ctx, cs):
    fx = repaired(ctx, "cpr.hpp")
    lines = ["%s %s" % (c["id"], with_flag(c["line"], fx)) for c in cs]
    f, impl, _ = diff_run_all(ctx, "composite", lines, theorem="correspondence drv_composite (preconditioner::cpr with a recording exact pressure stage) vs Cpr.v (cpr_setup / cprb_setup / cpr_partial_update) + Composite.v cpr_apply")
    fails = list(f); ol = []; byid = {}
    grp = {}
    for c, line in zip(cs, lines):
        cid = c["id"]; byid[cid] = line
        o = impl.get(cid, "")
        if c["kind"] == "update_dummy":
            ctx["stats"]["oracle_checks"] += 1
            if not o.startswith("same "):
                fails.append(dict(kind="counterexample", case=line, impl=o[:300], model="same ...", op="cpr", size=len(line),
                                  theorem="C18: a partial update of CPR with an unchanged matrix leaves its action unchanged"))
            continue
        if not o.startswith("{") or "BADCRS" in o:
            # no operator, or the matrix handed to the pressure stage is ill-formed (column index out of
            # range -> exception of the recording preconditioner; nnz field inconsistent with ptr -> BADCRS)
            x = dict(kind="counterexample", case=line, impl=o[:300], model=None, op="cpr", size=len(line), theorem="C18: cpr construction/apply failed")
            if c["kind"] == "block_dummy" and c.get("active"):
                x["group"] = "cpr-block-active"; x["meta"] = dict(coupled=c.get("coupled"), what=("BADCRS " + o.split("BADCRS")[1].split()[0]) if "BADCRS" in o else " ".join(o.split()[:3]))
                x["theorem"] = "C18: CPR on scalar input with block_size b and on b x b block input give the same operator and pressure matrix (active_rows < n)"
            fails.append(x); continue
        dense, app = split_top(o)
        if c.get("grp") is not None: grp.setdefault(c["grp"], {})[c["kind"]] = (dense, app, line)
        ol.append("%s o.cpr %s %d %d %s %s %s" % (cid, c["kind"], c["b"], c.get("active", 0), c["crs"], mtok(dense), mtok(app)))
    fails += oracle_run(ctx, ol, "C18: CPR computes x = S f + Scatter P (Fpp (f - A S f)) with the pressure matrix equal to the first-row-of-inverse-diagonal-block weighting of (the active part of) A", lambda cid: byid[cid])
    for g, d in grp.items():
        if "scalar_dummy" in d and "block_dummy" in d:
            ctx["stats"]["oracle_checks"] += 1
            if d["scalar_dummy"][:2] != d["block_dummy"][:2]:
                fails.append(dict(kind="counterexample", case=d["block_dummy"][2], impl=str(d["block_dummy"][:2])[:400], model=str(d["scalar_dummy"][:2])[:400], op="cpr", size=len(d["block_dummy"][2]),
                                  theorem="C18: CPR on scalar input with block_size b and on b x b block input give the same operator and pressure matrix"))
    return fails


def run_cprdrs(ctx, cs):
    fx = repaired(ctx, "cpr_drs.hpp")
    lines = ["%s %s" % (c["id"], with_flag(c["line"], fx)) for c in cs]
    upd = [l for l, c in zip(lines, cs) if c["kind"] == "update"]
    f, impl, _ = diff_run_all(ctx, "composite", [l for l in lines if l not in upd],
                              theorem="correspondence drv_composite (preconditioner::cpr_drs with a recording exact pressure stage) vs CprDrs.v (drs_make / drsb_make) + Composite.v cpr_apply")
    fails = list(f)
    # partial_update: each case in its own process (the unchanged code dereferences a null pointer)
    for l in upd:
        res = ctx["run_driver"](ctx["cpp"]["composite"], [l], shards=1)
        impl.update(res); account(ctx, [l], res)
    grp = {}
    for c, line in zip(cs, lines):
        o = impl.get(c["id"], "")
        ctx["stats"]["oracle_checks"] += 1
        if c["kind"] == "update":
            if o.startswith("EXC runtime_error singular_pressure_matrix") and drs_spec(c)[1] is None: continue   # no preconditioner to update
            if not o.startswith("CRASH"):      # the implementation returned: it must agree with the model of the repaired behaviour
                mo = ctx["run_driver"](ctx["model"], [line], shards=1).get(c["id"])
                if mo != o:
                    ctx["stats"]["mismatches"] += 1
                    fails.append(dict(kind="counterexample", case=line, impl=o[:300], model=(mo or "")[:300], op="cprdrs", size=len(line),
                                      theorem="correspondence drv_composite (cpr_drs::partial_update) vs CprDrs.v drs_partial_update"))
            if not o.startswith("same "):
                x = dict(kind="counterexample", case=line, impl=o[:300], model="same ...", op="cprdrs", size=len(line),
                         theorem="C18: a partial update of CPR (cpr_drs) with an unchanged matrix leaves its action unchanged")
                if o.startswith("CRASH"): x["group"] = "cprdrs-update"; x["meta"] = dict(crash=o.split()[1] if len(o.split()) > 1 else "")
                fails.append(x)
            continue
        spec = drs_spec(c)
        if o.startswith("EXC runtime_error singular_pressure_matrix") and spec[1] is None: continue
        if not o.startswith("{") or "BADCRS" in o:
            x = dict(kind="counterexample", case=line, impl=o[:300], model=None, op="cprdrs", size=len(line), theorem="C18: cpr_drs construction/apply failed")
            if c["kind"] == "block" and c["active"]:
                x["group"] = "cprdrs-block-active"; x["meta"] = dict(coupled=c.get("coupled"), what=("BADCRS " + o.split("BADCRS")[1].split()[0]) if "BADCRS" in o else " ".join(o.split()[:3]))
                x["theorem"] = "C18: cpr_drs on scalar input with block_size b and on b x b block input give the same operator and pressure matrix (active_rows < n)"
            fails.append(x); continue
        dense, app = split_top(o)
        grp.setdefault(c["grp"], {})[c["kind"]] = (dense, app, line)
        exp_app, exp_op = spec
        got_app = dense_of_payload(app); got_op = dense_of_payload(dense)
        if got_app != exp_app or exp_op is None or got_op != exp_op:
            ctx["stats"]["oracle_fail"] += 1
            fails.append(dict(kind="counterexample", case=line, impl=o[:400], model=None, op="cprdrs", size=len(line),
                              oracle=dict(statement="cpr_drs: weights by the dynamic row sum rule, App = W K, x = f + Scatter App^-1 W (f - K f)",
                                          expected=str((exp_app, exp_op))[:400], got=str((got_app, got_op))[:400]),
                              theorem="C18: cpr_drs realises the dynamic-row-sum weighting and the two-stage formula"))
    for g, d in grp.items():
        if "scalar" in d and "block" in d:
            ctx["stats"]["oracle_checks"] += 1
            if d["scalar"][:2] != d["block"][:2]:
                fails.append(dict(kind="counterexample", case=d["block"][2], impl=str(d["block"][:2])[:400], model=str(d["scalar"][:2])[:400], op="cprdrs", size=len(d["block"][2]),
                                  theorem="C18: cpr_drs on scalar input with block_size b and on b x b block input give the same operator and pressure matrix"))
    return fails


def run_deflate(ctx, cs):
    lines = ["%s %s" % (c["id"], c["line"]) for c in cs]
    proj = [l for l, c in zip(lines, cs) if c["what"] in ("project", "apply")]
    f, impl, _ = diff_run_all(ctx, "composite", proj, theorem="correspondence drv_composite (deflated_solver::init + project / apply) vs Composite.v deflate_E, deflate_project + Inverse.v inverse (CompositeProofs5.deflate_init)")
    fails = list(f)
    rest = [l for l, c in zip(lines, cs) if c["what"] not in ("project", "apply")]
    impl2 = c17.run_all(ctx, ctx["cpp"]["composite"], rest); account(ctx, rest, impl2); impl.update(impl2)
    ol = []; byid = {}
    for c, line in zip(cs, lines):
        cid = c["id"]; byid[cid] = line
        o = impl.get(cid, "")
        if c["what"] in ("project", "apply"):
            if not o.startswith("["):
                fails.append(dict(kind="counterexample", case=line, impl=o[:300], model=None, op="deflate", size=len(line), theorem="C18: deflated_solver::%s failed" % c["what"])); continue
            ol.append("%s o.deflate %s %s" % (cid, c["pay"], vtok(o)))
        else:
            items = split_top(o) if o and o[0].isdigit() else None
            if not items:
                fails.append(dict(kind="counterexample", case=line, impl=o[:300], model=None, op="deflate", size=len(line), theorem="C18: deflated solve failed")); continue
            ol.append("%s o.solves %s %s %s" % (cid, c["crs"], fmt_vec(c["b"]), vtok(items[2])))
    fails += oracle_run(ctx, ol, "C18: deflation: after project Z^T (b - A x) = 0; the deflated solver returns the solution of the original system", lambda cid: byid[cid])
    return fails
