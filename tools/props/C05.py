"""C05 -- each Krylov method produces its defining iterates.

Stages (all on the exact instantiation of the amgcl templates, maxiter = k):
  1. implementation vs the independent textbook recurrences of KrylovRef.v (extracted):
     cg, bicgstab (both sides), gmres (both sides), fgmres, richardson -- (iters, residual, x) byte for byte;
     cg_ref / bicgstab_ref / richardson are PROVED equal to the workspace models (Properties_C05.v),
     gmres_ref is compared only (same Givens formulas, functional formulation).
  2. Richardson = k-fold iteration x <- x + omega P (f - A x)   (KrylovRef.rich_iter, extracted)
  3. GMRES / FGMRES / LGMRES: returned residual non-increasing in k (slack 2^-40: pseudo-root)
  4. finite termination: exact zero residual within n iterations (cg, bicgstab, bicgstabl: +L-1, idrs: n + n/s),
     residual < 2^-40 for the square-root based gmres family with M >= n; one iteration with P = A^-1.
"""
import random
from fractions import Fraction as F
import gen
from props.common import account
import props.krylov_cases as kc

DRIVERS = ["krylov"]
TMO = 300   # seconds per driver shard: a diverging (mutated) solver makes the exact rationals explode
MODEL = "krylov"
TRUSTED_BASE = [
    "Extract_krylov.v via ExtractCommon.v (Z.ggcd realised by zarith gcd)",
    "operator abstraction: A and P enter the Coq definitions as functions vec -> vec (OCaml closures over Kernels.spmv / vmul)",
    "gmres_ref (KrylovRef.v) shares the Givens coefficient formulas with the code (digit-exact comparison under the pseudo-root); "
    "it is a reference by comparison, not by theorem",
]
ASSUMPTIONS = [
    "C05-A1 equalities (model = textbook recurrence) assume a commutative ring with decidable equality and length-preserving A, P",
    "optimality statements (A-norm / residual minimisation) are not proved; monotonicity and finite termination are tested on the implementation",
    "lgmres, bicgstabl, idrs: implementation-side oracles only (monotone residual / finite termination), no reference recurrences",
]
REF_SOLVERS = ["cg", "bicgstab", "richardson", "gmres", "fgmres"]   # have a reference recurrence in KrylovRef.v
SLACK = F(1, 2 ** 40)
TOL10 = F(1, 1024)


def cases(tier, seed):
    r = random.Random(seed * 1000 + 5)
    out = []   # (line, kind, meta)
    def add(line, kind, **meta): out.append((line, kind, meta))
    # 1. reference comparison; 2. richardson k-fold; 3. monotone groups
    for solver in REF_SOLVERS + ["lgmres"]:
        heavy = solver not in kc.SQRT_FREE
        nsys = (10 if heavy else 24) if tier == "quick" else (24 if heavy else 60)
        for si in range(nsys):
            sym = kc.sym_needed(solver) or r.random() < 0.4
            n = r.choice([2, 3, 4, 5] if tier == "quick" else [2, 3, 4, 5, 6, 7])
            if heavy: n = min(n, 4)
            S = kc.make_sys(r, n, sym, r.choice(kc.pkinds_for(solver, sym)), x0zero=(r.random() < 0.3))
            side = kc.side_for(r, solver)
            K = (4 if heavy else n + 2) if tier == "quick" else (4 if heavy else n + 2)
            base = dict(M=r.choice([1, 2, 4]), K=0, damping=r.choice([F(1), F(1, 2), F(3, 4)]), ca=int(r.random() < 0.2))
            tol = r.choice([F(0), F(0), TOL10])
            grp = "g%d_%s" % (si, solver)
            for k in range(0, K + 1):
                prm = dict(base, maxiter=k, tol=tol, abstol=kc.ABSTOL_MIN)
                cid = "r%d" % len(out)
                if solver != "lgmres":
                    add(kc.solve_line(cid, solver, side, S, **prm), "ref", solver=solver, group=grp, k=k)
                else:
                    add(kc.solve_line(cid, solver, side, S, **prm), "mono", solver=solver, group=grp, k=k)
            if solver == "richardson":
                for k in (1, 2, 3, 5):
                    cid = "r%d" % len(out)
                    add(kc.solve_line(cid, solver, side, S, maxiter=k, tol=F(0), abstol=F(0), damping=base["damping"]), "richk", k=k)
    # 4. finite termination
    for solver in kc.SOLVERS:
        if solver == "richardson": continue
        heavy = solver not in kc.SQRT_FREE
        for si in range(4 if tier == "quick" else 12):
            sym = kc.sym_needed(solver) or r.random() < 0.4
            n = r.choice([2, 3, 4]) if heavy else r.choice([2, 3, 4, 5, 6])
            S = kc.make_sys(r, n, sym, r.choice(["id", "id", "diag"]), x0zero=(r.random() < 0.25))
            L = r.choice([1, 2]); s = r.choice([1, 2, 3])
            extra = {"bicgstabl": L - 1, "idrs": n // s}.get(solver, 0)
            # square-root based methods: pseudo-root errors of 2^-64 remain, stop at an absolute 2^-40
            atol = F(1, 2 ** 40) if heavy else kc.ABSTOL_MIN
            prm = dict(maxiter=n + extra + 1, tol=F(0), abstol=atol, M=n + 1, K=0, L=L, s=s)
            add(kc.solve_line("r%d" % len(out), solver, kc.side_for(r, solver), S, **prm), "fin", solver=solver, n=n, bound=n + extra,
                xstar=kc.matvec(kc.inverse(kc.dense(S.rows, n)), S.f))
            # exact preconditioner: one step
            Sx = kc.make_sys(r, n, sym, "inv", x0zero=(r.random() < 0.25))
            prm = dict(maxiter=3, tol=F(0), abstol=atol, M=2, K=0, L=1, s=s)
            add(kc.solve_line("r%d" % len(out), solver, kc.side_for(r, solver), Sx, **prm), "fin", solver=solver, n=n, bound=(2 if solver == "idrs" else 1),
                xstar=kc.matvec(kc.inverse(kc.dense(Sx.rows, n)), Sx.f))
    Sx = kc.make_sys(r, 4, False, "inv", x0zero=False)
    add(kc.solve_line("r%d" % len(out), "richardson", "right", Sx, maxiter=3, tol=F(0), abstol=kc.ABSTOL_MIN), "fin", solver="richardson", n=4, bound=1,
        xstar=kc.matvec(kc.inverse(kc.dense(Sx.rows, 4)), Sx.f))
    # 5. shift invariance (all eight solvers, both sides): the iterates from x0 for the right-hand side f are
    #    x0 + the iterates from 0 for the right-hand side f - A x0, iterate by iterate (absolute tolerance only)
    for solver in kc.SOLVERS:
        heavy = solver not in kc.SQRT_FREE
        for si in range(5 if tier == "quick" else 14):
            sym = kc.sym_needed(solver) or r.random() < 0.4
            n = r.choice([2, 3, 4]) if heavy else r.choice([2, 3, 4, 5, 6])
            S = kc.make_sys(r, n, sym, r.choice(kc.pkinds_for(solver, sym)[:4]), x0zero=False)
            Ax0 = kc.matvec(kc.dense(S.rows, n), S.x0)
            f2 = [a - b for a, b in zip(S.f, Ax0)]
            if all(v == 0 for v in f2): continue
            S2 = kc.Sys(n, S.rows, S.pk, S.pdata, f2, [F(0)] * n, S.sym)
            side = kc.side_for(r, solver)
            base = dict(M=r.choice([1, 2, 4]), K=r.choice([0, 1, 2]), L=r.choice([1, 2]), s=r.choice([1, 2, 3]),
                        damping=r.choice([F(1), F(1, 2)]), smoothing=int(r.random() < 0.3), replacement=int(r.random() < 0.3),
                        convex=int(r.random() < 0.7), ca=int(r.random() < 0.2))
            for k in range(0, (3 if heavy else 5) + 1):
                prm = dict(base, maxiter=k, tol=F(0), abstol=kc.ABSTOL_MIN)
                ida = "r%d" % len(out)
                add(kc.solve_line(ida, solver, side, S, **prm), "shiftA", solver=solver)
                add(kc.solve_line("r%d" % len(out), solver, side, S2, **prm), "shiftB", solver=solver, partner=ida, x0=S.x0)
    return out


def run(ctx, cases_override=None):
    if cases_override:
        cs = [(l, "ref" if l.split(" ", 3)[2] in REF_SOLVERS else "mono", dict(solver=l.split(" ", 3)[2], group="x", k=0)) for l in cases_override]
    else:
        cs = cases(ctx["tier"], ctx["seed"])
    lines = [c[0] for c in cs]
    fails = []
    impl = ctx["run_driver"](ctx["cpp"]["krylov"], lines, timeout=TMO)
    account(ctx, lines, impl)
    def fail(l, thm, **kw):
        d = dict(kind="counterexample", case=l, impl=(impl.get(l.split(" ", 1)[0]) or "")[:3000], model=None, op="solve:" + l.split(" ", 3)[2],
                 size=len(l), theorem=thm); d.update(kw); fails.append(d)
    for l in lines:
        a = impl.get(l.split(" ", 1)[0]) or ""
        if a == "" or a.startswith(("CRASH", "UNSUPPORTED", "INPUT-MODIFIED")):
            fail(l, "C05: implementation run (crash / timeout: exact iterates explode when the recurrence is wrong)")
    # 1. reference recurrences
    rl = [c[0].replace(" solve ", " ref ", 1) for c in cs if c[1] == "ref"]
    ref = ctx["run_driver"](ctx["model"], rl, timeout=TMO)
    for l, kind, meta in cs:
        if kind != "ref": continue
        cid = l.split(" ", 1)[0]
        ctx["stats"]["oracle_checks"] += 1
        if impl.get(cid) != ref.get(cid):
            ctx["stats"]["mismatches"] += 1
            fail(l, "C05 reference: %s iterates vs independent recurrence KrylovRef.%s_ref (exact)" % (meta["solver"], "gmres" if "gmres" in meta["solver"] else meta["solver"]),
                 model=(ref.get(cid) or "")[:3000])
    # 2. k-fold Richardson
    kl = [c[0].replace(" solve ", " richk ", 1) for c in cs if c[1] == "richk"]
    rk = ctx["run_driver"](ctx["model"], kl, timeout=TMO)
    for l, kind, meta in cs:
        if kind != "richk": continue
        cid = l.split(" ", 1)[0]
        ctx["stats"]["oracle_checks"] += 1
        pr = kc.parse_result(impl.get(cid))
        got = "[" + " ".join(pr[2]) + "]" if pr else None
        if got != rk.get(cid):
            fail(l, "C05 Richardson: x returned with maxiter = k equals the k-fold iteration x + omega P (f - A x)", model=rk.get(cid))
    # 3. monotone residual in k (gmres family)
    groups = {}
    for l, kind, meta in cs:
        if kind in ("ref", "mono") and meta["solver"] in ("gmres", "fgmres", "lgmres") and meta.get("group") != "x":
            groups.setdefault(meta["group"], []).append((meta["k"], l))
    for g, lst in groups.items():
        lst.sort()
        prev = None
        for k, l in lst:
            pr = kc.parse_result(impl.get(l.split(" ", 1)[0]))
            if pr is None: prev = None; continue
            res = F(pr[1])
            ctx["stats"]["oracle_checks"] += 1
            if prev is not None and res > prev + SLACK:
                fail(l, "C05 minimal residual: residual returned by %s must be non-increasing in maxiter" % l.split(" ", 3)[2],
                     oracle=dict(op="monotone", prev=str(prev), now=str(res)))
            prev = res
    # 4. finite termination
    for l, kind, meta in cs:
        if kind != "fin": continue
        pr = kc.parse_result(impl.get(l.split(" ", 1)[0]))
        ctx["stats"]["oracle_checks"] += 1
        if pr is None:
            # breakdown exceptions are not failures of this oracle (exact breakdown is possible after convergence)
            continue
        it, res = pr[0], F(pr[1])
        sqrt_based = meta["solver"] in ("gmres", "fgmres", "lgmres", "idrs", "bicgstabl")
        ok = (it <= meta["bound"]) and (res == 0 if not sqrt_based else res <= 4 * SLACK)
        # the returned x must BE the solution (not only the number the solver reports)
        xs = meta.get("xstar")
        if ok and xs is not None:
            err = max(abs(F(a) - b) for a, b in zip(pr[2], xs))
            ok = (err == 0) if not sqrt_based else (err <= F(1, 2 ** 20))
        if not ok:
            fail(l, "C05 finite termination: %s must reach the solution within %d iterations on this %dx%d system" % (meta["solver"], meta["bound"], meta["n"], meta["n"]),
                 oracle=dict(op="finite", iters=it, res=str(res)[:80], bound=meta["bound"]))
    # 5. shift invariance
    by_cid = {c[0].split(" ", 1)[0]: c for c in cs}
    for l, kind, meta in cs:
        if kind != "shiftB": continue
        pa = kc.parse_result(impl.get(meta["partner"])); pb = kc.parse_result(impl.get(l.split(" ", 1)[0]))
        ctx["stats"]["oracle_checks"] += 1
        if pa is None or pb is None:
            if (impl.get(meta["partner"]) or "").startswith("EXC") and (impl.get(l.split(" ", 1)[0]) or "").startswith("EXC"): continue
            ok = False
        else:
            ok = pa[0] == pb[0] and [F(v) for v in pa[2]] == [a + F(b) for a, b in zip(meta["x0"], pb[2])]
        if not ok:
            la = by_cid[meta["partner"]][0]
            fail(la, "C05 shift invariance: %s from x0 for f must equal x0 + (%s from 0 for f - A x0), iterate by iterate" % (meta["solver"], meta["solver"]),
                 model=(impl.get(l.split(" ", 1)[0]) or "")[:3000], oracle=dict(op="shift", partner_case=l[:2000]))
    return fails
