"""C05 -- each Krylov method produces its defining iterates.

Stages (all on the exact instantiation of the amgcl templates, maxiter = k):
  1. implementation vs the independent textbook recurrences of KrylovRef.v (extracted):
     cg, bicgstab (both sides), gmres (both sides), fgmres, richardson -- (iters, residual, x) byte for byte;
     cg_ref / bicgstab_ref / richardson are PROVED equal to the workspace models (Properties_C05.v),
     gmres_ref is compared only (same Givens formulas, functional formulation).
  2. Richardson = k-fold iteration x <- x + omega P (f - A x)   (KrylovRef.rich_iter, extracted)
  3. GMRES / FGMRES / LGMRES: returned residual non-increasing in k (slack 2^-40: pseudo-root)
  4. finite termination: exact zero residual within n iterations (cg, bicgstab, bicgstabl: +L-1, idrs: n + n/s),
     residual < 2^-40 for the square-root based gmres family with M >= n; one iteration with P = A^-1.
  5. shift invariance (all solvers).
  6. CG optimality (KrylovMathSpec.v, extracted, group "krylovmath"; theorems: Properties_C05.v part B) on the
     implementation's iterates x_0..x_K (x_k = result with maxiter = k): residuals mutually P-orthogonal, steps
     mutually A-conjugate, r_k orthogonal to K_k(PA, P r_0), A-norm error not decreased by +-v for the generators v
     of K_k -- all exact.
  7. GMRES / FGMRES / LGMRES(K=0) minimal residual: Petrov-Galerkin condition rho_k _|_ K K_k(K, rho_0) relative to the
     restart point, up to 2^-30 (pseudo square root), and no increase of the true residual norm.
"""
import random
from fractions import Fraction as F
import gen
from props.common import account
import props.krylov_cases as kc

def gen_vec(v): return kc.fmt_vec(v)

DRIVERS = ["krylov"]
TMO = 300   # seconds per driver shard: a diverging (mutated) solver makes the exact rationals explode
MODEL = "krylov"
TRUSTED_BASE = [
    "Extract_krylov.v, Extract_krylovmath.v via ExtractCommon.v (Z.ggcd realised by zarith gcd)",
    "operator abstraction: A and P enter the Coq definitions as functions vec -> vec (OCaml closures over Kernels.spmv / vmul)",
    "gmres_ref (KrylovRef.v) shares the Givens coefficient formulas with the code (digit-exact comparison under the pseudo-root); "
    "it is a reference by comparison, not by theorem",
    "C05-B oracles: ocaml/krylovmath/ops_c05.ml feeds the implementation's iterates to the extracted KrylovMathSpec.v checks; "
    "exact solution A^-1 f for the optimality probes computed by tools/props/krylov_cases.inverse (Fractions)",
]
ASSUMPTIONS = [
    "C05-A1 equalities (model = textbook recurrence) assume a commutative ring with decidable equality and length-preserving A, P",
    "C05-B CG theorems (orthogonality, conjugacy, Galerkin, A-norm optimality over the Krylov space) assume a field, a real value type "
    "(adjoint = identity), A and P symmetric w.r.t. the inner product, A (and P for the Krylov-space form) linear, no breakdown "
    "(denominators non-zero: proved to follow from non-zero residuals when A and P are positive definite); the inequality needs an ordered field and A positive semi-definite",
    "C05-A2 GMRES theorems: Arnoldi relation of the Gram-Schmidt loop is a ring identity; orthonormality, unit Givens coefficients and the "
    "monotone residual estimate |s_j| assume the square root exact at the arguments it is applied to (false for the pseudo-root of the exact "
    "instance in general; satisfiable, see KrylovMathQc.v); the minimal-residual lower bound s_j^2 <= ||r0 - K V y||^2 and its attainment "
    "by every solution of the triangular system are proved on the model under these hypotheses; that backsub / lin_comb of the code produce "
    "such a solution is stated, not proved: tested on the implementation by the Petrov-Galerkin oracle up to 2^-30",
    "CG finite termination is stated, not proved (needs the dimension theorem); tested on the implementation",
    "lgmres (K > 0), bicgstabl, idrs: implementation-side oracles only (monotone residual / finite termination / shift invariance), no reference recurrences",
]
REF_SOLVERS = ["cg", "bicgstab", "richardson", "gmres", "fgmres"]   # have a reference recurrence in KrylovRef.v
SLACK = F(1, 2 ** 40)
TOL10 = F(1, 1024)
PG_TOL = F(1, 2 ** 30)     # relative Petrov-Galerkin defect allowed for the square-root based methods
NPRM = len(kc.PRM_ORDER)


def parse_solve(line):
    """'<cid> solve <solver> <side> <pk> <16 prm tokens> <crs A> [P data] <vec f> <vec x0>' -> dict"""
    t = line.split()
    cid, op, solver, side, pk = t[:5]
    prm = dict(zip(kc.PRM_ORDER, t[5:5 + NPRM]))
    p = 5 + NPRM
    def crs(p):
        n, m = int(t[p]), int(t[p + 1]); q = p + 2; rows = []
        for _ in range(n):
            k = int(t[q]); q += 1
            rows.append([(int(t[q + 2 * i]), F(t[q + 2 * i + 1])) for i in range(k)]); q += 2 * k
        return n, rows, q
    def vec(p):
        n = int(t[p]); return [F(v) for v in t[p + 1:p + 1 + n]], p + 1 + n
    a0 = p
    n, rows, p = crs(p)
    a1 = p
    if pk == "diag": _, p = vec(p)
    elif pk == "mat": _, _, p = crs(p)
    p1 = p
    f, p = vec(p)
    x0, p = vec(p)
    return dict(cid=cid, solver=solver, side=side, pk=pk, prm=prm, n=n, rows=rows, f=f, x0=x0,
                tokA=" ".join(t[a0:a1]), tokP=" ".join(t[a1:p1]),
                key=" ".join(t[2:5] + t[6:]))          # everything but id, op and maxiter


def math_groups(lines):
    """solve lines that differ only in maxiter -> {key: sorted [(k, line, parsed)]}"""
    g = {}
    for l in lines:
        if l.split(" ", 2)[1] != "solve": continue
        try: d = parse_solve(l)
        except Exception: continue
        if d["solver"] not in ("cg", "gmres", "fgmres", "lgmres"): continue
        if d["solver"] == "lgmres" and int(d["prm"]["K"]) != 0: continue
        g.setdefault(d["key"], []).append((int(d["prm"]["maxiter"]), l, d))
    for k in g: g[k].sort(key=lambda e: e[0])
    return g


def cases(tier, seed):
    r = random.Random(seed * 1000 + 5)
    out = []   # (line, kind, meta)
    def add(line, kind, **meta): out.append((line, kind, meta))
    # 1. reference comparison; 2. richardson k-fold; 3. monotone groups
    for solver in REF_SOLVERS + ["lgmres"]:
        heavy = solver not in kc.SQRT_FREE
        nsys = (10 if heavy else 24) if tier == "quick" else (24 if heavy else 60)
        for si in range(nsys):
            sym = kc.sym_needed(solver) or r.random() < 0.4
            n = r.choice([2, 3, 4, 5] if tier == "quick" else [2, 3, 4, 5, 6, 7])
            if heavy: n = min(n, 4)
            S = kc.make_sys(r, n, sym, r.choice(kc.pkinds_for(solver, sym)), x0zero=(r.random() < 0.3))
            side = kc.side_for(r, solver)
            K = (4 if heavy else n + 2) if tier == "quick" else (4 if heavy else n + 2)
            base = dict(M=r.choice([1, 2, 4]), K=0, damping=r.choice([F(1), F(1, 2), F(3, 4)]), ca=int(r.random() < 0.2))
            tol = r.choice([F(0), F(0), TOL10])
            grp = "g%d_%s" % (si, solver)
            for k in range(0, K + 1):
                prm = dict(base, maxiter=k, tol=tol, abstol=kc.ABSTOL_MIN)
                cid = "r%d" % len(out)
                if solver != "lgmres":
                    add(kc.solve_line(cid, solver, side, S, **prm), "ref", solver=solver, group=grp, k=k)
                else:
                    add(kc.solve_line(cid, solver, side, S, **prm), "mono", solver=solver, group=grp, k=k)
            if solver == "richardson":
                for k in (1, 2, 3, 5):
                    cid = "r%d" % len(out)
                    add(kc.solve_line(cid, solver, side, S, maxiter=k, tol=F(0), abstol=F(0), damping=base["damping"]), "richk", k=k)
    # 4. finite termination
    for solver in kc.SOLVERS:
        if solver == "richardson": continue
        heavy = solver not in kc.SQRT_FREE
        for si in range(4 if tier == "quick" else 12):
            sym = kc.sym_needed(solver) or r.random() < 0.4
            n = r.choice([2, 3, 4]) if heavy else r.choice([2, 3, 4, 5, 6])
            S = kc.make_sys(r, n, sym, r.choice(["id", "id", "diag"]), x0zero=(r.random() < 0.25))
            L = r.choice([1, 2]); s = r.choice([1, 2, 3])
            extra = {"bicgstabl": L - 1, "idrs": n // s}.get(solver, 0)
            # square-root based methods: pseudo-root errors of 2^-64 remain, stop at an absolute 2^-40
            atol = F(1, 2 ** 40) if heavy else kc.ABSTOL_MIN
            prm = dict(maxiter=n + extra + 1, tol=F(0), abstol=atol, M=n + 1, K=0, L=L, s=s)
            add(kc.solve_line("r%d" % len(out), solver, kc.side_for(r, solver), S, **prm), "fin", solver=solver, n=n, bound=n + extra,
                xstar=kc.matvec(kc.inverse(kc.dense(S.rows, n)), S.f))
            # exact preconditioner: one step
            Sx = kc.make_sys(r, n, sym, "inv", x0zero=(r.random() < 0.25))
            prm = dict(maxiter=3, tol=F(0), abstol=atol, M=2, K=0, L=1, s=s)
            add(kc.solve_line("r%d" % len(out), solver, kc.side_for(r, solver), Sx, **prm), "fin", solver=solver, n=n, bound=(2 if solver == "idrs" else 1),
                xstar=kc.matvec(kc.inverse(kc.dense(Sx.rows, n)), Sx.f))
    Sx = kc.make_sys(r, 4, False, "inv", x0zero=False)
    add(kc.solve_line("r%d" % len(out), "richardson", "right", Sx, maxiter=3, tol=F(0), abstol=kc.ABSTOL_MIN), "fin", solver="richardson", n=4, bound=1,
        xstar=kc.matvec(kc.inverse(kc.dense(Sx.rows, 4)), Sx.f))
    # 5. shift invariance (all eight solvers, both sides): the iterates from x0 for the right-hand side f are
    #    x0 + the iterates from 0 for the right-hand side f - A x0, iterate by iterate (absolute tolerance only)
    for solver in kc.SOLVERS:
        heavy = solver not in kc.SQRT_FREE
        for si in range(5 if tier == "quick" else 14):
            sym = kc.sym_needed(solver) or r.random() < 0.4
            n = r.choice([2, 3, 4]) if heavy else r.choice([2, 3, 4, 5, 6])
            S = kc.make_sys(r, n, sym, r.choice(kc.pkinds_for(solver, sym)[:4]), x0zero=False)
            Ax0 = kc.matvec(kc.dense(S.rows, n), S.x0)
            f2 = [a - b for a, b in zip(S.f, Ax0)]
            if all(v == 0 for v in f2): continue
            S2 = kc.Sys(n, S.rows, S.pk, S.pdata, f2, [F(0)] * n, S.sym)
            side = kc.side_for(r, solver)
            base = dict(M=r.choice([1, 2, 4]), K=r.choice([0, 1, 2]), L=r.choice([1, 2]), s=r.choice([1, 2, 3]),
                        damping=r.choice([F(1), F(1, 2)]), smoothing=int(r.random() < 0.3), replacement=int(r.random() < 0.3),
                        convex=int(r.random() < 0.7), ca=int(r.random() < 0.2))
            for k in range(0, (3 if heavy else 5) + 1):
                prm = dict(base, maxiter=k, tol=F(0), abstol=kc.ABSTOL_MIN)
                ida = "r%d" % len(out)
                add(kc.solve_line(ida, solver, side, S, **prm), "shiftA", solver=solver)
                add(kc.solve_line("r%d" % len(out), solver, side, S2, **prm), "shiftB", solver=solver, partner=ida, x0=S.x0)
    return out


def long_cases(tier, seed):
    """binary64 runs with MANY restart cycles (short restart lengths on convection-diffusion systems): the k-th iterate of the
    restarted methods -- LGMRES(M, K) keeps the K most recent corrections in a ring buffer, which only starts to wrap after K + 2
    cycles -- against the extracted model evaluated at the binary64 instance (one rounding per operation, bit patterns)"""
    r = random.Random(seed * 1000 + 55)
    out = []
    for solver, reps in (("lgmres", 10), ("gmres", 3), ("fgmres", 3), ("bicgstabl", 2), ("idrs", 2)):
        for si in range(reps if tier == "quick" else 4 * reps):
            n = r.choice([16, 25, 36])
            S = kc.dyadic_sys(r, n, solver, pk=r.choice(["id", "diag"]))
            M = r.choice([1, 2, 4]); K = r.choice([2, 3]) if solver == "lgmres" else r.choice([1, 2])
            prm = kc.dyadic_prm(r, maxiter=(K + 3) * (M + K) + r.choice([0, 1, 5, 17]), M=M, K=K, tol=F(1, 2 ** 40))
            out.append((kc.seq_line("L%d" % len(out), "seq", solver, kc.side_for(r, solver), n, [S], **prm), dict(solver=solver, M=M, K=K)))
    return out


def long_stage(ctx):
    cs = long_cases(ctx["tier"], ctx["seed"])
    il, ml = kc.float_pair(ctx, [c[0] for c in cs])
    fi = ctx["run_driver"](ctx["cpp"]["krylov"], il, timeout=TMO)
    fm = ctx["run_driver"](ctx["model"], ml, timeout=TMO)
    account(ctx, il, fi)
    fails = []; wrapped = 0
    for (l, meta), li in zip(cs, il):
        cid = l.split(" ", 1)[0]; a, m = fi.get(cid), fm.get(cid)
        ctx["stats"]["oracle_checks"] += 1
        pr = kc.parse_result(a) if a else None
        if pr and meta["solver"] == "lgmres" and pr[0] > (meta["K"] + 2) * (meta["M"] + meta["K"]): wrapped += 1
        if a != m:
            ctx["stats"]["mismatches"] += 1
            fails.append(dict(kind="counterexample", case=li, impl=(a or "")[:3000], model=(m or "")[:3000], op="long:" + meta["solver"], size=len(l),
                              theorem="C05 reference iterates over many restart cycles: %s (double build) vs the extracted model at the binary64 Scalar instance "
                                      "(M = %d, K = %d)" % (meta["solver"], meta["M"], meta["K"])))
    ctx["log"].append(("C05 long runs: cases / lgmres runs whose ring buffer wrapped (more than (K+2)(M+K) iterations)", "%d / %d" % (len(cs), wrapped)))
    return fails


def run(ctx, cases_override=None):
    if cases_override:
        cs = [(l, "ref" if l.split(" ", 3)[2] in REF_SOLVERS else "mono", dict(solver=l.split(" ", 3)[2], group="x", k=0)) for l in cases_override]
    else:
        cs = cases(ctx["tier"], ctx["seed"])
    lines = [c[0] for c in cs]
    fails = []
    impl = ctx["run_driver"](ctx["cpp"]["krylov"], lines, timeout=TMO)
    account(ctx, lines, impl)
    def fail(l, thm, **kw):
        d = dict(kind="counterexample", case=l, impl=(impl.get(l.split(" ", 1)[0]) or "")[:3000], model=None, op="solve:" + l.split(" ", 3)[2],
                 size=len(l), theorem=thm); d.update(kw); fails.append(d)
    for l in lines:
        a = impl.get(l.split(" ", 1)[0]) or ""
        if a == "" or a.startswith(("CRASH", "UNSUPPORTED", "INPUT-MODIFIED")):
            fail(l, "C05: implementation run (crash / timeout: exact iterates explode when the recurrence is wrong)")
    # 1. reference recurrences
    rl = [c[0].replace(" solve ", " ref ", 1) for c in cs if c[1] == "ref"]
    ref = ctx["run_driver"](ctx["model"], rl, timeout=TMO)
    for l, kind, meta in cs:
        if kind != "ref": continue
        cid = l.split(" ", 1)[0]
        ctx["stats"]["oracle_checks"] += 1
        if impl.get(cid) != ref.get(cid):
            ctx["stats"]["mismatches"] += 1
            fail(l, "C05 reference: %s iterates vs independent recurrence KrylovRef.%s_ref (exact)" % (meta["solver"], "gmres" if "gmres" in meta["solver"] else meta["solver"]),
                 model=(ref.get(cid) or "")[:3000])
    # 2. k-fold Richardson
    kl = [c[0].replace(" solve ", " richk ", 1) for c in cs if c[1] == "richk"]
    rk = ctx["run_driver"](ctx["model"], kl, timeout=TMO)
    for l, kind, meta in cs:
        if kind != "richk": continue
        cid = l.split(" ", 1)[0]
        ctx["stats"]["oracle_checks"] += 1
        pr = kc.parse_result(impl.get(cid))
        got = "[" + " ".join(pr[2]) + "]" if pr else None
        if got != rk.get(cid):
            fail(l, "C05 Richardson: x returned with maxiter = k equals the k-fold iteration x + omega P (f - A x)", model=rk.get(cid))
    # 3. monotone residual in k (gmres family)
    groups = {}
    for l, kind, meta in cs:
        if kind in ("ref", "mono") and meta["solver"] in ("gmres", "fgmres", "lgmres") and meta.get("group") != "x":
            groups.setdefault(meta["group"], []).append((meta["k"], l))
    for g, lst in groups.items():
        lst.sort()
        prev = None
        for k, l in lst:
            pr = kc.parse_result(impl.get(l.split(" ", 1)[0]))
            if pr is None: prev = None; continue
            res = F(pr[1])
            ctx["stats"]["oracle_checks"] += 1
            if prev is not None and res > prev + SLACK:
                fail(l, "C05 minimal residual: residual returned by %s must be non-increasing in maxiter" % l.split(" ", 3)[2],
                     oracle=dict(op="monotone", prev=str(prev), now=str(res)))
            prev = res
    # 4. finite termination
    for l, kind, meta in cs:
        if kind != "fin": continue
        pr = kc.parse_result(impl.get(l.split(" ", 1)[0]))
        ctx["stats"]["oracle_checks"] += 1
        if pr is None:
            # breakdown exceptions are not failures of this oracle (exact breakdown is possible after convergence)
            continue
        it, res = pr[0], F(pr[1])
        sqrt_based = meta["solver"] in ("gmres", "fgmres", "lgmres", "idrs", "bicgstabl")
        ok = (it <= meta["bound"]) and (res == 0 if not sqrt_based else res <= 4 * SLACK)
        # the returned x must BE the solution (not only the number the solver reports)
        xs = meta.get("xstar")
        if ok and xs is not None:
            err = max(abs(F(a) - b) for a, b in zip(pr[2], xs))
            ok = (err == 0) if not sqrt_based else (err <= F(1, 2 ** 20))
        if not ok:
            fail(l, "C05 finite termination: %s must reach the solution within %d iterations on this %dx%d system" % (meta["solver"], meta["bound"], meta["n"], meta["n"]),
                 oracle=dict(op="finite", iters=it, res=str(res)[:80], bound=meta["bound"]))
    # 5. shift invariance
    by_cid = {c[0].split(" ", 1)[0]: c for c in cs}
    for l, kind, meta in cs:
        if kind != "shiftB": continue
        pa = kc.parse_result(impl.get(meta["partner"])); pb = kc.parse_result(impl.get(l.split(" ", 1)[0]))
        ctx["stats"]["oracle_checks"] += 1
        if pa is None or pb is None:
            if (impl.get(meta["partner"]) or "").startswith("EXC") and (impl.get(l.split(" ", 1)[0]) or "").startswith("EXC"): continue
            ok = False
        else:
            ok = pa[0] == pb[0] and [F(v) for v in pa[2]] == [a + F(b) for a, b in zip(meta["x0"], pb[2])]
        if not ok:
            la = by_cid[meta["partner"]][0]
            fail(la, "C05 shift invariance: %s from x0 for f must equal x0 + (%s from 0 for f - A x0), iterate by iterate" % (meta["solver"], meta["solver"]),
                 model=(impl.get(l.split(" ", 1)[0]) or "")[:3000], oracle=dict(op="shift", partner_case=l[:2000]))
    # 6./7. what the iterates ARE: optimality oracles (extracted KrylovMathSpec.v) on the implementation's iterates
    import vcheck
    try:
        mm = vcheck.build_model(ctx["log"], "krylovmath")
    except Exception as e:
        fails.append(dict(kind="broken-model-build", case=None, has_input=False, impl=None, model=str(e)[-2000:], op="o.cgmath", size=0,
                          theorem="C05-B oracle driver (Extract_krylovmath.v / ocaml/krylovmath)"))
        return fails
    olines = []; oinfo = {}
    for key, lst in math_groups(lines).items():
        d0 = lst[0][2]
        its = {}                                    # k -> x_k for the runs that did exactly k iterations
        for k, l, d in lst:
            pr = kc.parse_result(impl.get(d["cid"]))
            if pr is not None and pr[0] == k: its[k] = pr[2]
        if 0 not in its: continue
        glines = [l for _, l, _ in lst]
        if d0["solver"] == "cg":
            xs = []
            for k in range(0, max(its) + 1):
                if k not in its: break
                xs.append(its[k])
            if len(xs) < 2: continue
            Ai = kc.inverse(kc.dense(d0["rows"], d0["n"]))
            if Ai is None: continue
            xsol = kc.matvec(Ai, d0["f"])
            oid = "m%d" % len(olines)
            olines.append("%s o.cgmath %s %s %s %s %s %d %s" % (oid, d0["pk"], d0["tokA"], d0["tokP"], gen_vec(d0["f"]), gen_vec(xsol),
                          len(xs), " ".join("%d %s" % (len(x), " ".join(x)) for x in xs)))
            oinfo[oid] = (glines, "C05-B CG optimality (Properties_C05: C05_cg_residuals_P_orthogonal, C05_cg_directions_A_conjugate, "
                                  "C05_cg_galerkin, C05_cg_minimises_A_norm_error_over_krylov_space) on the implementation's iterates x_0..x_%d" % (len(xs) - 1))
        else:
            M = max(1, int(d0["prm"]["M"]))
            side = d0["side"] if d0["solver"] in kc.SIDED else "right"
            for k in sorted(its):
                if k == 0: continue
                c = ((k - 1) // M) * M
                if c not in its: continue
                oid = "m%d" % len(olines)
                olines.append("%s o.gmopt %s %s %s %s %s %s %d %d %s %d %s" % (oid, side, d0["pk"], d0["tokA"], d0["tokP"], gen_vec(d0["f"]),
                              kc.fmt_q(PG_TOL), k - c, len(its[c]), " ".join(its[c]), len(its[k]), " ".join(its[k])))
                oinfo[oid] = (glines, "C05-A2 minimal residual: the %s iterate with maxiter = %d must satisfy the Petrov-Galerkin condition "
                                      "relative to the restart point (maxiter = %d), M = %d" % (d0["solver"], k, c, M))
    fails += long_stage(ctx) if not cases_override else []
    ores = ctx["run_driver"](mm, olines, timeout=TMO)
    for ol in olines:
        oid = ol.split(" ", 1)[0]
        ctx["stats"]["oracle_checks"] += 1
        r = ores.get(oid)
        if r is None or not r.startswith("OK"):
            ctx["stats"]["oracle_fail"] += 1
            glines, thm = oinfo[oid]
            fails.append(dict(kind="counterexample", case=glines[-1], case_lines=glines, impl=" ; ".join((impl.get(g.split(" ", 1)[0]) or "")[:300] for g in glines)[:3000],
                              model=None, op=ol.split(" ", 2)[1], size=len(ol), theorem=thm, oracle=dict(op=ol.split(" ", 2)[1], result=r, line=ol[:3000])))
    return fails
