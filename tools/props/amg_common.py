"""amg_common.py -- case construction and two-stage run shared by C02 / C03 (amg hierarchy)."""
import random
from fractions import Fraction as F
from vcheck import fmt_q, fmt_vec, fmt_crs, parse_out_crs, split_top
import gen
from props.common import account

COARSENINGS = ["aggregation", "smoothed_aggregation", "ruge_stuben", "smoothed_aggr_emin"]
MODEL_RELAX = ["damped_jacobi", "spai0", "gauss_seidel"]
MODEL_RELAX_ALL = MODEL_RELAX + ["ilu0", "chebyshev"]
DRIVERS = ["amg_" + c for c in COARSENINGS]
MAX_MODEL_OUT = 250000

def float32(x):
    import struct
    return F(struct.unpack("f", struct.pack("f", float(x)))[0])

class Case:
    """one amg case: configuration + matrix + script"""
    def __init__(self, cid, coarsening, relax, cfg, cprm, damping, n, rows, script):
        self.cid, self.coarsening, self.relax, self.cfg, self.cprm = cid, coarsening, relax, cfg, cprm
        self.damping, self.n, self.rows, self.script = damping, n, rows, script
    def script_tokens(self):
        out = [str(len(self.script))]
        for c in self.script:
            if c[0] == "dump": out.append("dump")
            elif c[0] in ("apply", "cycle"): out += [c[0], fmt_vec(c[1]), fmt_vec(c[2])]
            elif c[0] == "rebuild": out += ["rebuild", fmt_crs(self.n, self.n, c[1])]
        return " ".join(out)
    def impl_line(self):
        cf = self.cfg
        return " ".join([self.cid, "amg." + self.coarsening, self.relax,
                         " ".join(str(cf[k]) for k in ("coarse_enough", "direct_coarse", "max_levels", "npre", "npost", "ncycle", "pre_cycles")),
                         " ".join(self.cprm[k] for k in ("eps_strong", "relax", "over_interp", "do_trunc", "eps_trunc")),
                         self.damping, fmt_crs(self.n, self.n, self.rows), self.script_tokens()])
    def default_damping(self):
        """the params() default of the relaxation: damped_jacobi::params damping(0.72) (the double 0.72,
        converted exactly); ilu0::params damping(1); the other smoothers have no damping"""
        return fmt_q(F(0.72)) if self.relax == "damped_jacobi" else "1"
    def scale(self):
        if self.coarsening != "aggregation": return "-"
        oi = self.cprm["over_interp"]
        oi = F(3, 2) if oi == "-" else F(oi)
        # 1 / prm.over_interp evaluated in float, as in aggregation.hpp:157
        import struct
        f = struct.unpack("f", struct.pack("f", float(oi)))[0]
        s = struct.unpack("f", struct.pack("f", 1.0 / f))[0]   # float division: correctly rounded from the exact quotient
        return fmt_q(F(s))
    def model_line(self, ts):
        cf = self.cfg
        tstoks = [str(len(ts))]
        for t in ts:
            if t is None: tstoks.append("0")
            else: tstoks += ["1", fmt_crs(*t[0]), fmt_crs(*t[1])]
        return " ".join([self.cid, "amgm", self.relax,
                         " ".join(str(cf[k]) for k in ("coarse_enough", "direct_coarse", "max_levels", "npre", "npost", "ncycle", "pre_cycles")),
                         self.default_damping() if self.damping == "-" else self.damping, self.scale(), fmt_crs(self.n, self.n, self.rows), " ".join(tstoks), self.script_tokens()])

def parse_dump(seg):
    """'D n M {A} {P} {R} ... L {A} | S {A}|-' -> list of (kind, A, P, R)"""
    items = split_top(seg)
    assert items[0] == "D", seg[:50]
    n = int(items[1]); i = 2; out = []
    for _ in range(n):
        k = items[i]; i += 1
        if k == "M":
            out.append(("M", parse_out_crs(items[i]), parse_out_crs(items[i + 1]), parse_out_crs(items[i + 2]))); i += 3
        elif k == "L":
            out.append(("L", parse_out_crs(items[i]), None, None)); i += 1
        else:
            A = None if items[i] == "-" else parse_out_crs(items[i]); i += 1
            out.append(("S", A, None, None))
    return out

def transfers_from_output(payload):
    """transfer operators of the FIRST dump in the implementation output (None-terminated)"""
    for seg in payload.split(" ; "):
        seg = seg.strip()
        if seg.startswith("D "):
            lv = parse_dump(seg)
            return [((l[2]), (l[3])) if l[0] == "M" else None for l in lv], lv
    return None, None

def run_cases(ctx, cases, env=None):
    """stage 1: implementation; stage 2: model fed with the implementation's transfer operators.
    returns (fails, impl outputs dict, model outputs dict, levels dict)"""
    by_drv = {}
    for c in cases: by_drv.setdefault("amg_" + c.coarsening, []).append(c)
    impl = {}
    for d, cs in by_drv.items():
        impl.update(ctx["run_driver"](ctx["cpp"][d], [c.impl_line() for c in cs], env_extra=env, timeout=1500))
    mlines = []; levels = {}; fails = []; skipped = set()
    for c in cases:
        o = impl.get(c.cid)
        if o is None or o.startswith(("CRASH",)):
            fails.append(dict(kind="counterexample", case=c.impl_line(), impl=o, model=None, op="amg", size=len(c.impl_line()),
                              theorem="implementation crashed or gave no answer (amg driver)"))
            continue
        if o.startswith(("EXC", "UNSUPPORTED")):
            # construction failed with an exception (e.g. skyline LU zero pivot on the coarse
            # matrix): an admissible outcome (C10); nothing to compare without a hierarchy
            ctx["stats"].setdefault("impl_exceptions", 0); ctx["stats"]["impl_exceptions"] += 1
            skipped.add(c.cid); continue
        ts, lv = transfers_from_output(o)
        levels[c.cid] = lv
        if c.relax not in MODEL_RELAX_ALL:
            ctx["stats"].setdefault("oracle_only_relax", 0); ctx["stats"]["oracle_only_relax"] += 1
            skipped.add(c.cid); continue
        if len(o) > MAX_MODEL_OUT:
            # rational blow-up: too expensive for the model run; counted, not compared
            ctx["stats"].setdefault("skipped_too_large", 0); ctx["stats"]["skipped_too_large"] += 1
            skipped.add(c.cid); continue
        mlines.append(c.model_line(ts if ts is not None else []))
    model = ctx["run_driver"](ctx["model"], mlines, timeout=1500)
    account(ctx, [c.impl_line() for c in cases], impl)
    for c in cases:
        a, b = impl.get(c.cid), model.get(c.cid)
        if a is None or a.startswith("CRASH"): continue
        if a.startswith("UNSUPPORTED") or c.cid in skipped: continue
        if a != b:
            ctx["stats"]["mismatches"] += 1
            # locate the first differing script segment
            sa, sb = a.split(" ; "), (b or "").split(" ; ")
            k = next((i for i in range(max(len(sa), len(sb))) if i >= len(sa) or i >= len(sb) or sa[i] != sb[i]), 0)
            what = c.script[k][0] if k < len(c.script) else "?"
            fails.append(dict(kind="counterexample", case=c.impl_line(), impl=a, model=b, op="amg." + c.coarsening,
                              size=len(c.impl_line()), segment=k, command=what,
                              theorem="correspondence amg(%s,%s) script step %d (%s): implementation vs Amg.v model" % (c.coarsening, c.relax, k, what)))
    return fails, impl, model, levels

def rand_cfg(r, n, small_levels=True):
    big = n > 10   # keep the exact rationals of larger cases affordable
    return dict(coarse_enough=r.choice([0, 1, 2, 3, 5, max(1, n // 2), n, n + 3]),
                direct_coarse=r.choice([1, 1, 0]), max_levels=r.choice([4294967295, 4294967295, 1, 2, 3]),
                npre=r.choice([1, 1, 0] if big else [1, 1, 2, 3, 0]), npost=r.choice([1, 1, 0] if big else [1, 1, 2, 3, 0]),
                ncycle=r.choice([1] if big else [1, 1, 2]),
                pre_cycles=r.choice([1, 1, 0] if big else [1, 1, 2, 0]))

def rand_cprm(r, coarsening):
    eps = r.choice(["1/4", "2/25", "1/8", "0", "1/2", "1/16"])
    eps = fmt_q(float32(F(eps)))
    d = dict(eps_strong=eps, relax="-", over_interp="-", do_trunc="-", eps_trunc="-")
    if coarsening == "aggregation": d["over_interp"] = r.choice(["-", "3/2", "2", "1", "5/4"])
    if coarsening == "smoothed_aggregation": d["relax"] = r.choice(["-", "1", "1/2", "3/4", "3/2"])
    if coarsening == "ruge_stuben":
        d["do_trunc"] = r.choice(["-", "1", "0"]); d["eps_trunc"] = r.choice(["-", "1/4", "1/8", "1/2"])
    return d
