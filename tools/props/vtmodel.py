"""vtmodel.py -- shared by C13.py and C17.py: the second extracted model driver "blockspmv"
(coq/Extract_blockspmv.v + ocaml/blockspmv/ops_blockspmv.ml): the SAME Gallina models (Kernels.spmv,
Kernels.residual, Adapters.scaled_adapter ...) evaluated at the value-type Scalar instances BlockInst.BlockS
(static_matrix<T,b,b>) and ComplexInst.ComplexS (std::complex<T>), plus case generators for those
value types (dyadic data: exact in binary64)."""
import random
from fractions import Fraction as F
import vcheck
from vcheck import fmt_q, fmt_vec

GROUP = "blockspmv"

def model_ctx(ctx):
    """a copy of ctx whose "model" is the blockspmv model driver (statistics stay shared)"""
    if "_vt_model" not in ctx:
        ok, out = vcheck.coq_build(ctx["log"], None, GROUP)
        if not ok: raise RuntimeError("coq build for Extract_%s.v failed:\n%s" % (GROUP, out[-2000:]))
        ctx["_vt_model"] = vcheck.build_model(ctx["log"], GROUP)
    c2 = dict(ctx); c2["model"] = ctx["_vt_model"]
    return c2

def dy(r, nz=False, big=8):
    v = F(r.randint(-big, big), r.choice([1, 2, 4]))
    return F(1) if (nz and v == 0) else v

def fmt_blk(v):            # v: b x b list of Fractions, row-major tokens
    return " ".join(fmt_q(x) for row in v for x in row)

def fmt_bcrs(n, m, rows):  # rows: list of [(col, block)]
    out = ["%d %d" % (n, m)]
    for rw in rows:
        out.append(str(len(rw)))
        for c, v in rw: out.append("%d %s" % (c, fmt_blk(v)))
    return " ".join(out)

def rand_block(r, b, density=0.7):
    return [[dy(r) if r.random() < density else F(0) for _ in range(b)] for _ in range(b)]

def norm_block(r, b):
    """a b x b block whose Frobenius norm is a power of 4 (1/4, 1, 4 or 16): sqrt(norm) and its inverse
    are exact in binary64 and the pseudo-root of the rational model is exact; NOT a multiple of the identity,
    mixed signs -- s_i a_ii s_i is far from the identity"""
    kind = r.choice(["one", "four", "mix"]) if b >= 3 else r.choice(["one", "four"])
    scale = r.choice([F(1, 4), F(1), F(4), F(16)])          # the Frobenius norm
    cells = [F(0)] * (b * b)
    pos = list(range(b * b)); r.shuffle(pos)
    if kind == "one":
        cells[pos[0]] = scale * r.choice([1, -1])
    elif kind == "four":                                     # four cells +-1/2: sum of squares 1
        for p in pos[:4]: cells[p] = scale * F(1, 2) * r.choice([1, -1])
    else:                                                    # (3,2,1,1,1)/4: 9+4+1+1+1 = 16 -> norm 1
        for p, v in zip(pos[:5], [3, 2, 1, 1, 1]): cells[p] = scale * F(v, 4) * r.choice([1, -1])
    return [cells[i * b:(i + 1) * b] for i in range(b)]

def blockvalued_cases(tier, seed, prefix="vb"):
    """scaled_problem over block values: Eigen blocks with a scalar scale vector / scale_diagonal (scaled_eig),
    static_matrix blocks with a block-diagonal scale (scaled_blk)"""
    r = random.Random(seed * 1000 + 23)
    N = 40 if tier == "quick" else 300
    eig, blk = [], []
    for it in range(N):
        b = r.choice([2, 2, 3, 4]) if it % 7 else 4
        n = r.choice([1, 2, 3, 4])
        dflt = 1 if it % 2 == 0 else 0
        rows = []
        for i in range(n):
            rw = []
            for j in range(n):
                if j == i:
                    if dflt and r.random() < 0.12: continue              # no structural diagonal: s_i stays 0
                    rw.append((j, norm_block(r, b) if dflt else rand_block(r, b)))
                elif r.random() < 0.5:
                    rw.append((j, rand_block(r, b)))
            if r.random() < 0.3: r.shuffle(rw)
            rows.append(rw)
        x = [dy(r) for _ in range(n * b)]
        s = [] if dflt else [r.choice([F(0), F(1), F(-1), dy(r, nz=True, big=4), F(-1, 2)]) for _ in range(n)]
        eig.append("%se%d scaled_eig %d %s %d %s %s" % (prefix, it, b, fmt_bcrs(n, n, rows), dflt, fmt_vec(s), fmt_vec(x)))
        if b <= 3:
            S = [rand_block(r, b) for _ in range(n)]
            blk.append("%sb%d scaled_blk %d %s 0 %d %s %s" % (prefix, it, b, fmt_bcrs(n, n, rows), n, " ".join(fmt_blk(v) for v in S), fmt_vec(x)))
    return eig, blk

def complexvalued_cases(tier, seed, prefix="vc"):
    """scaled_problem over std::complex<double>: real scale vector / scale_diagonal; diagonals on the axes with
    modulus a power of 4 (negative real, +-imaginary: the seeded C17-1 shapes)"""
    from vcheck import fmt_crs
    r = random.Random(seed * 1000 + 24)
    N = 50 if tier == "quick" else 400
    out = []
    for it in range(N):
        n = r.choice([1, 2, 3, 4, 5])
        dflt = 1 if it % 2 == 0 else 0
        re_, im_ = [], []
        for i in range(n):
            rr, ri = [], []
            cols = [j for j in range(n) if j == i or r.random() < 0.5]
            if r.random() < 0.3: r.shuffle(cols)
            for j in cols:
                if j == i and dflt:
                    if r.random() < 0.1: continue
                    mod = r.choice([F(1, 4), F(1), F(4), F(16)]); ax = r.choice([(1, 0), (-1, 0), (0, 1), (0, -1)])
                    rr.append((j, mod * ax[0])); ri.append((j, mod * ax[1]))
                else:
                    rr.append((j, dy(r))); ri.append((j, dy(r)))
            re_.append(rr); im_.append(ri)
        xr = [dy(r) for _ in range(n)]; xi = [dy(r) for _ in range(n)]
        s = [] if dflt else [r.choice([F(0), F(1), F(-1), dy(r, nz=True, big=4), F(-1, 2)]) for _ in range(n)]
        out.append("%s%d scaled_cplx %s %s %d %s %s %s" % (prefix, it, fmt_crs(n, n, re_), fmt_crs(n, n, im_), dflt, fmt_vec(s), fmt_vec(xr), fmt_vec(xi)))
    return out
