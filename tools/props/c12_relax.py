"""c12_relax.py -- C12: the smoothers under MPI, operator by operator (amgcl/mpi/relaxation/runtime.hpp, spai0.hpp and the serial
smoothers the wrapper instantiates on the distributed matrix resp. on its local block) against the Coq model DistRelax.v.

ops of drv_mpi_solve:   relax  <type=T k=v ...> -- A parts f x
                        brelax <type=T k=v ...> -- 2 A(block crs) parts f x
    amgcl::runtime::mpi::relaxation::wrapper<Backend> built through the property-tree interface on the distributed matrix (before
    move_to_backend, as mpi::amg and as_preconditioner do), ONE object; every rank reports its slice after apply_pre, apply_post,
    apply (rhs f and rhs 1) and apply_pre followed by apply_post, each started from its slice of x.
model op m.drelax (ocaml/distsolve/ops_distrelax.ml): the extracted DistRelax.v on Dist.split A parts parts at QcS resp. BlockS QcS 2;
    it also reports whether every intermediate value of ITS run is representable at binary64 (`exact`).

Comparison of the five assembled vectors:  EXACTLY when exact=1 (then the double run of the C++ makes no rounding error), else
within 2^-40 relative to max(1, max |model entry|) (spai1: 1e-9 -- Householder QR at double against the exact least-squares solve).
Exact families are generated on purpose: diagonals +-2^k (damped_jacobi, gauss_seidel), row sums of squares 2^k (spai0), global
Gershgorin bound 2^k located in ONE row and lower in {0, 1} (chebyshev).
Partitions: random contiguous ones with empty ranks, and thin ones: ranks that own one row / only rows with off-rank couplings;
the row that carries the global Gershgorin maximum belongs to one rank only (every other rank's own bound is smaller)."""
import random, re, struct
from fractions import Fraction as F
from vcheck import fmt_q, fmt_vec, fmt_ivec, fmt_crs, parse_out_vec
import gen
from props import blockvals as bv

ASSUMPTIONS = [
    "smoothers under MPI (ops relax / brelax vs m.drelax): the run is at double; a case is compared exactly when the model run (at Qc, same operations in the same "
    "order) produced only binary64-representable intermediate values -- decided by ocaml/distsolve/ops_distrelax.ml through a tracking wrapper around the Scalar "
    "operations --, else within 2^-40 relative to max(1, max |entry|) (spai1: 1e-9); power_iters = 0 only (the power iteration draws random numbers); OMP_NUM_THREADS = 1 "
    "(serial ILU solve and serial Gauss-Seidel sweep); ILUT cases with an exact tie in the p-largest selection of the model are skipped",
]
TRUSTED_BASE = ["harness/drv_mpi_solve.cpp ops relax / brelax (runtime relaxation wrapper built through the property tree before move_to_backend, five calls on one object); "
                "tools/props/c12_relax.py (assembles the ranks' slices, default parameter values 0.72 / 1.0f/30 / 1e-2f passed to the model); ocaml/distsolve/ops_distrelax.ml "
                "(binary64-representability tracking)"]
RULE = ("smoothers under MPI (ops relax / brelax, own random stream seed*1000+1299): 9 relaxation types x 1..4 (1..8) ranks, n = 2..20 (thorough 36; iluk / ilup / ilut 24), SPD M-matrices and general "
        "non-symmetric matrices, exact families (diagonals +-2^k, row sums of squares 2^k, Gershgorin bound 2^k raised in one row), random contiguous partitions with empty ranks "
        "and thin partitions (one-row ranks); block values: 5 types on block-SPD systems; thin-strip chebyshev solve cases (stream seed*1000+1301) on 3, 4, 8 ranks")

REL_TOL = F(1, 2**40)
SPAI1_TOL = F(1, 10**9)
TYPES = ["spai0", "damped_jacobi", "gauss_seidel", "ilu0", "iluk", "ilup", "ilut", "spai1", "chebyshev"]
B_TYPES = ["spai0", "damped_jacobi", "ilu0", "chebyshev", "gauss_seidel"]

def f32(x):
    return F(struct.unpack("<f", struct.pack("<f", float(x)))[0])
F32_LOWER_DEFAULT = f32(1.0 / 30)          # params(): lower(1.0f / 30)
F32_TAU_DEFAULT = f32(0.01)                # params(): tau(1e-2f)

def dec(q):
    """decimal string of a dyadic rational (what the property tree parses back exactly)"""
    q = F(q); s = "%.20f" % float(q)
    s = s.rstrip("0").rstrip(".") if "." in s else s
    assert F(s) == q, (q, s)
    return s or "0"


# ---------------------------------------------------------------- case generation
def is_pow2(q):
    q = abs(F(q))
    if q == 0: return False
    n, d = q.numerator, q.denominator
    return (n & (n - 1)) == 0 and (d & (d - 1)) == 0

def next_pow2(q):
    p = F(1)
    while p < q: p *= 2
    while p / 2 >= q: p /= 2
    return p

def abs_row_sum(rw): return sum((abs(v) for _, v in rw), F(0))

def pow2_gersh(r, rows, scale_rows=False):
    """raise ONE diagonal entry so that this row's absolute row sum is a power of two and the strict global maximum"""
    m = max(abs_row_sum(rw) for rw in rows)
    P = next_pow2(m)
    if P == m: P *= 2
    i = r.randrange(len(rows))
    rows[i] = [(c, v + (P - abs_row_sum(rows[i])) if c == i else v) for c, v in rows[i]]
    return i

def pow2_diag(r, rows):
    """general (non-symmetric) sparse matrix with diagonal entries +-2^k"""
    return [[(c, (r.choice([F(1), F(2), F(4), F(-2), F(1, 2), F(8)]) if c == i else v)) for c, v in rw] for i, rw in enumerate(rows)]

def general_rows(r, n, dens=None):
    dens = dens or r.choice([0.15, 0.3, 0.5])
    V = [F(1), F(-1), F(2), F(-2), F(1, 2), F(-1, 2), F(4), F(-1), F(-1, 4), F(3), F(-3, 2)]
    rows = []
    for i in range(n):
        cols = sorted(set([i] + [j for j in range(n) if j != i and (abs(i - j) <= 1 or r.random() < dens)]))
        rows.append([(c, r.choice(V) if c != i else r.choice([F(4), F(2), F(8), F(-4), F(3), F(5)])) for c in cols])
    return rows

def pow2_norm_rows(r, n):
    """rows whose sum of squares is a power of two (spai0: inverse(den) is exact)"""
    V = [F(1), F(-1), F(2), F(-2), F(1, 2), F(-1, 2), F(4), F(-4)]
    rows = []
    for i in range(n):
        for attempt in range(200):
            k = r.randint(1, min(n, 6))
            cols = sorted(set([i] + r.sample(range(n), k - 1))) if k > 1 else [i]
            vals = [r.choice(V) for _ in cols]
            s = sum(v * v for v in vals[:-1])
            cand = [v for v in V if is_pow2(s + v * v)]
            if cand: vals[-1] = r.choice(cand); break
        else:
            cols, vals = [i], [F(2)]
        rw = list(zip(cols, vals))
        if r.random() < 0.3: r.shuffle(rw)
        rows.append(rw)
    return rows

def thin_parts(r, n, np_):
    """contiguous partition with thin ranks: some ranks own exactly one row, some none, one or two ranks take the rest"""
    if np_ == 1: return [n]
    kind = r.choice(["ones", "ones", "one-fat", "random"])
    if kind == "random" or n < np_: return gen.rcomposition(r, n, np_, empty_bias=0.2)
    sz = [0] * np_
    if kind == "ones":
        for k in range(np_): sz[k] = 0 if (np_ > 2 and r.random() < 0.15) else r.choice([1, 1, 1, 2])
        fat = r.randrange(np_)
    else:
        for k in range(np_): sz[k] = 1
        fat = r.choice([0, np_ - 1, np_ // 2])
    sz[fat] = 0
    over = sum(sz) - n
    k = 0
    while over > 0:
        dd = min(sz[k % np_], over); sz[k % np_] -= dd; over -= dd; k += 1
    sz[fat] = n - sum(sz)
    return sz

def vecs(r, n, b=1):
    f = [F(r.randint(-4, 4), r.choice([1, 2])) for _ in range(n * b)]
    x = [F(r.randint(-3, 3), r.choice([1, 1, 2])) for _ in range(n * b)] if r.random() < 0.8 else [F(0)] * (n * b)
    if all(v == 0 for v in f): f[0] = F(1)
    return f, x

def relax_params(r, typ, exact_family):
    """(property-tree tokens, model parameter tokens)"""
    if typ in ("spai0", "gauss_seidel", "spai1"): return [], []
    if typ == "damped_jacobi":
        if r.random() < 0.15 and not exact_family: return [], [fmt_q(F(0.72))]
        w = r.choice([F(1, 2), F(3, 4), F(1), F(5, 8), F(1, 4)])
        return ["damping=" + dec(w)], [fmt_q(w)]
    if typ == "ilu0":
        if r.random() < 0.3: return [], ["1"]
        w = r.choice([F(1, 2), F(3, 4), F(1)])
        return ["damping=" + dec(w)], [fmt_q(w)]
    if typ in ("iluk", "ilup"):
        k = r.choice([0, 1, 1, 2]); w = r.choice([F(1), F(1), F(3, 4)])
        if typ == "ilup" and r.random() < 0.3: return [], ["1", "1"]
        return ["k=%d" % k, "damping=" + dec(w)], [str(k), fmt_q(w)]
    if typ == "ilut":
        if r.random() < 0.25: return [], ["2", fmt_q(F32_TAU_DEFAULT), "1"]
        p = r.choice([F(2), F(2), F(3, 2), F(1), F(3)]); tau = r.choice([F(1, 64), F(1, 16), F(1, 128), F(0)]); w = r.choice([F(1), F(3, 4)])
        return ["p=" + dec(p), "tau=" + dec(tau), "damping=" + dec(w)], [fmt_q(p), fmt_q(tau), fmt_q(w)]
    if typ == "chebyshev":
        if r.random() < 0.15 and not exact_family: return [], ["5", fmt_q(F32_LOWER_DEFAULT), "1", "0"]
        degree = r.choice([1, 2, 3, 3, 4, 5])
        if exact_family: lower = r.choice([F(0), F(1)]); higher = r.choice([F(1), F(1), F(2), F(1, 2)]); scale = False
        else:
            lower = r.choice([F(1, 4), F(1, 8), F(1, 32), F(1, 2), None]); higher = r.choice([F(1), F(1), F(5, 4), F(3, 2)])
            scale = r.random() < 0.35
        toks = ["degree=%d" % degree, "higher=" + dec(higher), "scale=%s" % ("true" if scale else "false"), "power_iters=0"]
        if lower is not None: toks.append("lower=" + dec(lower))
        return toks, [str(degree), fmt_q(F32_LOWER_DEFAULT if lower is None else lower), fmt_q(higher), "1" if scale else "0"]
    raise ValueError(typ)

def relax_cases(tier, seed):
    r = random.Random(seed * 1000 + 1299)
    quick = tier == "quick"
    out = []
    for np_ in ([1, 2, 3, 4] if quick else [1, 2, 3, 4, 5, 6, 8]):
        k = 0
        for typ in TYPES:
            reps = ((4 if np_ == 1 else 10) if quick else 40)
            if typ == "chebyshev": reps = int(reps * 2.5)
            for it in range(reps):
                # the exact-rational models of iluk / ilup / ilut (list-based sparse rows) get slow beyond ~25 rows per rank
                n = r.randint(max(2, np_), 20 if quick else (24 if typ in ("iluk", "ilup", "ilut") else 36))
                exact_family = it % 3 == 0 and typ in ("spai0", "damped_jacobi", "gauss_seidel", "chebyshev")
                if typ == "spai0" and exact_family: A = pow2_norm_rows(r, n)
                elif typ in ("damped_jacobi", "gauss_seidel") and exact_family: A = pow2_diag(r, general_rows(r, n))
                elif typ in ("spai0", "damped_jacobi", "gauss_seidel") and it % 3 == 1: A = general_rows(r, n)
                else:
                    A = gen.dyadic_spd(r, n)
                    if typ == "chebyshev" and (exact_family or r.random() < 0.5): pow2_gersh(r, A)
                p = thin_parts(r, n, np_) if it % 2 == 0 else gen.rcomposition(r, n, np_, empty_bias=0.2)
                f, x = vecs(r, n)
                ptoks, mtoks = relax_params(r, typ, exact_family)
                out.append("p%d.r%d relax %s -- %s %s %s %s # %s" % (np_, k, " ".join(["type=" + typ] + ptoks), fmt_crs(n, n, A), fmt_ivec(p),
                                                                fmt_vec(f), fmt_vec(x), " ".join(mtoks) or "-"))
                k += 1
        # block values: static_matrix<double,2,2>, block-SPD systems with non-commuting blocks (products in the order the code uses)
        from props import C12 as _c12
        for typ in B_TYPES:
            for it in range((2 if np_ == 1 else 4) if quick else 16):
                n = r.randint(max(2, np_), 10 if quick else 20)
                A = _c12.block_spd(r, n)
                if typ == "spai0" and it % 2 == 1:
                    # NON-symmetric diagonal blocks (D_i + [[0, (i%3+1)/2], [0, 0]]): mpi::relaxation::spai0 accumulates
                    # math::adjoint(a_ii) = the TRANSPOSED block (repair of finding C06-spai0-no-conj); with symmetric
                    # diagonal blocks the adjoint is invisible.  Deterministic: the random stream is left unchanged.
                    A = [[(c, bv.bl_add(V, [[F(0), F(i % 3 + 1, 2)], [F(0), F(0)]]) if c == i else V) for c, V in rw] for i, rw in enumerate(A)]
                p = thin_parts(r, n, np_) if it % 2 == 0 else gen.rcomposition(r, n, np_, empty_bias=0.2)
                f, x = vecs(r, n, 2)
                ptoks, mtoks = relax_params(r, typ, False)
                out.append("p%d.v%d brelax %s -- 2 %s %s %s %s # %s" % (np_, k, " ".join(["type=" + typ] + ptoks), bv.fmt_bcrs(n, n, A), fmt_ivec(p),
                                                                   fmt_vec(f), fmt_vec(x), " ".join(mtoks) or "-"))
                k += 1
    return out + cheby_solve_cases(tier, seed)


def cheby_solve_cases(tier, seed):
    """`solve` cases (checked by C12.check_solve: rank consistency, truthfulness, convergence, hierarchy) with relax.type = chebyshev
    on grids cut into thin strips: about one grid line per rank, so that every row of a thin rank has off-rank couplings and the
    rank's own Gershgorin bound would be below the global one"""
    from props import C12 as _c12
    r = random.Random(seed * 1000 + 1301)
    quick = tier == "quick"
    out = []
    for np_ in ([3, 4, 8] if quick else [2, 3, 4, 5, 6, 8]):
        for it in range(2 if quick else 6):
            nx = r.randint(4, 8); ny = r.randint(max(4, np_ + 2), np_ + 6)
            M, xy = _c12.grid_spd(r, nx, ny, 1)
            p = _c12.thin_strips(r, nx, ny, np_, 1)
            n = len(M)
            f = [F(r.randint(-4, 4), r.choice([1, 2])) for _ in range(n)]
            if all(v == 0 for v in f): f[0] = F(1)
            pre = "precond."
            c = r.choice(_c12.COARSENINGS)
            cfg = ["precond.class=amg", pre + "coarsening.type=" + c, pre + "relax.type=chebyshev",
                   pre + "relax.degree=%d" % r.choice([2, 3, 5]), pre + "relax.power_iters=0",
                   pre + "coarse_enough=%d" % r.choice([2, 4, 8]), pre + "direct_coarse=true", pre + "repart.enable=false",
                   pre + "npre=1", pre + "npost=1"]
            if c == "aggregation": cfg += [pre + "coarsening.over_interp=%d" % r.choice([1, 2]), pre + "coarsening.aggr.eps_strong=%s" % r.choice(["0.25", "0.125", "0"])]
            cfg += ["solver.type=" + r.choice(["cg", "bicgstab", "gmres"]), "solver.tol=" + _c12.TOL, "solver.maxiter=%d" % _c12.MAXITER]
            out.append("p%d.c%d solve %s -- %s %s %s %s 2" % (np_, it, " ".join(cfg), fmt_crs(n, n, M), fmt_ivec(p), fmt_vec(f), fmt_vec([F(0)] * n)))
    return out


# ---------------------------------------------------------------- check
REC_RE = re.compile(r"^pre=(\[[^\]]*\]) post=(\[[^\]]*\]) apply=(\[[^\]]*\]) ones=(\[[^\]]*\]) seq=(\[[^\]]*\])")
NAMES = ["apply_pre", "apply_post", "apply", "apply to the vector of ones", "apply_pre then apply_post"]

class RCase:
    def __init__(self, line):
        self.line = line
        body, _, mt = line.rpartition(" # ")
        self.mtoks = "" if mt.strip() == "-" else mt.strip()
        cid, op, rest = body.split(" ", 2)
        self.cid, self.op = cid, op
        head, tail = rest.split(" -- ", 1)
        self.kv = dict(w.split("=", 1) for w in head.split())
        self.typ = self.kv["type"]
        self.b = int(tail.split(" ", 1)[0]) if op == "brelax" else 1
        self.tail = tail if op == "brelax" else "1 " + tail
        t = bv.Toks(tail)
        if op == "brelax": t.i(); self.n, m, self.rows = t.bcrs(self.b)
        else: self.n, m, self.rows = t.crs()
        self.parts = [t.i() for _ in range(t.i())]

    def model_line(self):
        b_, rest = self.tail.split(" ", 1)
        return "%s.m m.drelax %s %s %s %s" % (self.cid, b_, self.typ, self.mtoks, rest)

def driver_line(line):
    """the case line as the MPI driver reads it (without the model-parameter trailer)"""
    return line.rpartition(" # ")[0]

def check_relax(line, out, np_, fails, ctx):
    c = RCase(line)
    def fail(what, **kw):
        fails.append(dict(kind="counterexample", case=line, impl=(out or "")[:4000], model=None, op=c.op, size=len(line), np=np_,
                          oracle=dict(op=what, relaxation=c.typ, **kw), theorem="C12 smoothers under MPI: %s (%s, %d ranks)" % (what, c.typ, np_)))
    if out is None or out.startswith("CRASH"): return fail("terminates on all ranks (no hang / crash)", got=out)
    per = out.split(" ; ")
    if len(per) != np_ or any(p.startswith("EXC") or "EXC " in p[:8] for p in per): return fail("no exception on any rank", got=[p[:200] for p in per])
    if any(w in p for p in per for w in ("nan", "inf")): return fail("finite results", got=[p[:200] for p in per])
    ms = [REC_RE.match(p) for p in per]
    if not all(ms): return fail("well-formed report", got=[p[:120] for p in per])
    impl = []
    for g in range(5):
        v = []
        for m in ms: v += parse_out_vec(m.group(g + 1))
        impl.append(v)
    if any(len(v) != c.n * c.b for v in impl) or [len(parse_out_vec(m.group(1))) for m in ms] != [w * c.b for w in c.parts]:
        return fail("every rank reports its slice", got=[len(v) for v in impl])
    ctx.setdefault("c12_drelax", []).append((c, c.model_line(), impl, line, out))

MODEL_RE = re.compile(r"^pre=(\[[^\]]*\]) post=(\[[^\]]*\]) apply=(\[[^\]]*\]) ones=(\[[^\]]*\]) seq=(\[[^\]]*\]) exact=([01])(?: rho=(\[[^\]]*\]))?$")

def finish_relax(ctx, np_, fails, stat):
    ml = ctx.pop("c12_drelax", [])
    if not ml: return
    res = ctx["run_driver"](ctx["model"], [m[1] for m in ml])
    for c, mline, impl, line, out in ml:
        got = res.get(c.cid + ".m")
        def fail(what, **kw):
            ctx["stats"]["mismatches"] += 1
            fails.append(dict(kind="counterexample", case=line, impl=(out or "")[:3000], model=(got or "")[:3000], op=c.op, size=len(line), np=np_,
                              oracle=dict(op=what, relaxation=c.typ, **kw),
                              theorem="C12 smoothers under MPI: model DistRelax.v vs mpi/relaxation/runtime.hpp: %s (%s, %d ranks)" % (what, c.typ, np_)))
        ctx["stats"]["oracle_checks"] += 1
        if got == "EXC TIE": stat("relax_cases_skipped_ilut_tie"); continue
        mm = MODEL_RE.match(got or "")
        if not mm: fail("model run", got=(got or "")[:300]); continue
        exact = mm.group(6) == "1"
        key = "relax_" + c.typ + ("_block" if c.b > 1 else "")
        stat(key + "_cases_compared")
        if exact: stat(key + "_cases_compared_exactly")
        rank_of = [k for k, w in enumerate(c.parts) for _ in range(w)]
        if any(rank_of[col] != rank_of[i] for i, rw in enumerate(c.rows) for col, _ in rw): stat(key + "_cases_with_remote_entries")
        if mm.group(7):
            rho = parse_out_vec(mm.group(7))
            if len(set(rho)) > 1: fail("every rank holds the same spectral radius estimate (model)", got=[fmt_q(v) for v in rho]); continue
            if c.b == 1 and rho and c.kv.get("scale", "false") == "false":
                # evidence: on how many ranks is the rank's OWN bound (local block only / all its rows) below the global one
                loc = []; own = []
                for k, w in enumerate(c.parts):
                    lo = sum(c.parts[:k]); rws = list(range(lo, lo + w))
                    if not rws: continue
                    loc.append(max(sum((abs(v) for col, v in c.rows[i] if lo <= col < lo + w), F(0)) for i in rws))
                    own.append(max(abs_row_sum(c.rows[i]) for i in rws))
                if any(v < rho[0] for v in loc): stat("relax_chebyshev_cases_where_a_rank's_local_block_bound_is_below_the_global_one")
                if sum(1 for v in own if v == rho[0]) == 1 and len(own) > 1: stat("relax_chebyshev_cases_with_the_global_maximum_on_one_rank_only")
        tol = SPAI1_TOL if c.typ == "spai1" else REL_TOL
        for g in range(5):
            M = parse_out_vec(mm.group(g + 1)); I = impl[g]
            if len(M) != len(I): fail("%s: length" % NAMES[g], got=len(I), want=len(M)); break
            if M == I: continue
            scale = max([abs(v) for v in M] + [F(1)])
            bad = [i for i, (a, b_) in enumerate(zip(I, M)) if a != b_ and (exact or abs(a - b_) > tol * scale)]
            if bad:
                i = bad[0]
                fail("%s%s" % (NAMES[g], " (exact)" if exact else ""), index=i, rank=rank_of[i // c.b] if i // c.b < len(rank_of) else None,
                     got=fmt_q(I[i]), want=fmt_q(M[i]), exact=exact, rel_err=float(abs(I[i] - M[i]) / scale))
                break
