"""c02_block.py -- C02 for BLOCK value types: the multigrid cycle over static_matrix<vq::Q,b,b> values.

amg<builtin<static_matrix<vq::Q,b,b>>, C, R>, C in {aggregation (agg), smoothed_aggregation (sa)},
R in {damped_jacobi, spai0, gauss_seidel, ilu0, chebyshev}, b = 2 (drivers amgc_agg, amgc_sa) and b = 3
(amgc_agg3, amgc_sa3); harness/amgc_driver.hh.  Block products do not commute, so the operand order of every
product in amg.hpp and in the smoothers is observable.  Checks:
  1. correspondence: the SAME cycle model as for scalars (coq/Amg.v amg_init / cycle / apply) run at the Scalar
     instance BlockInst.BlockS QcS b with the smoothers and the block coarse solve of coq/AmgBlockCycle.v
     (model group amgc: coq/Extract_amgc.v, ocaml/amgc/ops_amgc.ml), fed with the implementation's block-valued
     transfer operators, predicts every dump (level matrices = block Galerkin products, stored order) and every
     apply / cycle result digit for digit;
  2. oracles on the implementation's outputs (exact): one fixed operator (history / initial x), linearity over base
     scalars, B assembled from unit vectors reproduces apply(f), cycle(f, x0) = x0 + B (f - A x0) for pre_cycles = 1,
     single-level direct solve solves (extracted Kernels.spmv at BlockS), symmetry of the expanded B for symmetric
     block matrices (A_JI = A_IJ^T) with npre = npost (all five smoothers are symmetric for block values: Jacobi
     D^-1, SPAI-0 c_I A_II, forward/backward Gauss-Seidel pair, ILU(0) = L D L^T form, Chebyshev polynomial), positive
     definiteness and strict energy decrease where the textbook V-cycle theory guarantees them (see pd_eligible).
"""
import hashlib, os, random, struct, zlib
from fractions import Fraction as F
from vcheck import fmt_q, fmt_vec, parse_out_vec, split_top
import gen
from props.common import account

DRIVERS = ["amgc_agg", "amgc_sa", "amgc_agg3", "amgc_sa3"]
MODEL_GROUP = "amgc"
RELAX = ["damped_jacobi", "spai0", "gauss_seidel", "ilu0", "chebyshev"]
CFG_KEYS = ("coarse_enough", "direct_coarse", "max_levels", "npre", "npost", "ncycle", "pre_cycles")
MAX_MODEL_OUT = 400000
_H = os.path.join(os.path.dirname(os.path.dirname(os.path.dirname(os.path.abspath(__file__)))), "harness")

def extra_flags():
    """the amgc drivers include harness/amgc_driver.hh, which the runner's source hash does not see (it hashes
    *.hpp: a new .hpp would invalidate every driver binary of every property): its hash enters the cache key as a flag"""
    h = hashlib.sha256()
    try: h.update(open(os.path.join(_H, "amgc_driver.hh"), "rb").read())
    except OSError: h.update(b"<missing>")
    return {d: ["-DVQ_AMGC_HDR=0x" + h.hexdigest()[:12]] for d in DRIVERS}

def f32(x): return F(struct.unpack("f", struct.pack("f", float(x)))[0])
LOWER_DEFAULT = F(struct.unpack("f", struct.pack("f", struct.unpack("f", struct.pack("f", 1.0))[0] / 30))[0])   # 1.0f / 30 in float
assert LOWER_DEFAULT == F(8947849, 268435456)

def driver_of(variant, b): return "amgc_%s%s" % (variant, "3" if b == 3 else "")

# ---------------------------------------------------------------- block matrices
def fmt_bcrs(n, m, brows):
    out = [str(n), str(m)]
    for rw in brows:
        out.append(str(len(rw)))
        for c, v in rw: out += [str(c)] + [fmt_q(x) for x in v]
    return " ".join(out)

def expand(brows, b):
    """scalar rows of a block matrix (list of rows of (col, [b*b values row-major])), zero cells kept"""
    out = []
    for rw in brows:
        for r in range(b):
            out.append([(c * b + s, v[r * b + s]) for c, v in rw for s in range(b)])
    return out

def dense(brows, b, ncols):
    N = len(brows) * b; M = [[F(0)] * (ncols * b) for _ in range(N)]
    for I, rw in enumerate(brows):
        for c, v in rw:
            for r in range(b):
                for s in range(b): M[I * b + r][c * b + s] += v[r * b + s]
    return M

def block_mmatrix(r, b, nb, sym=True):
    """block M-matrix on a connected graph of nb nodes: off-diagonal blocks -W with W >= 0 entrywise (generic,
    NOT symmetric, so that blocks do not commute), A_JI = A_IJ^T when sym (independent otherwise); diagonal block:
    negative couplings between the unknowns of a node, diagonal = sum of the absolute values of the scalar row +
    extra >= 0 (> 0 in the first row of every node with probability 0.7 and always in row 0): weakly diagonally dominant,
    irreducible, non-singular; SPD when sym.  Returns sorted block rows [(col, [b*b values])]."""
    kind = r.choice(["path", "grid", "graph", "graph"])
    edges = set()
    if kind == "path":
        for i in range(nb - 1): edges.add((i, i + 1))
    elif kind == "grid":
        nx = max(1, int(nb ** 0.5))
        for i in range(nb):
            if (i + 1) % nx != 0 and i + 1 < nb: edges.add((i, i + 1))
            if i + nx < nb: edges.add((i, i + nx))
    else:
        for i in range(1, nb): edges.add((r.randrange(i), i))
        for _ in range(r.randint(0, nb)):
            i, j = r.randrange(nb), r.randrange(nb)
            if i != j: edges.add((min(i, j), max(i, j)))
    def wblock():
        while True:
            W = [F(r.choice([0, 1, 1, 2, 3]), r.choice([1, 1, 2, 4])) for _ in range(b * b)]
            if any(x != 0 for x in W): return W
    def tr(W): return [W[s * b + t] for t in range(b) for s in range(b)]
    blk = {}
    for (I, J) in sorted(edges):
        W = wblock()
        blk[(I, J)] = [-x for x in W]
        blk[(J, I)] = [-x for x in (tr(W) if sym else wblock())]
        if not sym and r.random() < 0.15: del blk[(J, I)]          # structurally non-symmetric
    for I in range(nb):
        D = [F(0)] * (b * b)
        for s in range(b):
            for t in range(s + 1, b):
                if r.random() < 0.85:
                    D[s * b + t] = -F(r.choice([1, 1, 2, 3]), r.choice([1, 2, 4]))
                    D[t * b + s] = D[s * b + t] if sym else -F(r.choice([0, 1, 2]), r.choice([1, 2]))
        blk[(I, I)] = D
    for I in range(nb):
        for s in range(b):
            tot = sum(abs(v[s * b + t]) for (i, j), v in blk.items() if i == I for t in range(b) if not (j == I and t == s))
            ex = F(r.choice([0, 1, 1, 2, 3]), r.choice([1, 2]))
            if (I == 0 and s == 0 and ex == 0) or tot + ex == 0: ex = F(1)
            blk[(I, I)][s * b + s] = tot + ex
    return [sorted((j, v) for (i, j), v in blk.items() if i == I) for I in range(nb)]

def to_blocks(rows, b):
    """sorted scalar rows of an (nb*b) x (nb*b) matrix -> block rows"""
    nb = len(rows) // b; out = []
    for I in range(nb):
        blk = {}
        for r_ in range(b):
            for c, v in rows[I * b + r_]:
                blk.setdefault(c // b, [F(0)] * (b * b))[r_ * b + c % b] = v
        out.append(sorted(blk.items()))
    return out

def commuting(brows, b):
    """do ALL stored blocks commute pairwise? (then operand order is unobservable: the case only exercises the scalar-like path)"""
    bl = []
    for rw in brows:
        for _, v in rw:
            if v not in bl: bl.append(v)
    def mul(X, Y): return [sum(X[i * b + k] * Y[k * b + j] for k in range(b)) for i in range(b) for j in range(b)]
    return all(mul(X, Y) == mul(Y, X) for i, X in enumerate(bl) for Y in bl[i + 1:])

# ---------------------------------------------------------------- cases
class CCase:
    def __init__(self, cid, variant, b, relax, cfg, cprm, rprm, n, brows, script):
        self.cid, self.variant, self.b, self.relax, self.cfg, self.cprm, self.rprm = cid, variant, b, relax, cfg, cprm, rprm
        self.n, self.brows, self.script = n, brows, script
        self.meta = {}
    def script_tokens(self):
        out = [str(len(self.script))]
        for c in self.script:
            if c[0] == "dump": out.append("dump")
            else: out += [c[0], fmt_vec(c[1]), fmt_vec(c[2])]
        return " ".join(out)
    def impl_line(self):
        cf, cp, rp = self.cfg, self.cprm, self.rprm
        return " ".join([self.cid, "amgc." + self.variant, str(self.b), self.relax,
                         " ".join(str(cf[k]) for k in CFG_KEYS),
                         cp["eps_strong"], cp["relax"], cp["over_interp"],
                         rp["damping"], str(rp["degree"]), rp["lower"], rp["higher"], str(rp["scale"]),
                         fmt_bcrs(self.n, self.n, self.brows), self.script_tokens()])
    def gscale(self):
        """s of 'A_next = s R A P': (float)(1 / over_interp) for plain aggregation; aggregation::params():
        over_interp = 2.0f for block value types"""
        if self.variant != "agg": return "-"
        oi = self.cprm["over_interp"]; oi = F(2) if oi == "-" else F(oi)
        f = struct.unpack("f", struct.pack("f", float(oi)))[0]
        return fmt_q(F(struct.unpack("f", struct.pack("f", 1.0 / f))[0]))
    def model_line(self, ts):
        cf, rp = self.cfg, self.rprm
        damping = rp["damping"]
        if damping == "-": damping = fmt_q(F(0.72)) if self.relax == "damped_jacobi" else "1"   # params() defaults (0.72 as a double)
        lower = fmt_q(LOWER_DEFAULT if rp["lower"] == "-" else f32(F(rp["lower"])))
        higher = fmt_q(F(1) if rp["higher"] == "-" else f32(F(rp["higher"])))
        toks = [str(len(ts))]
        for t in ts: toks.append("0" if t is None else "1 " + t[0] + " " + t[1])
        return " ".join([self.cid, "amgcm", str(self.b), self.relax, " ".join(str(cf[k]) for k in CFG_KEYS),
                         damping, str(rp["degree"]), lower, higher, str(rp["scale"]), self.gscale(),
                         fmt_bcrs(self.n, self.n, self.brows), " ".join(toks), self.script_tokens()])

def out_bcrs_tokens(s):
    """'{n m | c:v;..;v c:... | ...}' (output format) -> bcrs tokens (case format), without rational parsing"""
    s = s.strip(); assert s[0] == "{" and s[-1] == "}", s[:60]
    parts = s[1:-1].split("|")
    out = [parts[0].strip()]
    for p in parts[1:]:
        es = p.split()
        out.append(str(len(es)))
        out += [e.replace(":", " ").replace(";", " ") for e in es]
    return " ".join(out)

def parse_bcrs(s, b):
    s = s.strip(); parts = s[1:-1].split("|")
    n, m = [int(x) for x in parts[0].split()]
    rows = []
    for p in parts[1:]:
        rw = []
        for e in p.split():
            c, v = e.split(":"); rw.append((int(c), [F(x) for x in v.split(";")]))
        rows.append(rw)
    return n, m, rows

def parse_dump_raw(seg):
    """'D n M {A} {P} {R} ... L {A} | S {A}|-' -> list of (kind, A, P, R), matrices as output strings"""
    items = split_top(seg)
    assert items[0] == "D", seg[:50]
    n = int(items[1]); i = 2; out = []
    for _ in range(n):
        k = items[i]; i += 1
        if k == "M": out.append(("M", items[i], items[i + 1], items[i + 2])); i += 3
        elif k == "L": out.append(("L", items[i], None, None)); i += 1
        else: out.append(("S", None if items[i] == "-" else items[i], None, None)); i += 1
    return out

def idprefix(tier, seed): return "%s%d_" % (tier[0], seed)

def make_cases(tier, seed):
    r = random.Random(seed * 1000 + 402)
    N = 240 if tier == "quick" else 1200
    cases = []
    for k in range(N):
        b = 3 if (k % 6 == 5) else 2
        variant = ["agg", "sa"][k % 2]
        relax = RELAX[(k // 2) % 5]
        sym = (k % 4 != 3)                     # every fourth case: non-symmetric (linearity / history independence only)
        if tier == "quick": nb = r.choice([1, 2, 3, 4, 5, 6, 8, 10] if b == 2 else [2, 3, 4, 6])
        else: nb = r.choice([1, 2, 3, 4, 5, 6, 8, 10, 12, 16] if b == 2 else [2, 3, 4, 5, 6, 8, 10])
        if sym and r.random() < 0.2:
            brows = to_blocks(gen.spd_block(r, b, nb, incomplete=(r.random() < 0.5)), b)     # mixed signs, strictly dominant
        else:
            brows = block_mmatrix(r, b, nb, sym)
        big = nb * b > 8
        cfg = dict(coarse_enough=r.choice([0, 1, 1, 1, 2, 2, 3, max(1, nb // 2), max(1, nb // 3), nb, nb + 2]),
                   direct_coarse=r.choice([1, 1, 0]), max_levels=r.choice([4294967295] * 7 + [1, 2, 3]),
                   npre=r.choice([1, 1, 0] if big else [1, 1, 2, 0]), npost=r.choice([1, 1, 0] if big else [1, 1, 2, 0]),
                   ncycle=r.choice([1] if big else [1, 1, 2]), pre_cycles=r.choice([1, 1, 0] if big else [1, 1, 2, 0]))
        if sym and r.random() < 0.65: cfg["npost"] = cfg["npre"] = max(1, cfg["npre"])
        eps = fmt_q(f32(F(r.choice(["1/4", "2/25", "1/8", "0", "0", "1/2", "1/16", "1/16", "1/100", "1/100", "1/100", "1/1000"]))))
        cprm = dict(eps_strong=eps, relax="-", over_interp="-")
        if variant == "agg": cprm["over_interp"] = r.choice(["-", "3/2", "2", "1", "1", "5/4"])
        else: cprm["relax"] = r.choice(["-", "1", "1/2", "3/4", "3/2"])
        rprm = dict(damping="-", degree=5, lower="-", higher="-", scale=0)
        if relax in ("damped_jacobi", "ilu0"): rprm["damping"] = r.choice(["1/2", "3/4", "5/8", "-", "1"])
        if relax == "chebyshev":
            rprm.update(degree=r.choice([1, 2, 2, 3, 3, 5] if not big else [1, 2, 3]), scale=r.choice([0, 1]),
                        lower=r.choice(["-", "-", "1/8", "1/4"]), higher=r.choice(["-", "-", "9/8", "5/4"]))
            if cfg["ncycle"] == 2 or cfg["pre_cycles"] == 2: rprm["degree"] = min(rprm["degree"], 2)
        Nn = nb * b
        f = gen.rvec(r, Nn); g = gen.rvec(r, Nn); a, c_ = gen.rq(r, nz=True), gen.rq(r)
        x0 = gen.rvec(r, Nn); z = [F(0)] * Nn
        script = [("dump",), ("apply", f, x0), ("apply", g, z), ("apply", [a * u + c_ * v for u, v in zip(f, g)], x0),
                  ("apply", f, z), ("cycle", f, x0)]
        units = Nn <= (12 if tier == "quick" else 16) and cfg["pre_cycles"] >= 1
        if relax in ("spai0", "chebyshev") and Nn > 8: units = False     # 2^-64-grid pseudo square roots: long rationals
        if units:
            for i in range(Nn):
                e = [F(0)] * Nn; e[i] = F(1); script.append(("apply", e, x0))
        if r.random() < 0.3: brows = [r.sample(rw, len(rw)) for rw in brows]       # amg(const Matrix&) copies and sorts
        c = CCase("%sk%d" % (idprefix(tier, seed), k), variant, b, relax, cfg, cprm, rprm, nb, brows, script)
        c.meta = dict(a=a, b=c_, units=units, sym=sym)
        cases.append(c)
    return cases

# ---------------------------------------------------------------- exact dense helpers (oracles)
def dot(u, v): return sum(x * y for x, y in zip(u, v))
def dmatvec(M, x): return [dot(rw, x) for rw in M]
def is_pd(M):
    """exact LDL^T without pivoting: all pivots > 0 (M symmetric)"""
    n = len(M); A = [rw[:] for rw in M]
    for k in range(n):
        d = A[k][k]
        if not d > 0: return False
        for i in range(k + 1, n):
            if A[i][k] == 0: continue
            l = A[i][k] / d
            for j in range(k, n): A[i][j] -= l * A[k][j]
    return True
def dinv(M):
    n = len(M); A = [rw[:] + [F(int(i == j)) for j in range(n)] for i, rw in enumerate(M)]
    for k in range(n):
        p = next((i for i in range(k, n) if A[i][k] != 0), None)
        if p is None: return None
        A[k], A[p] = A[p], A[k]
        d = A[k][k]; A[k] = [x / d for x in A[k]]
        for i in range(n):
            if i != k and A[i][k] != 0:
                l = A[i][k]; A[i] = [x - l * y for x, y in zip(A[i], A[k])]
    return [rw[n:] for rw in A]
def sqrt_q(q):
    """vq::sqrt / QcInst.ssqrt: floor(sqrt(floor(q 2^128))) / 2^64 for q > 0, else 0"""
    import math
    if q <= 0: return F(0)
    return F(math.isqrt((q.numerator << 128) // q.denominator), 1 << 64)

def smoother_matrix(c, A_brows, nrows):
    """dense M of the level smoother 'x += M (f - A x)' for damped_jacobi / spai0 (block diagonal), else None"""
    b = c.b; N = nrows * b; M = [[F(0)] * N for _ in range(N)]
    for I, rw in enumerate(A_brows):
        dia = [v for col, v in rw if col == I]
        if not dia: return None
        if c.relax == "damped_jacobi":
            w = F(0.72) if c.rprm["damping"] == "-" else F(c.rprm["damping"])
            Di = dinv([dia[0][s * b:(s + 1) * b] for s in range(b)])       # diagonal(): FIRST entry with col == row
            if Di is None: return None
            blk = [[w * x for x in rw_] for rw_ in Di]
        elif c.relax == "spai0":
            den = F(0); num = [F(0)] * (b * b)
            for col, v in rw:
                nv = sqrt_q(sum(x * x for x in v)); den += nv * nv
                if col == I: num = [num[s * b + t] + v[t * b + s] for s in range(b) for t in range(b)]   # num += math::adjoint(v) (transpose; spai0.hpp since the repair of C06-spai0-no-conj)
            if den == 0: return None
            blk = [[num[s * b + t] / den for t in range(b)] for s in range(b)]
        else: return None
        for s in range(b):
            for t in range(b): M[I * b + s][I * b + t] = blk[s][t]
    return M

def pd_eligible(c, levels):
    """is 'B symmetric positive definite and the energy norm of every non-zero error strictly decreases' a THEOREM for
    this case?  Symmetric matrix, npre = npost >= 1, a smoother 'x += M (f - A x)' with 2 M^-1 - A > 0 on every level
    that smooths (always true for the forward/backward Gauss-Seidel pair on an SPD matrix; checked exactly on the
    implementation's level matrices for damped Jacobi and SPAI-0; not claimed for ILU(0) / Chebyshev), post-smoother =
    adjoint of the pre-smoother, exact or symmetric-smoother coarse solve, and the coarse operator the TRUE Galerkin
    product (smoothed aggregation, or over_interp = 1) -- or at most two levels with over_interp <= 2 (with the
    re-scaled operator the coarse correction over-shoots by the factor over_interp; on three or more levels the
    V-cycle is then not a contraction in general)."""
    if not c.meta["sym"] or c.cfg["npre"] != c.cfg["npost"] or c.cfg["npre"] < 1: return False
    if c.relax not in ("gauss_seidel", "damped_jacobi", "spai0"): return False
    oi = F(1) if c.variant == "sa" else (F(2) if c.cprm["over_interp"] == "-" else F(c.cprm["over_interp"]))
    if not (oi == 1 or (len(levels) <= 2 and oi <= 2)): return False
    if c.relax == "gauss_seidel": return True
    for kind, A, P, R in levels:
        if kind == "S": continue
        n, m, rows = parse_bcrs(A, c.b)
        M = smoother_matrix(c, rows, n)
        if M is None: return False
        Ad = dense(rows, c.b, m); N = n * c.b
        MA = [[dot(M[i], [Ad[k][j] for k in range(N)]) for j in range(N)] for i in range(N)]
        MAM = [[dot(MA[i], [M[k][j] for k in range(N)]) for j in range(N)] for i in range(N)]
        T = [[2 * M[i][j] - MAM[i][j] for j in range(N)] for i in range(N)]       # 2M - M A M > 0  <=>  2 M^-1 - A > 0
        if any(T[i][j] != T[j][i] for i in range(N) for j in range(i)): return False
        if not is_pd(T): return False
    return True

# ---------------------------------------------------------------- run
def fail(c, theorem, impl=None, model=None, **kw):
    d = dict(kind="counterexample", case=c.impl_line(), impl=(impl or "")[:3000], model=(model or "")[:3000] if model is not None else None,
             op="amgc." + c.variant, size=len(c.impl_line()), theorem=theorem,
             block=dict(variant=c.variant, b=c.b, relax=c.relax, sym=c.meta.get("sym")))
    d.update(kw); return d

def model_exe(ctx):
    """second model driver (group amgc).  Every .vo that coq/Extract_amgc.v needs is in the dependency closure of
    Properties_C02.v, which the runner has built already; only if the extraction fails (stand-alone use) is the closure of
    Extract_amgc.v built here (that takes the global coq lock)"""
    if "_amgc_model" not in ctx:
        import vcheck
        try:
            ctx["_amgc_model"] = vcheck.build_model(ctx["log"], MODEL_GROUP)
        except Exception:
            ok, out = vcheck.coq_build(ctx["log"], None, MODEL_GROUP)
            if not ok: raise RuntimeError("coq build for Extract_%s.v failed:\n%s" % (MODEL_GROUP, out[-2000:]))
            ctx["_amgc_model"] = vcheck.build_model(ctx["log"], MODEL_GROUP)
    return ctx["_amgc_model"]

def run_impl(ctx, cases, tmo):
    """implementation outputs; a crashing case kills its shard (the runner marks the first unanswered case CRASH):
    the unanswered rest is run again until every case has an answer of its own"""
    impl = {}; pending = list(cases)
    for _ in range(6):
        by_drv = {}
        for c in pending: by_drv.setdefault(driver_of(c.variant, c.b), []).append(c)
        for d, cs in by_drv.items():
            impl.update(ctx["run_driver"](ctx["cpp"][d], [c.impl_line() for c in cs], timeout=tmo))
        pending = [c for c in pending if impl.get(c.cid) is None]
        if not pending: break
    return impl

def run(ctx, cases_override=None):
    tier, seed = ctx["tier"], ctx["seed"]
    if cases_override:
        import re
        m = re.match(r"([qt])(\d+)_k", cases_override[0].split(" ", 1)[0])
        if m: tier, seed = {"q": "quick", "t": "thorough"}[m.group(1)], int(m.group(2))
    cases = make_cases(tier, seed)
    if cases_override:
        ids = set(l.split(" ", 1)[0] for l in cases_override)
        cases = [c for c in cases if c.cid in ids]
        if not cases: return []
    try:
        mexe = model_exe(ctx)
    except Exception as e:
        return [dict(kind="broken-model-build", case=None, has_input=False, impl=None, model=None, op="amgcm", size=0,
                     theorem="Extract_amgc.v / OCaml driver of the amgc group does not build: " + str(e)[-1500:])]
    st = ctx["stats"]
    def bump(key): st["by_op"][key] = st["by_op"].get(key, 0) + 1
    tmo = 600 if tier == "quick" else 1500
    fails = []
    impl = run_impl(ctx, cases, tmo)
    account(ctx, [c.impl_line() for c in cases], impl)
    mlines = []; levels = {}; olines = []; owhat = {}
    for c in cases:
        o = impl.get(c.cid)
        if not commuting(c.brows, c.b): bump("amgc:noncommuting-blocks")
        if o is not None and o.startswith("CRASH") and "inverse.hpp" in o and "is_zero(d)" in o:
            # assert(!math::is_zero(d)) in detail::inverse: a smoother / coarse solver met a SINGULAR diagonal block; for
            # block values this assertion is the counterpart of the "zero pivot" exception of the scalar code
            bump("amgc:singular-block-assert(out of domain)"); continue
        if o is None or o.startswith("CRASH"):
            fails.append(fail(c, "implementation crashed or gave no answer (amgc driver)", impl=o)); continue
        if o.startswith(("EXC", "UNSUPPORTED")):
            bump("amgc:impl-exception"); continue
        segs = o.split(" ; ")
        if len(segs) != len(c.script) or not segs[0].startswith("D ") or "BADCRS" in segs[0]:
            fails.append(fail(c, "amgc driver: malformed output of the implementation", impl=o)); continue
        lv = parse_dump_raw(segs[0]); levels[c.cid] = lv
        if len(o) > MAX_MODEL_OUT: bump("amgc:skipped-too-large"); continue
        ts = [(out_bcrs_tokens(l[2]), out_bcrs_tokens(l[3])) if l[0] == "M" else None for l in lv]
        mlines.append(c.model_line(ts))
    # 1. correspondence
    model = ctx["run_driver"](mexe, mlines, timeout=tmo)
    have = set(l.split(" ", 1)[0] for l in mlines)
    for c in cases:
        if c.cid not in have: continue
        a, m = impl.get(c.cid), model.get(c.cid)
        bump("amgc:model-diff")
        if a != m:
            st["mismatches"] += 1
            sa, sb = a.split(" ; "), (m or "").split(" ; ")
            k = next((i for i in range(max(len(sa), len(sb))) if i >= len(sa) or i >= len(sb) or sa[i] != sb[i]), 0)
            what = c.script[k][0] if k < len(c.script) else "?"
            fails.append(fail(c, "correspondence amgc(%s,%s,b=%d) script step %d (%s): implementation vs Amg.v model at BlockS" % (c.variant, c.relax, c.b, k, what),
                              impl=sa[k] if k < len(sa) else None, model=sb[k] if k < len(sb) else None, segment=k, command=what))
    # 2. oracles on the implementation
    for c in cases:
        if c.cid not in levels: continue
        o = impl[c.cid]; lv = levels[c.cid]; b = c.b; Nn = c.n * b; m = c.meta
        segs = [parse_out_vec(s) for s in o.split(" ; ")[1:]]
        if any(len(v) != Nn for v in segs):
            fails.append(fail(c, "amgc driver: result vector of the wrong length", impl=o)); continue
        Bf, Bg, Bfg, Bf2, cyc = segs[0], segs[1], segs[2], segs[3], segs[4]
        def ofail(msg, got=None, exp=None): fails.append(fail(c, "C02 oracle on the implementation (block values): " + msg, impl=got, model=exp, oracle=dict(statement=msg)))
        st["oracle_checks"] += 1; bump("oracle:block-history")
        if Bf != Bf2: ofail("apply(f) differs between the 1st and the 4th application (history / initial x dependence)", str(Bf2), str(Bf))
        st["oracle_checks"] += 1; bump("oracle:block-linear")
        lin = [m["a"] * u + m["b"] * v for u, v in zip(Bf, Bg)]
        if lin != Bfg: ofail("B(a f + b g) != a B f + b B g (a, b base scalars)", str(Bfg), str(lin))
        f = c.script[1][1]; x0 = c.script[1][2]
        Ad = dense(c.brows, b, c.n)
        if len(lv) == 1 and lv[0][0] == "S" and c.cfg["pre_cycles"] >= 1:
            # one level, direct solver: apply(f) solves the block system (extracted Kernels.spmv at BlockS decides)
            oid = c.cid + ".cs"
            olines.append("%s amgc.o_coarse %d %s %s %s" % (oid, b, fmt_bcrs(c.n, c.n, c.brows), fmt_vec(f), fmt_vec(Bf)))
            owhat[oid] = (c, "single level with direct solver: A * apply(f) != f")
        if not (m["units"] and len(segs) >= 5 + Nn): continue
        B = [segs[5 + j] for j in range(Nn)]          # B[j] = B e_j (columns)
        def Bmul(v): return [sum(B[j][i] * v[j] for j in range(Nn)) for i in range(Nn)]
        st["oracle_checks"] += 1; bump("oracle:block-columns")
        if Bmul(f) != Bf: ofail("B assembled from the unit vectors does not reproduce apply(f)", str(Bf), str(Bmul(f)))
        if c.cfg["pre_cycles"] == 1:
            st["oracle_checks"] += 1; bump("oracle:block-cycle-affine")
            res = [u - v for u, v in zip(f, dmatvec(Ad, x0))]
            want = [u + v for u, v in zip(x0, Bmul(res))]
            if want != cyc: ofail("cycle(f, x0) != x0 + B (f - A x0) (pre_cycles = 1)", str(cyc), str(want))
        if m["sym"] and c.cfg["npre"] == c.cfg["npost"]:
            st["oracle_checks"] += 1; bump("oracle:block-symmetry")
            bad = next(((i, j) for i in range(Nn) for j in range(i) if B[j][i] != B[i][j]), None)
            if bad: ofail("the expanded B is not symmetric (entries %d,%d) although A_JI = A_IJ^T, R = P^T, npre = npost and the %s smoother is symmetric" % (bad[0], bad[1], c.relax))
            if pd_eligible(c, lv):
                bump("oracle:block-pd-eligible")
                for t in range(3):
                    rr = random.Random(zlib.crc32(("%s:%d" % (c.cid, t)).encode()))
                    gv = [F(rr.randint(-3, 3)) for _ in range(Nn)]
                    if all(v == 0 for v in gv): continue
                    st["oracle_checks"] += 1
                    Bg_ = Bmul(gv)
                    if not dot(Bg_, gv) > 0: ofail("<B g, g> <= 0 for g = %s" % gv)
                    Ae = dmatvec(Ad, gv); e2 = [u - v for u, v in zip(gv, Bmul(Ae))]
                    en0 = dot(Ae, gv); en1 = dot(dmatvec(Ad, e2), e2)
                    if not en1 < en0: ofail("energy norm does not decrease: <A Ee, Ee> = %s >= <A e, e> = %s" % (en1, en0))
    res = ctx["run_driver"](mexe, olines, timeout=tmo)
    for l in olines:
        oid = l.split(" ", 1)[0]
        st["oracle_checks"] += 1; bump("oracle:block-direct-solve")
        rr = res.get(oid)
        if rr is None or not rr.startswith("OK"):
            st["oracle_fail"] += 1
            c, what = owhat[oid]
            fails.append(fail(c, "C02 oracle on the implementation (block values): %s: %s" % (what, rr), impl=impl.get(c.cid), oracle=dict(op="amgc.o_coarse", result=rr, line=l[:2000])))
    return fails
