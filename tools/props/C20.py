"""C20 -- the C interface (0- and 1-based) gives the C++ results.

harness/drv_capi.cpp compiles /repo/lib/amgcl.cpp into the driver (AddressSanitizer build,
exactly-sized heap arrays) and compares, bit for bit in the double build,
  * amgcl_solver_create[_f] + amgcl_solver_solve[_f], amgcl_solver_solve_mtx[_f] (replacement
    matrix), amgcl_precond_create[_f] + amgcl_precond_apply, parameters through
    amgcl_params_seti/setf/sets/read_json or a NULL handle
against the C++ run-time interface with the same parameters (op `solve`, oracle EQ);
against the Coq model Capi.v:
  * the system matrix built from 0-/1-based arrays (`sysmat`, Capi.build_c / build_f),
  * the tree behind a params handle after a script of setters (`params`, Capi.capi_sets = Ptree.put_path),
  * handle life-cycle scripts (`life`, Capi.crun);
call HISTORIES (props/capi_hist.py, ops `hist` / `rhist`): scripted caller programs on one or several handles with the
caller's ptr/col/val/rhs/x buffers rewritten IN PLACE between calls (values, pattern at equal nnz, nnz, index base),
fresh buffers, interleaved live handles of different sizes, destroy + create (allocator address reuse), params handles
set twice / after create / destroyed before use.  The Coq model Capi2.run turns the program (with the real handle
values) into its contents trace; the C++ run-time interface replays that trace by value (persistent objects, and a
fresh object per call); every call of the history must agree bit for bit.
"""
import random, re
from fractions import Fraction as F
from vcheck import fmt_q, fmt_crs
from props.common import diff_run, account
from props import capi_hist

DRIVERS = ["capi"]
MODEL = "params"
EXTRA_FLAGS = {"capi": ["-fsanitize=address", "-fno-omit-frame-pointer"]}
TRUSTED_BASE = [
    "AddressSanitizer (g++ 12) as the detector of reads outside the caller's arrays and of use-after-destroy; manual "
    "poisoning (ASAN_POISON_MEMORY_REGION) of the unused tail of buffers that are reused in place; LeakSanitizer "
    "(__lsan_do_recoverable_leak_check after every history) as the detector of objects the C layer loses",
    "the recorder instance of the abstract C++ interface in ocaml/params/ops_capi.ml (objects / steps numbered in call order) "
    "and the interpreter `rhist` of the contents trace in harness/drv_capi.cpp",
    "extraction directive ExtrOcamlNativeString (Coq string -> OCaml string)",
    "boost::property_tree stream translators (int/float -> text) and JSON parser: values are canonical texts",
]
ASSUMPTIONS = [
    "bitwise comparison in the double build with OMP_NUM_THREADS=1",
    "amgcl_params_setf transports a float: a double-typed parameter receives the 9-digit decimal text of the float "
    "(identical on the C and the C++ side, which both put a float); cases use dyadic values",
    "amgcl_*_report only prints; not compared",
    "histories: the handle values given to the model are the address classes the implementation printed (so a handle "
    "value reused by the allocator after a destroy is the same number in the model); the model's buffer addresses are the "
    "buffer ids of the script (addresses are irrelevant in the model: C20_H1_outputs_depend_on_contents_only)",
    "histories: a create whose C++ constructor throws returns no handle: the exception kind is compared with the C++ "
    "constructor on the same contents, the later steps of the script on that slot are not executed; exceptions of "
    "apply/solve calls are compared by kind together with the bits x holds afterwards",
    "histories run twice: ASan defaults (freed blocks quarantined: use-after-destroy is detected) and quarantine off "
    "(freed handle addresses are handed out again at once)",
]
RULE = ("cases derived from VERIF_SEED by tools/props/C20.py; distinct = distinct case payload; non-trivial = the C "
        "interface returned a solve result / a matrix with a non-zero entry / a non-empty tree")

SOLVERS = ["cg", "bicgstab", "bicgstabl", "gmres", "lgmres", "fgmres", "idrs", "richardson"]
COARSE = ["ruge_stuben", "aggregation", "smoothed_aggregation", "smoothed_aggr_emin"]
RELAX = ["gauss_seidel", "ilu0", "iluk", "ilup", "ilut", "damped_jacobi", "spai0", "spai1", "chebyshev"]


def param_script(r, prec, pfx_only=False):
    """list of (kind, name, value) expressible through the C API"""
    pp = "" if prec else "precond."
    ops = [("i", pp + "coarse_enough", r.choice(["10", "20"]))]
    if r.random() < 0.8: ops.append(("s", pp + "coarsening.type", r.choice(COARSE)))
    if r.random() < 0.8: ops.append(("s", pp + "relax.type", r.choice(RELAX)))
    if r.random() < 0.5: ops.append(("i", pp + "npre", r.choice(["1", "2"])))
    if r.random() < 0.5: ops.append(("i", pp + "npost", r.choice(["1", "2"])))
    if r.random() < 0.3: ops.append(("i", pp + "ncycle", r.choice(["1", "2"])))
    if r.random() < 0.3: ops.append(("s", pp + "direct_coarse", r.choice(["true", "false"])))
    if r.random() < 0.4: ops.append(("f", pp + "coarsening.aggr.eps_strong", r.choice(["0.0625", "0.125", "0.25"])))
    if not prec:
        ops.append(("s", "solver.type", r.choice(SOLVERS)))
        if r.random() < 0.7: ops.append(("f", "solver.tol", r.choice(["0.0009765625", "0.0000152587890625", "0.00000095367431640625"])))
        if r.random() < 0.5: ops.append(("i", "solver.maxiter", r.choice(["3", "10", "50"])))
    if r.random() < 0.3:   # a later setter overrides an earlier one
        k = r.choice(ops); ops.append((k[0], k[1], k[2]))
    r.shuffle(ops)
    return ops


def cases(tier, seed):
    r = random.Random(seed * 65537 + 20)
    thorough = tier != "quick"
    out = []; k = [0]
    def add(op, payload):
        out.append("c%d %s %s" % (k[0], op, payload)); k[0] += 1
    # ---- solve: every variant
    N = 10 if not thorough else 60
    for variant in ["c0", "f1", "m0", "m1", "p0", "p1", "j0", "n0"]:
        for it in range(N if variant != "n0" else 2):
            kk = r.choice([5, 7, 8, 10])
            ops = [] if variant == "n0" else param_script(r, variant[0] == "p")
            if variant == "j0": ops = [("s", n, v) for _, n, v in ops]
            add("solve", " ".join([variant, str(kk), str(r.randint(1, 10 ** 6)), str(kk), str(r.randint(1, 10 ** 6)), str(len(ops))] +
                                  ["%s %s %s" % o for o in ops]))
    # ---- sysmat: diagonally dominant matrices with random symmetric patterns, both bases
    for it in range(40 if not thorough else 400):
        n = r.choice([1, 2, 3, 4, 6, 9])
        pat = set()
        for i in range(n):
            for j in range(i):
                if r.random() < 0.4: pat.add((i, j)); pat.add((j, i))
        rows = []
        for i in range(n):
            offs = sorted(j for (a, j) in pat if a == i)
            vals = {j: F(-r.randint(1, 8), r.choice([1, 2, 4])) for j in offs}
            row = [(j, vals[j]) for j in offs] + [(i, F(sum(-v for v in vals.values())) + F(r.randint(1, 8), 2))]
            r.shuffle(row)
            rows.append(row)
        add("sysmat", "%d %s" % (it % 2, fmt_crs(n, n, rows)))
    # ---- params: setter scripts (nested names, overrides, siblings)
    names = ["type", "solver.type", "solver.tol", "precond.relax.type", "precond.relax.damping", "precond.npre", "a.b.c", "a.b", "a"]
    for it in range(60 if not thorough else 600):
        ops = []
        for _ in range(r.randint(1, 7)):
            kind = r.choice("ifs")
            v = {"i": str(r.randint(-5, 40)), "f": r.choice(["0.25", "0.5", "1.5", "-0.125", "3"]), "s": r.choice(["cg", "ilu0", "true", "x"])}[kind]
            ops.append((kind, r.choice(names), v))
        add("params", " ".join([str(len(ops))] + ["%s %s %s" % o for o in ops]))
    # ---- life: disciplined create/use/destroy scripts with several live handles
    for it in range(12 if not thorough else 80):
        live = {}; ops = []; nxt = 0
        for _ in range(r.randint(2, 10)):
            c = r.random()
            if c < 0.45 or not live:
                kind = r.choice("pas"); live[nxt] = kind; ops.append("c %s %d" % (kind, nxt)); nxt += 1
            elif c < 0.75:
                s = r.choice(sorted(live)); ops.append("u %s %d" % (live[s], s))
            else:
                s = r.choice(sorted(live)); ops.append("d %s %d" % (live.pop(s), s))
        add("life", " ".join([str(len(ops))] + ops))
    # ---- hist: call histories (own ids: they carry tier and seed)
    out += capi_hist.cases(tier, seed)
    return out


def run(ctx, cases_override=None):
    lines = cases_override or cases(ctx["tier"], ctx["seed"])
    fails = []
    st = ctx["stats"]
    env = {"ASAN_OPTIONS": "detect_leaks=1:abort_on_error=0:exitcode=66", "OMP_NUM_THREADS": "1"}
    # model-compared ops
    ml = [l for l in lines if l.split(" ", 2)[1] in ("sysmat", "params", "life")]
    f, impl, model = diff_run(ctx, "capi", ml, env=env, shards=8, timeout=600,
                              nontrivial=lambda op, pin, o: bool(o) and not o.startswith(("EXC", "CRASH", "UB")) and re.search(r"[1-9]", o) is not None)
    for x in f:
        x["theorem"] = {"sysmat": "C20_A1: matrix read from 0-/1-based arrays (lib/amgcl.cpp create[_f]) = Capi.build_c / build_f",
                        "params": "C20_A3: params handle after seti/setf/sets = Capi.capi_sets (Ptree.put_path)",
                        "life": "C20_A2: handle life cycle = Capi.crun"}.get(x["op"], x["theorem"])
    fails += f
    # C API vs C++ run-time interface
    hl = [l for l in lines if l.split(" ", 2)[1] == "hist"]
    if hl:
        hf, info = capi_hist.run(ctx, hl, env)
        fails += hf
        ctx["log"].append(("hist: %(histories)d histories, %(calls)d calls compared, %(addr_reuse)d handle addresses reused, %(ctor_exc)d constructor exceptions" % info, 0))
    sl = [l for l in lines if l.split(" ", 2)[1] == "solve"]
    out = ctx["run_driver"](ctx["cpp"]["capi"], sl, env_extra=env, shards=12, timeout=600)
    account(ctx, sl, out, nontrivial=lambda op, pin, o: bool(o) and " it=" in o)
    for l in sl:
        cid = l.split(" ", 1)[0]
        if cid not in out: continue
        o = out[cid]; st["oracle_checks"] += 1
        # (a configuration that throws must throw the same exception kind through both interfaces)
        if not o.endswith("| EQ"):
            st["oracle_fail"] += 1; st["mismatches"] += 1
            fails.append(dict(kind="counterexample", case=l, impl=o, model="C interface and C++ run-time interface must agree bit for bit",
                              op="solve", size=len(l), theorem="C20: C handle API = C++ run-time interface (iterations, residual, solution bits), variant " + l.split()[2]))
    return fails
