"""C14 -- run-time configuration is equivalent to compile-time configuration.

pre_coq : tools/gen_params.py re-reads every params struct and every run-time wrapper of the
          CURRENT tree and regenerates coq/ParamsGen.v (C14-A2 is then re-decided by vm_compute).
run     : (i)   every instantiable params struct: import a tree with non-default values, export,
                compare key by key with the translator's view (python oracle) and byte for byte
                with the extracted Coq model (Ptree.import/export/unknowns on the regenerated tables);
          (ii)  run-time assembled solvers vs the compile-time typed ones, bit for bit;
          (iii) unknown keys reach the AMGCL_PARAM_UNKNOWN hook; invalid enumeration text raises;
          (iv)  every issue the decision procedure finds is demonstrated on the implementation.
"""
import json, os, random, re, subprocess, sys, hashlib
import gen_params
from props.common import diff_run, account

DRIVERS = ["params", "params_mpi", "rtstatic_a", "rtstatic_b", "rtstatic_c"]
MODEL = "params"
EXTRA_FLAGS = {"rtstatic_a": ["-DVQ_PART=1"], "rtstatic_b": ["-DVQ_PART=2"], "rtstatic_c": ["-DVQ_PART=3"]}
_STATE = {}

TRUSTED_BASE = [
    "tools/gen_params.py (translator: header text -> coq/ParamsGen.v); validated on every run against the compiler by the "
    "import/export round trip of every instantiable struct (default export paths = predicted export paths)",
    "tools/params_exceptions.json (reviewed pointer/array-valued keys, partial switches)",
    "extraction directive ExtrOcamlNativeString (Coq string -> OCaml string)",
    "boost::property_tree text<->number stream translators (values are compared as canonical texts)",
]
ASSUMPTIONS = [
    "structs needing CUDA/VexCL/HPX/MKL/PaStiX/ParMETIS/PT-Scotch headers are checked statically only (translator + C14-A2)",
    "field names are C identifiers (no '.'), so path + name concatenation is list append",
    "bitwise run-time vs compile-time comparison is made in the double build with OMP_NUM_THREADS=1",
]
RULE = ("cases derived from VERIF_SEED by tools/props/C14.py from the translator's field lists; distinct = distinct case "
        "payload; non-trivial = the implementation returned an exported tree / a solve result (not an exception)")

# ------------------------------------------------------------------ instantiations used by harness/drv_params.cpp
P = "params"
SA = "coarsening/smoothed_aggregation.hpp:smoothed_aggregation::params"
INST = {
    # name: (struct id, {child member: instance name | "@opaque"}, required keys)
    "NS":   ("coarsening/tentative_prolongation.hpp:nullspace_params", {}, {}),
    "PLAIN": ("coarsening/plain_aggregates.hpp:plain_aggregates::params", {}, {}),
    "PW":   ("coarsening/pointwise_aggregates.hpp:pointwise_aggregates::params", {}, {}),
    "AGG":  ("coarsening/aggregation.hpp:aggregation::params", {"aggr": "PW", "nullspace": "NS"}, {}),
    "SA":   (SA, {"aggr": "PW", "nullspace": "NS"}, {}),
    "EMIN": ("coarsening/smoothed_aggr_emin.hpp:smoothed_aggr_emin::params", {"aggr": "PW", "nullspace": "NS"}, {}),
    "RS":   ("coarsening/ruge_stuben.hpp:ruge_stuben::params", {}, {}),
    "DJ":   ("relaxation/damped_jacobi.hpp:damped_jacobi::params", {}, {}),
    "GS":   ("relaxation/gauss_seidel.hpp:gauss_seidel::params", {}, {}),
    "CHEB": ("relaxation/chebyshev.hpp:chebyshev::params", {}, {}),
    "ISOLVE": ("relaxation/detail/ilu_solve.hpp:ilu_solve::params#2", {}, {}),
    "ISOLVE_G": ("relaxation/detail/ilu_solve.hpp:ilu_solve::params", {}, {}),
    "ILU0": ("relaxation/ilu0.hpp:ilu0::params", {"solve": "ISOLVE"}, {}),
    "ILUK": ("relaxation/iluk.hpp:iluk::params", {"solve": "ISOLVE"}, {}),
    "ILUP": ("relaxation/ilup.hpp:ilup::params", {"solve": "ISOLVE"}, {}),
    "ILUT": ("relaxation/ilut.hpp:ilut::params", {"solve": "ISOLVE"}, {}),
    "CG":   ("solver/cg.hpp:cg::params", {}, {}),
    "BICG": ("solver/bicgstab.hpp:bicgstab::params", {}, {}),
    "BICGL": ("solver/bicgstabl.hpp:bicgstabl::params", {}, {}),
    "GMRES": ("solver/gmres.hpp:gmres::params", {}, {}),
    "FGMRES": ("solver/fgmres.hpp:fgmres::params", {}, {}),
    "LGMRES": ("solver/lgmres.hpp:lgmres::params", {}, {}),
    "IDRS": ("solver/idrs.hpp:idrs::params", {}, {}),
    "RICH": ("solver/richardson.hpp:richardson::params", {}, {}),
    "EMPTY": ("util.hpp:empty_params", {}, {}),
    "BCRS": ("backend/block_crs.hpp:block_crs::params", {}, {}),
    "AMG":  ("amg.hpp:amg::params", {"coarsening": "SA", "relax": "DJ"}, {}),
    "MS":   ("make_solver.hpp:make_solver::params", {"precond": "AMG", "solver": "BICG"}, {}),
    "MS2":  ("make_solver.hpp:make_solver::params", {"precond": "ILU0", "solver": "CG"}, {}),
    "DEFL": ("deflated_solver.hpp:deflated_solver::params", {"precond": "AMG", "solver": "CG"}, {}),
    "CPR":  ("preconditioner/cpr.hpp:cpr::params", {"pprecond": "AMG", "sprecond": "ILU0"}, {}),
    "CPRDRS": ("preconditioner/cpr_drs.hpp:cpr_drs::params", {"pprecond": "AMG", "sprecond": "ILU0"}, {}),
    "SCHUR": ("preconditioner/schur_pressure_correction.hpp:schur_pressure_correction::params",
              {"usolver": "MS", "psolver": "MS2"}, {"pmask_size": "4", "pmask_pattern": ">2"}),
}
# distributed components (harness/drv_params_mpi.cpp = drv_params.cpp compiled with mpicxx -DVQ_MPI_PARAMS)
INST_MPI = {
    "MPMIS": ("mpi/coarsening/pmis.hpp:pmis::params", {"nullspace": "NS"}, {}),
    "MAGG":  ("mpi/coarsening/aggregation.hpp:aggregation::params", {"aggr": "MPMIS"}, {}),
    "MSA":   ("mpi/coarsening/smoothed_aggregation.hpp:smoothed_aggregation::params", {"aggr": "MPMIS"}, {}),
    "MMERGE": ("mpi/partition/merge.hpp:merge::params", {}, {}),
    "MAMG":  ("mpi/amg.hpp:amg::params", {"coarsening": "MSA", "relax": "EMPTY", "direct": "EMPTY", "repart": "MMERGE"}, {}),
    "MCPR":  ("mpi/cpr.hpp:cpr::params", {"pprecond": "MAMG", "sprecond": "EMPTY"}, {}),
    "MMS":   ("mpi/make_solver.hpp:make_solver::params", {"precond": "MAMG", "solver": "CG"}, {}),
    "MSCHUR": ("mpi/schur_pressure_correction.hpp:schur_pressure_correction::params", {"usolver": "MMS", "psolver": "MMS"},
               {"pmask_size": "4", "pmask_pattern": ">2"}),
    # the constructor insists on def_vec (the driver supplies a callable)
    "MSDD":  ("mpi/subdomain_deflation.hpp:subdomain_deflation::params", {"local": "AMG", "isolver": "CG", "dsolver": "EMPTY"}, {}),
}
TOP = [k for k in INST if k != "MS2"]          # instances registered in the driver under their struct id
TOP_MPI = list(INST_MPI)
INST.update(INST_MPI)
GROUPS = [("params", TOP), ("params_mpi", TOP_MPI)]
NOGET_TAGS = {"deflated_solver.hpp:deflated_solver::params": "deflated", "relaxation/ilut.hpp:ilut::params": "ilut"}
# structs that cannot be instantiated here (external libraries); checked by translator + C14-A2 only
NOT_INSTANTIATED = {
    "backend/cuda.hpp:cuda::params": "needs CUDA/cuSPARSE",
    "backend/hpx.hpp:HPX::params": "needs HPX",
    "backend/mkl.hpp:mkl::params": "needs MKL",
    "backend/vexcl.hpp:vexcl_params": "needs VexCL/OpenCL",
    "relaxation/cusparse_ilu0.hpp:ilu0::params": "needs CUDA/cuSPARSE",
    "mpi/direct_solver/pastix.hpp:pastix::params": "needs PaStiX",
    "mpi/partition/parmetis.hpp:parmetis::params": "needs ParMETIS",
    "mpi/partition/ptscotch.hpp:ptscotch::params": "needs PT-Scotch",
}
MPI_STRUCTS_PREFIX = "mpi/"                    # instantiated by drv_params_mpi when mpicxx works (optional)


# ------------------------------------------------------------------ trees
class T:
    def __init__(self, data="", kids=None): self.data = data; self.kids = kids or []
    def tok(self): return self.data + "[" + ",".join(k + "=" + c.tok() for k, c in self.kids) + "]"
    def child(self, k):
        for kk, c in self.kids:
            if kk == k: return c
        return None
    def force(self, path):
        t = self
        for k in path:
            c = t.child(k)
            if c is None: c = T(); t.kids.append((k, c))
            t = c
        return t
    def leaves(self, pre=()):
        out = {}
        for k, c in self.kids:
            if c.kids: out.update(c.leaves(pre + (k,)))
            else: out.setdefault(pre + (k,), c.data)
        return out

def parse_tree(s):
    pos = [0]
    def tree():
        j = s.index("[", pos[0]); t = T(s[pos[0]:j]); pos[0] = j + 1
        if s[pos[0]] == "]": pos[0] += 1; return t
        while True:
            e = s.index("=", pos[0]); k = s[pos[0]:e]; pos[0] = e + 1
            t.kids.append((k, tree()))
            if s[pos[0]] == ",": pos[0] += 1; continue
            if s[pos[0]] == "]": pos[0] += 1; return t
            raise ValueError("tree syntax")
    return tree()


# ------------------------------------------------------------------ translator hook
def _noget(s):
    ex = dict((n, k) for n, k in s["eff_exports"])
    mism = any(n in ex and ex[n] != k for n, k in s["eff_imports"])
    return mism or bool(s["shadowed"])

def pre_coq(repo, verif, tier, seed):
    data, exc, known = gen_params.generate(repo, verif)
    _STATE.update(data=data, exc=exc, known=known)
    flags = []
    for s in data["structs"]:
        if s["id"] in NOGET_TAGS and _noget(s): flags.append("-DVQ_NOGET_%s=1" % NOGET_TAGS[s["id"]])
    EXTRA_FLAGS["params"] = flags
    EXTRA_FLAGS["params_mpi"] = flags + ["-DVQ_MPI_PARAMS"]
    _STATE["noget"] = set(s["id"] for s in data["structs"] if s["id"] in NOGET_TAGS and _noget(s))


def enum_names(data, ty):
    """enumerator texts of a field type such as preconditioner::side::type"""
    q = ty.replace("typename", "").replace(" ", "")
    for w in gen_params.wrappers(data):
        full = "::".join(["amgcl"] + w["enum_id"].split(":", 1)[1].split("::"))
        if full.endswith(q) or q.endswith(w["enum_id"].split(":", 1)[1]):
            return [txt for txt, _ in w["inp"]]
    return None


class Schema:
    """the translator's view of one instantiation: value paths, owners, schema token"""
    def __init__(self, data, inst):
        self.byid = {s["id"]: s for s in data["structs"]}
        self.data = data
        self.values = {}       # path -> (struct id, field dict)
        self.structs = {}      # path of struct node -> struct id
        self.export_paths = set()
        self.required = {}
        self.tree = T()
        self.root_id = INST[inst][0]
        self._walk(inst, (), self.tree, True)
    def _walk(self, inst, path, node, exported):
        sid, kids, req = INST[inst]
        s = self.byid.get(sid)
        self.structs[path] = sid
        for k, v in req.items(): self.required[path + (k,)] = v
        if s is None: return
        fields = {f["name"]: f for f in s["eff_fields"]}
        names = []
        for n, k in s["eff_imports"] + s["eff_exports"]:
            if n not in names: names.append(n)
        for f in s["eff_fields"]:
            if f["name"] not in names: names.append(f["name"])
        exp = dict(s["eff_exports"])
        for n in names:
            f = fields.get(n, dict(name=n, type="?", cls="other", scalar=True, kind=dict(s["eff_imports"] + s["eff_exports"]).get(n, "value")))
            kind = dict(s["eff_imports"]).get(n) or exp.get(n) or f["kind"]
            p = path + (n,)
            if kind == "child":
                ci = kids.get(n)
                c = T(); node.kids.append((n, c))
                if ci == "@opaque": c.data = "@opaque"
                elif ci is not None:
                    c.data = INST[ci][0]
                    self._walk(ci, p, c, exported and n in exp)
            else:
                self.values[p] = (sid, f)
                if exported and n in exp: self.export_paths.add(p)
                if f["cls"] == "enum":
                    en = enum_names(self.data, f["type"])
                    if en: node.kids.append((n, T("@enum:" + "|".join(en))))


INT_VALUES = ["2", "3", "5", "7", "11", "13"]
REAL_VALUES = ["0.625", "0.25", "1.5", "0.375", "0.75", "1.25"]

def pick_value(r, f, dflt, data, variant):
    cls = f["cls"]
    if not f["scalar"] or cls in ("nonscalar", "other", "child"): return None
    if cls == "bool":
        if variant == 0: return "false" if dflt == "true" else "true"
        return r.choice(["true", "false"])
    if cls == "int":
        c = [v for v in INT_VALUES if v != dflt]; return c[variant % len(c)] if variant < 2 else r.choice(c)
    if cls == "real":
        c = [v for v in REAL_VALUES if v != dflt]; return c[variant % len(c)] if variant < 2 else r.choice(c)
    if cls == "enum":
        en = enum_names(data, f["type"])
        if not en: return None
        c = [v for v in en if v != dflt] or en
        return c[variant % len(c)]
    if cls == "string": return "abc"
    return None


def build_cases(ctx, data, defaults, tops, pfx):
    r = random.Random(ctx["seed"] * 7919 + 14 + len(pfx))
    thorough = ctx["tier"] != "quick"
    lines = []; meta = {}
    exc_keys = set((e["struct"], e["key"]) for e in _STATE["exc"].get("keys", []))
    k = [0]
    def add(inst, sch, tree, setvals, extras, expect_exc=None, note=""):
        cid = "%s%d" % (pfx, k[0]); k[0] += 1
        sid = INST[inst][0]
        sch_tok = T(sch.tree.data, sch.tree.kids); sch_tok.data = "@noget" if sid in _STATE["noget"] else ""
        lines.append("%s rt %s %s %s %s" % (cid, sid, tree.tok(), defaults[inst].tok(), sch_tok.tok()))
        sv = dict(setvals)
        for rp, rv in sch.required.items():
            if rp in sch.values: sv.setdefault(rp, rv)
        meta[cid] = dict(inst=inst, sid=sid, setvals=sv, extras=list(extras), exc=expect_exc, note=note, sch=sch)
    for inst in tops:
        sch = Schema(data, inst)
        dl = defaults[inst].leaves()
        def base_tree():
            t = T()
            for p, v in sch.required.items(): t.force(p).data = v
            return t
        settable = [(p, sf) for p, sf in sorted(sch.values.items()) if (sf[0], sf[1]["name"]) not in exc_keys]
        # 1. nothing set
        add(inst, sch, base_tree(), {}, [], note="defaults")
        # 2. everything set, recursively (variants)
        for variant in range(2 if not thorough else 5):
            t = base_tree(); sv = {}
            for p, (sid, f) in settable:
                v = pick_value(r, f, dl.get(p, ""), data, variant)
                if v is None: continue
                t.force(p).data = v; sv[p] = v
            add(inst, sch, t, sv, [], note="all fields, variant %d" % variant)
        # 3. each own-level value member alone
        for p, (sid, f) in settable:
            if len(p) != 1 and not thorough: continue
            for variant in range(1 if not thorough else 3):
                v = pick_value(r, f, dl.get(p, ""), data, variant)
                if v is None: continue
                t = base_tree(); t.force(p).data = v
                add(inst, sch, t, {p: v}, [], note="single " + ".".join(p))
        # 4. unknown keys: at the root and inside a nested struct
        nodes = sorted(sch.structs.keys())
        for rep in range(2 if not thorough else 6):
            t = base_tree(); extras = []
            for p in ([()] if rep == 0 else [r.choice(nodes)]):
                key = r.choice(["bogus", "tolerance", "max_iter", "Relax", "typo_" + str(r.randint(0, 99))])
                t.force(p + (key,)).data = "1"; extras.append(p + (key,))
            sv = {}
            if rep % 2 and settable:
                p, (sid, f) = r.choice(settable); v = pick_value(r, f, dl.get(p, ""), data, 2)
                if v is not None: t.force(p).data = v; sv[p] = v
            add(inst, sch, t, sv, extras, note="unknown key")
        # 5. invalid enumeration text
        for p, (sid, f) in settable:
            if f["cls"] == "enum" and enum_names(data, f["type"]):
                t = base_tree(); t.force(p).data = r.choice(["up", "LEFT", "none", "rigth"])
                add(inst, sch, t, {}, [], expect_exc="invalid_argument", note="invalid enum " + ".".join(p))
                # a key that is present with an EMPTY value (`-p solver.type=`, "type": ""): the extraction of the word fails, which
                # ptree::get(key, default) would silently turn into the default unless operator>> raises (seeded C14-6)
                t = base_tree(); t.force(p).data = ""
                add(inst, sch, t, {}, [], expect_exc="invalid_argument", note="empty enum " + ".".join(p))
    return lines, meta


def meta_from_line(data, line, tops):
    """expectations of a stored rt case, re-derived from the line itself (replay)"""
    w = line.split(" ")
    if len(w) < 4 or w[1] != "rt": return None
    inst = next((i for i in tops if INST[i][0] == w[2]), None)
    if inst is None: return None
    sch = Schema(data, inst); tree = parse_tree(w[3])
    setvals = {}; extras = []; exc = None
    for pth, v in tree.leaves().items():
        if pth in sch.values:
            setvals[pth] = v
            f = sch.values[pth][1]
            if f["cls"] == "enum":
                en = enum_names(data, f["type"])
                if en and v not in en: exc = "invalid_argument"
        elif pth not in sch.required and pth[:-1] in sch.structs and not any(q[:len(pth)] == pth for q in sch.structs):
            extras.append(pth)
    return dict(inst=inst, sid=w[2], setvals=setvals, extras=extras, exc=exc, note="replay", sch=sch)


def probe_compile(ctx, code, tag):
    """compile a small probe against the current tree; returns (ok, first error line)"""
    d = os.path.join(ctx["verif"], ".cache", "cpp", "probe"); os.makedirs(d, exist_ok=True)
    src = os.path.join(d, "probe_%s_%d.cpp" % (tag, os.getpid()))
    open(src, "w").write(code)
    cmd = ["timeout", "300", "g++", "-std=c++11", "-fsyntax-only", "-Wno-cpp", "-Wno-deprecated-declarations", "-I" + ctx["repo"], src]
    p = subprocess.run(cmd, stdout=subprocess.PIPE, stderr=subprocess.STDOUT, text=True)
    try: os.remove(src)
    except OSError: pass
    err = [l for l in p.stdout.split("\n") if "error" in l]
    return p.returncode == 0, (err[0].replace(d + "/", "")[:300] if err else "")

PROBES = {
    "deflated_solver.hpp:deflated_solver::params": """
#include <amgcl/backend/builtin.hpp>
#include <amgcl/amg.hpp>
#include <amgcl/coarsening/smoothed_aggregation.hpp>
#include <amgcl/relaxation/spai0.hpp>
#include <amgcl/solver/cg.hpp>
#include <amgcl/deflated_solver.hpp>
typedef amgcl::backend::builtin<double> B;
typedef amgcl::deflated_solver<amgcl::amg<B, amgcl::coarsening::smoothed_aggregation, amgcl::relaxation::spai0>, amgcl::solver::cg<B> > S;
void f() { S::params prm; boost::property_tree::ptree p; prm.get(p, ""); }
""",
    "relaxation/ilut.hpp:ilut::params": """
#include <amgcl/backend/builtin.hpp>
#include <amgcl/relaxation/ilut.hpp>
typedef amgcl::backend::builtin<double> B;
void f() { amgcl::relaxation::ilut<B>::params prm; boost::property_tree::ptree p; prm.get(p, ""); }
""",
}


def static_excerpt(repo, data, sid):
    for s in data["structs"]:
        if s["id"] == sid:
            try:
                src = open(os.path.join(repo, s["file"])).read().split("\n")
                return "%s:%d: %s" % (s["file"], s["line"], " ".join(l.strip() for l in src[s["line"] - 1:s["line"] + 6])[:400])
            except OSError: pass
    return sid


def run(ctx, cases_override=None):
    fails = []
    data = _STATE.get("data") or gen_params.parse(ctx["repo"])
    if "exc" not in _STATE:
        _STATE["exc"] = json.load(open(os.path.join(ctx["verif"], "tools", "params_exceptions.json")))
        _STATE["noget"] = set(s["id"] for s in data["structs"] if s["id"] in NOGET_TAGS and _noget(s))
    st = ctx["stats"]
    byid = {s["id"]: s for s in data["structs"]}
    exc_keys = set((e["struct"], e["key"]) for e in _STATE["exc"].get("keys", []))

    # ---- registered ids vs translator's structs
    reg_ids = set()
    for drv, tops in GROUPS:
        out = ctx["run_driver"](ctx["cpp"][drv], ["i0 ids"], shards=1)
        if drv == "params" and not cases_override:
            # defaults that depend on the VALUE TYPE (block values): default constructor vs property-tree constructor on an empty tree
            bo = ctx["run_driver"](ctx["cpp"][drv], ["b0 blockdefaults"], shards=1).get("b0")
            st["oracle_checks"] += 1
            if bo != "OK":
                st["oracle_fail"] += 1
                fails.append(dict(kind="counterexample", case="b0 blockdefaults", impl=bo, model="OK", op="blockdefaults", size=16,
                                  oracle=dict(statement="params() == params(empty ptree) for builtin<static_matrix<double,2,2>>", outcome=bo),
                                  theorem="C14: a missing key leaves the default of the default constructor -- also for block value types, whose defaults differ from the scalar ones"))
        reg_ids |= set((out.get("i0") or "").split())
    for s in data["structs"]:
        if s["id"] not in reg_ids and s["id"] not in NOT_INSTANTIATED:
            fails.append(dict(kind="broken-correspondence", case="struct %s (%s:%d)" % (s["id"], s["file"], s["line"]), has_input=False,
                              impl="not registered in harness/drv_params.cpp", model=None, op="ids", size=10 ** 6,
                              theorem="harness registry: a params struct of the tree is neither instantiated by drv_params nor listed as not instantiable"))
    for inst in INST:
        if INST[inst][0] not in byid:
            fails.append(dict(kind="broken-correspondence", case="struct %s" % INST[inst][0], has_input=False, impl=None, model="translator did not find it",
                              op="ids", size=10 ** 6, theorem="translator vs compiler: a struct instantiated by the harness is not found by tools/gen_params.py"))

    all_defaults = {}
    for gi, (drv, tops) in enumerate(GROUPS):
        exe = ctx["cpp"][drv]
        # ---- defaults (implementation) and translator-vs-compiler validation
        dl = ["d%d defaults %s" % (i, INST[inst][0]) for i, inst in enumerate(tops)]
        dout = ctx["run_driver"](exe, dl, shards=4)
        defaults = {}
        for i, inst in enumerate(tops):
            o = dout.get("d%d" % i) or ""
            if o == "NOGET" or not o.startswith("["):
                defaults[inst] = T()
                if o != "NOGET":
                    fails.append(dict(kind="counterexample", case=dl[i], impl=o, model=None, op="defaults", size=len(dl[i]),
                                      theorem="default-constructed params struct can be exported"))
                continue
            defaults[inst] = parse_tree(o)
            sch = Schema(data, inst)
            got = set(defaults[inst].leaves().keys())
            if got != sch.export_paths:
                miss = sorted(".".join(p) for p in sch.export_paths - got); extra = sorted(".".join(p) for p in got - sch.export_paths)
                fails.append(dict(kind="broken-correspondence", case=dl[i], impl="exported by the compiled get(): extra %s" % extra,
                                  model="predicted by tools/gen_params.py: missing %s" % miss, op="defaults", size=len(dl[i]),
                                  sig=dict(struct=INST[inst][0], field="(export paths)"),
                                  theorem="translator validated against the compiler: export paths of a default-constructed struct"))
        st["oracle_checks"] += len(tops)
        all_defaults.update(defaults)

        # ---- round trips: implementation vs extracted Coq model, plus the python oracle on the implementation
        if cases_override:
            # replay: route the stored case lines to the driver that owns the struct
            def owner(l):
                w = l.split(" ", 3)
                return 1 if (len(w) > 2 and w[1] == "rt" and w[2].startswith(MPI_STRUCTS_PREFIX)) else 0
            lines = [l for l in cases_override if l.split(" ", 2)[1:2] in (["rt"], ["ptree"]) and owner(l) == gi]
            # the stored defaults/schema tokens are part of the line; the python oracle is re-derived for
            # the struct's own instance when the line was generated by build_cases (same id scheme)
            meta = {}
            for l in lines:
                m = meta_from_line(data, l, tops)
                if m: meta[l.split(" ", 1)[0]] = m
        else:
            lines, meta = build_cases(ctx, data, defaults, tops, "pm" if gi else "ps")
            if gi == 0: lines += ptree_cases(ctx)
        f, impl, model = diff_run(ctx, drv, lines, shards=8, timeout=300,
                                  nontrivial=lambda op, pin, o: bool(o) and not o.startswith(("EXC", "CRASH", "NOT")))
        for x in f:
            x["theorem"] = "correspondence drv_%s (%s) vs Ptree.v on the regenerated tables (import/export/unknowns)" % (drv, x["op"])
            m = meta.get(x["case"].split(" ", 1)[0])
            if m: x["sig"] = locate(m, x["impl"], x["model"], defaults)
        fails += f
        for l in lines:
            cid = l.split(" ", 1)[0]; m = meta.get(cid)
            if not m: continue
            st["oracle_checks"] += 1
            bad = oracle(m, impl.get(cid), defaults[m["inst"]])
            if bad:
                st["oracle_fail"] += 1
                what, sig = bad
                fails.append(dict(kind="counterexample", case=l, impl=impl.get(cid), model=what, op="rt", size=len(l), sig=sig,
                                  theorem="C14: import followed by export returns every value parameter that was set, defaults elsewhere; "
                                          "exactly the unknown keys reach AMGCL_PARAM_UNKNOWN; invalid enumeration text raises",
                                  oracle=dict(statement=what, struct=sig.get("struct"), field=sig.get("field"))))

    # ---- issues found by the decision procedure (extracted from Coq) on the regenerated tables
    iss = ctx["run_driver"](ctx["model"], ["q0 issues"], shards=1).get("q0", "")
    mm = re.match(r"NEW:(.*) KNOWN:(.*)$", iss)
    new = [tuple(x.split("|")) for x in mm.group(1).split(";") if x] if mm else []
    knw = [tuple(x.split("|")) for x in mm.group(2).split(";") if x] if mm else []
    demonstrated = set((f.get("sig") or {}).get("struct") for f in fails)
    def demonstrate(a, b, why):
        """reproduce an issue of the decision procedure on the implementation; True when a concrete case was added"""
        if a in PROBES and why in ("import-export-kind-mismatch", "exported-member-shadowed-by-get-argument"):
            ok, err = probe_compile(ctx, PROBES[a], NOGET_TAGS.get(a, "x"))
            st["oracle_checks"] += 1
            if ok: return False
            fails.append(dict(kind="counterexample", case="compile probe: %s::get(ptree&, \"\") on a default-constructed struct" % a,
                              impl=err, model=why, op="probe", size=1, sig=dict(struct=a, field=b),
                              theorem="C14: every parameter is written back by the parameter export"))
            return True
        if why == "accepted-by-check_params-but-never-read": return demo_accepted(ctx, a, b, fails, why)
        if why == "default-constructor-leaves-member-uninitialised": return demo_uninit(ctx, a, b, fails, why)
        return False
    seen = set()
    for a, b, why in new:
        if (a, b) in seen: continue
        if a in demonstrated or demonstrate(a, b, why): seen.add((a, b)); continue
        fails.append(dict(kind="broken-theorem", case="%s field/enumerator %s: %s" % (a, b, why), has_input=False, impl=None, model=why,
                          op="issues", size=10 ** 6, sig=dict(struct=a, field=b, why=why),
                          theorem="C14_A2 (decision procedure on the regenerated tables): %s %s %s" % (a, b, why)))
    # known findings: reproduce each on the implementation (static excerpt when it cannot be built here)
    for a, b, why in knw:
        if (a, b) in seen: continue
        seen.add((a, b))
        if not demonstrate(a, b, why):
            fails.append(dict(kind="counterexample", case="static: " + static_excerpt(ctx["repo"], data, a), impl=why, model=None, op="static",
                              size=1, sig=dict(struct=a, field=b), theorem="C14_A2 " + why))

    # ---- (ii) run-time vs compile-time, bit for bit
    fails += rtstatic(ctx, cases_override)
    return fails


def demo_accepted(ctx, sid, key, fails, why):
    """a key listed in check_params that no member reads: set it, observe that it neither reaches the
    unknown hook nor the export"""
    for drv, tops in GROUPS:
        for inst in tops:
            if INST[inst][0] != sid: continue
            t = T()
            for k, v in INST[inst][2].items(): t.force((k,)).data = v
            t.force((key,)).data = "5"
            line = "x0 rt %s %s" % (sid, t.tok())
            o = ctx["run_driver"](ctx["cpp"][drv], [line], shards=1).get("x0") or ""
            ctx["stats"]["oracle_checks"] += 1
            mm = re.match(r"T:(\S+) U:\[(.*)\]$", o)
            if mm and key not in mm.group(2).split() and (mm.group(1) == "NOGET" or (key,) not in parse_tree(mm.group(1)).leaves()):
                fails.append(dict(kind="counterexample", case=line, impl=o, op="rt", size=len(line), sig=dict(struct=sid, field=key),
                                  model="key %s is neither handed to AMGCL_PARAM_UNKNOWN nor imported/exported: silently dropped" % key,
                                  theorem="C14: a key that no component understands is reported through the unknown-parameter hook"))
                return True
    return False


def demo_uninit(ctx, sid, key, fails, why):
    """a builtin-typed member the default constructor does not initialise: import a tree without the key
    under valgrind and show the read of the indeterminate value (plus the value that was exported)"""
    import shutil
    if not shutil.which("valgrind"): return False
    for drv, tops in GROUPS:
        for inst in tops:
            if INST[inst][0] != sid: continue
            t = T()
            for k, v in INST[inst][2].items():
                if k != key: t.force((k,)).data = v
            line = "x0 rt %s %s" % (sid, t.tok())
            p = subprocess.run(["timeout", "300", "valgrind", "-q", ctx["cpp"][drv]], input=line + "\n", stdout=subprocess.PIPE,
                               stderr=subprocess.PIPE, text=True, env=dict(os.environ, OMP_NUM_THREADS="1"))
            ctx["stats"]["oracle_checks"] += 1
            vg = [l for l in p.stderr.split("\n") if "uninitialised" in l]
            got = re.search(r"\b%s=([^\[]*)\[" % re.escape(key), p.stdout)
            if vg:
                fails.append(dict(kind="counterexample", case=line, op="rt", size=len(line), sig=dict(struct=sid, field=key),
                                  impl="valgrind: %s; exported %s=%s" % (vg[0].split("==")[-1].strip(), key, got.group(1) if got else "?"),
                                  model="a tree without the key must import the documented default: " + why,
                                  theorem="C14: absent value parameters take their defaults (params().member is initialised)"))
                return True
    return False


def oracle(m, out, dflt):
    """python oracle on the implementation output of one rt case; returns (what, signature) or None"""
    sch = m["sch"]
    if out is None: return ("no output", dict(struct=m["sid"], field="?"))
    if m["exc"]:
        if out != "EXC " + m["exc"]: return ("expected exception %s" % m["exc"], dict(struct=m["sid"], field="(enum)"))
        return None
    mm = re.match(r"T:(\S+) U:\[(.*)\]$", out)
    if not mm: return ("unexpected output", dict(struct=m["sid"], field="?"))
    unk = mm.group(2).split()
    exp_unk = sorted(p[-1] for p in m["extras"])
    if sorted(set(unk)) != sorted(set(exp_unk)):
        bad = sorted(set(unk) ^ set(exp_unk))[0]
        owner = m["sid"]
        for p, (sid, f) in sch.values.items():
            if p[-1] == bad: owner = sid
        for p in m["extras"]:
            if p[-1] == bad: owner = sch.structs.get(p[:-1], m["sid"])
        return ("keys handed to AMGCL_PARAM_UNKNOWN are %s, expected %s" % (unk, exp_unk), dict(struct=owner, field=bad))
    if mm.group(1) == "NOGET": return None
    got = parse_tree(mm.group(1)).leaves()
    dl = dflt.leaves()
    for p in sorted(set(got) | set(dl) | set(q for q in m["setvals"] if q in sch.export_paths)):
        want = m["setvals"].get(p, dl.get(p))
        if got.get(p) != want:
            sid, f = sch.values.get(p, (m["sid"], dict(name=p[-1])))
            return ("%s: set %s, default %s, exported %s" % (".".join(p), m["setvals"].get(p), dl.get(p), got.get(p)),
                    dict(struct=sid, field=f["name"]))
    for p, v in m["setvals"].items():
        if p not in got:
            sid, f = sch.values.get(p, (m["sid"], dict(name=p[-1])))
            if (sid, f["name"]) in set((e["struct"], e["key"]) for e in _STATE["exc"].get("keys", [])): continue
            return ("%s: set to %s but not exported" % (".".join(p), v), dict(struct=sid, field=f["name"]))
    return None


def locate(m, impl, model, defaults):
    return dict(struct=m["sid"], field="(model diff)")


def classify(fail):
    return fail.get("sig") or {}


# ------------------------------------------------------------------ raw ptree operations (validates Ptree.v)
def ptree_cases(ctx):
    r = random.Random(ctx["seed"] * 31 + 5)
    N = 150 if ctx["tier"] == "quick" else 1500
    keys = ["a", "b", "c", "type", "solver"]
    def rtree(d):
        t = T(r.choice(["", "", "1", "x"]))
        if d > 0:
            for _ in range(r.randint(0, 3)): t.kids.append((r.choice(keys), rtree(d - 1)))
        return t
    out = []
    for i in range(N):
        t = rtree(3)
        ops = []
        for _ in range(r.randint(1, 6)):
            path = ".".join(r.choice(keys) for _ in range(r.randint(1, 3)))
            o = r.choice(["put", "put", "add_child", "get", "get_child", "count", "erase"])
            if o == "put": ops += ["put", path, r.choice(["1", "0.5", "cg", "true"])]
            elif o == "add_child": ops += ["add_child", path, rtree(1).tok()]
            elif o == "get": ops += ["get", path, "dflt"]
            elif o == "get_child": ops += ["get_child", path.split(".")[0]]
            elif o == "count": ops += ["count", path.split(".")[0]]
            else: ops += ["erase", path.split(".")[0]]
        n = sum(1 for x in ops if x in ("put", "add_child", "get", "get_child", "count", "erase"))
        # count the ops exactly (values never collide with op names)
        out.append("t%d ptree %s %d %s" % (i, t.tok(), n, " ".join(ops)))
    return out


# ------------------------------------------------------------------ (ii) run-time vs compile-time
POOL = {
    "amg": dict(npre=["1", "2"], npost=["1", "2"], ncycle=["1", "2"], pre_cycles=["1", "2"], coarse_enough=["10", "20"],
                direct_coarse=["true", "false"], max_levels=["2", "3", "10"]),
    "coarsening": {
        "ruge_stuben": dict(eps_strong=["0.25", "0.5"], do_trunc=["true", "false"], eps_trunc=["0.125", "0.25"]),
        "aggregation": {"over_interp": ["1.5", "2"], "aggr.eps_strong": ["0.0625", "0.125"]},
        "smoothed_aggregation": {"relax": ["0.75", "1"], "estimate_spectral_radius": ["true", "false"], "power_iters": ["0", "3"],
                                 "aggr.eps_strong": ["0.0625", "0.125"]},
        "smoothed_aggr_emin": {"aggr.eps_strong": ["0.0625", "0.125"]},
    },
    "relax": {
        "gauss_seidel": dict(serial=["true", "false"]), "ilu0": dict(damping=["0.75", "1"]), "iluk": dict(k=["1", "2"], damping=["0.75", "1"]),
        "ilup": dict(k=["1", "2"]), "ilut": dict(p=["2", "3"], tau=["0.0625", "0.015625"]), "damped_jacobi": dict(damping=["0.5", "0.75"]),
        "spai0": {}, "spai1": {}, "chebyshev": dict(degree=["2", "3"], power_iters=["0", "4"], scale=["true", "false"]),
    },
    "solver": {
        "cg": {}, "bicgstab": dict(pside=["left", "right"]), "bicgstabl": dict(L=["2", "3"], pside=["left", "right"]),
        "gmres": dict(M=["5", "10"], pside=["left", "right"]), "lgmres": dict(M=["5", "10"], K=["2", "3"], pside=["left", "right"]),
        "fgmres": dict(M=["5", "10"]), "idrs": dict(s=["2", "4"], smoothing=["true", "false"]), "richardson": dict(damping=["0.75", "1"]),
        "preonly": {},
    },
    "solver_common": dict(tol=["1e-06", "1e-09"], maxiter=["4", "25", "100"]),
}

def rt_tree(r, key, extra=None, bad=None):
    """run-time tree for a static configuration key of drv_rtstatic: class/coarsening/relax/solver"""
    def put_pool(node, pool, prob=0.6):
        for k, vs in pool.items():
            if r.random() < prob: node.force(tuple(k.split("."))).data = r.choice(vs)
    t = T()
    def fill_amg(node, c, rl):
        node.force(("class",)).data = "amg"
        node.force(("coarsening", "type")).data = c; put_pool(node.force(("coarsening",)), POOL["coarsening"][c])
        node.force(("relax", "type")).data = rl; put_pool(node.force(("relax",)), POOL["relax"][rl])
        put_pool(node, POOL["amg"]); node.force(("coarse_enough",)).data = r.choice(POOL["amg"]["coarse_enough"])
    def fill_solver(node, sv):
        node.force(("type",)).data = sv
        if sv != "preonly": put_pool(node, POOL["solver_common"])
        put_pool(node, POOL["solver"][sv])
    if key.startswith("nested:"):
        inner, outer = key[len("nested:"):].split("///")
        cls, c, rl, sv = inner.split("/")
        pn = t.force(("precond",)); pn.force(("class",)).data = "nested"
        fill_amg(pn.force(("precond",)), c, rl); fill_solver(pn.force(("solver",)), sv)
        pn.force(("solver", "maxiter")).data = r.choice(["1", "2", "3"])
        fill_solver(t.force(("solver",)), outer)
    else:
        cls, c, rl, sv = key.split("/")
        pn = t.force(("precond",))
        if cls == "amg": fill_amg(pn, c, rl)
        elif cls == "relaxation":
            pn.force(("class",)).data = "relaxation"; pn.force(("type",)).data = rl; put_pool(pn, POOL["relax"][rl])
        else: pn.force(("class",)).data = cls
        fill_solver(t.force(("solver",)), sv)
    if extra: t.force(extra).data = "1"
    if bad: t.force(bad[0]).data = bad[1]
    return t


def rtstatic(ctx, cases_override=None):
    r = random.Random(ctx["seed"] * 104729 + 3)
    thorough = ctx["tier"] != "quick"
    st = ctx["stats"]; fails = []
    for part in ("rtstatic_a", "rtstatic_b", "rtstatic_c"):
        exe = ctx["cpp"][part]
        keys = (ctx["run_driver"](exe, ["k0 keys"], shards=1).get("k0") or "").split()
        lines = []; expect = {}
        n = [0]
        def add(key, tree, kind, extra=None):
            cid = "%s%d" % (part[-1], n[0]); n[0] += 1
            lines.append("%s cmp %d %d %s" % (cid, r.choice([7, 9, 12]), r.randint(1, 10 ** 6), tree.tok()))
            expect[cid] = (kind, key, extra)
        for key in keys:
            for rep in range(1 if not thorough else 4):
                add(key, rt_tree(r, key), "eq")
        # unknown keys through the run-time interface: reported by the component that owns the subtree
        for key in r.sample(keys, min(len(keys), 3 if not thorough else 8)):
            cls = key.split("/")[0]
            where = r.choice([("solver",), ("precond",)] + ([("precond", "relax"), ("precond", "coarsening")] if cls == "amg" else []))
            # (class = dummy included: its empty params are the only place where keys below a dummy node are checked; seeded C14-7)
            k = r.choice(["bogus", "tolerance", "dampin"])
            add(key, rt_tree(r, key, extra=where + (k,)), "unknown", k)
        # stray keys next to class = dummy (e.g. left behind when an AMG configuration is switched to dummy), always present
        for key in [k for k in keys if k.split("/")[0] == "dummy"][:2]:
            k = r.choice(["coarse_enough", "relax", "bogus"])
            add(key, rt_tree(r, key, extra=("precond", k)), "unknown", k)
        # invalid enumeration text in every dispatch slot
        for key in r.sample(keys, min(len(keys), 2 if not thorough else 6)):
            cls = key.split("/")[0]
            slots = [("solver", "type"), ("precond", "class")]
            if cls == "amg": slots += [("precond", "coarsening", "type"), ("precond", "relax", "type")]
            if cls == "relaxation": slots += [("precond", "type")]
            for sl in slots:
                add(key, rt_tree(r, key, bad=(sl, r.choice(["cgs", "amgx", "jacobi", "AMG", "Smoothed_Aggregation"]))), "badenum")
                add(key, rt_tree(r, key, bad=(sl, "")), "badenum")        # present but empty value
        # (a dropped import leaves a member uninitialised: sweep counts of 2^31 must not stall the check)
        if cases_override is not None:
            # replay: only the stored lines of this part (ids start with the part letter), same expectations
            keep = set(l for l in cases_override if l.split(" ", 2)[1:2] == ["cmp"] and l[0] == part[-1])
            lines = [l for l in lines if l in keep]
            for l in keep:
                if l not in lines:       # a line from another seed: bitwise equality is still required
                    lines.append(l); expect[l.split(" ", 1)[0]] = ("replay", "?", None)
            if not lines: continue
        out = ctx["run_driver"](exe, lines, shards=12, timeout=(120 if not thorough else 600))
        account(ctx, lines, out, nontrivial=lambda op, pin, o: bool(o) and " it=" in o)
        for l in lines:
            cid = l.split(" ", 1)[0]; kind, key, extra = expect[cid]
            if cid not in out: continue      # the driver died / timed out earlier in this shard (that case is reported as CRASH)
            o = out.get(cid) or ""
            st["oracle_checks"] += 1
            bad = None
            if kind == "replay":
                if o.startswith("RT EXC invalid_argument") or (o.endswith("| EQ") and " it=" in o): continue
                bad = "replayed case still differs"
            elif kind == "badenum":
                if not o.startswith("RT EXC invalid_argument"): bad = "invalid enumeration text must raise std::invalid_argument"
            else:
                if not o.endswith("| EQ"): bad = "run-time and compile-time solvers differ (iterations / residual / solution bits)"
                elif " it=" not in o: pass       # the configuration throws the same exception kind through both interfaces
                elif kind == "unknown" and [set(x.split()) for x in re.findall(r"U=\[(.*?)\]", o)] != [{extra}, {extra}]:
                    # (a struct deriving from another params struct checks the tree twice: the key may be listed twice)
                    bad = "unknown key %s not handed to AMGCL_PARAM_UNKNOWN" % extra
                elif kind == "eq" and re.findall(r"U=\[(.*?)\]", o) != ["", ""]: bad = "a valid key was reported as unknown"
            if bad:
                st["oracle_fail"] += 1; st["mismatches"] += 1
                fails.append(dict(kind="counterexample", case=l, impl=o, model=bad, op="cmp", size=len(l), sig=dict(config=key, what=kind),
                                  theorem="C14_A3 + tie (ii): run-time dispatch = the compile-time component with the same parameters, bit for bit",
                                  driver=part))
    return fails
