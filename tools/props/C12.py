"""C12 -- distributed solve is truthful and rank-consistent for any rank count.

drv_mpi_solve runs amgcl::mpi::make_solver<P, runtime solver> under mpirun (1..4 ranks quick,
1..8 thorough; every mpirun under timeout -- a hang is a failure with the case as replay) with
P = mpi::amg<builtin<double>, recording<runtime coarsening>, runtime relaxation, skyline_lu, merge>
or mpi::relaxation::as_preconditioner<runtime relaxation>, for every distributed coarsening x
relaxation x solver choice that builds offline, with and without the merge repartitioner, on
SPD M-matrices with dyadic entries, random contiguous partitions incl. empty ranks.

Every rank reports what it saw: (iters, residual) for two consecutive solves, its slice of x, and
its strips of (A, P, R, A_c) of every level (recorded by the coarsening wrapper).  Checks:
  rank consistency   all ranks report bitwise identical (iters, residual), both solves;
  truthfulness       the extracted Coq spec recomputes the true residual ||f - A x|| / ||f||
                     EXACTLY from the printed doubles and compares with the reported one (tested
                     tolerance: the reported value is a floating-point recurrence);
  convergence        on these SPD M-matrices the solve reaches the tolerance (tested);
  hierarchy          R = P^T exactly; aggregation: P is a partition (no empty aggregate, <= 1 entry
                     of value 1 per row) and A_c = (1/over_interp) R A P EXACTLY; smoothed
                     aggregation: A_c = R A P up to rounding; next level's A = this level's A_c
                     (also across the merge repartitioning);
  direct solver      mpi::direct::skyline_lu returns the solution of the gathered system (exactly
                     recomputed residual <= tolerance) on every rank layout, twice.
  PMIS model         op `pmis` with cols = 0, block_size = 1 is also compared EXACTLY with the extracted Coq model of the
                     distributed aggregation (Pmis.v, op m.pmis): aggregate column of every unknown, number of aggregates of
                     every rank, strength pattern -- for all graphs on n <= 4 unknowns x all contiguous partitions on 1..4
                     ranks, all non-symmetric patterns on n <= 3, random graphs and weighted matrices.
  near-null space    op `pmis` runs amgcl::mpi::coarsening::pmis<Backend> itself (aggregation + tentative
                     prolongation) and `solve` with ns.cols/ns.B runs the whole hierarchy with
                     coarsening.aggr.nullspace.cols in {1,2,3} (B = [1, x + 3/8 y, y - 3/16 x] on grids, block_size 1
                     and 2) on 2..8 ranks with thin / uneven strips (one grid line per rank, empty ranks), so that an
                     aggregate owner has members from >= 2 other ranks.  Checked on the gathered operators by the
                     extracted Coq specification (PmisSpec.v): P_tent B_coarse = B on every aggregated row (also the
                     rows whose aggregate lives on another rank), orthonormal columns of P_tent, global partition into
                     whole non-empty aggregates, unknown left out iff no strong connection, A_c = scale R A P, the
                     coarse near-null space of level l is the near-null space level l+1 starts from and is distributed
                     like the rows of that level.
  block values       op `bsolve` runs the same make_solver<mpi::amg<...>, runtime solver> at builtin<static_matrix<double,2,2>>
                     (rhs entries static_matrix<double,2,1>) on block-SPD systems whose 2x2 blocks do NOT commute, 1..4 ranks,
                     smoothed_aggregation / aggregation x {spai0, damped_jacobi, ilu0} x {cg, bicgstab, gmres}, merge on/off.
                     Oracles on the gathered BLOCK operators expanded to scalar matrices: rank consistency, truthfulness,
                     convergence, R = P^T (block adjoint), A_c = scale R A P (exact for aggregation, to rounding for smoothed
                     aggregation -- this is where the operand order inside mpi::product shows), next level's A = A_c,
                     finest A = the system matrix, aggregation: P_tent consists of identity blocks, one per aggregated block row.
  smoothed aggr.     ops `sa` / `bsa` (tools/props/c12_sa.py) run amgcl::mpi::coarsening::smoothed_aggregation<Backend> itself (scalar and
                     static_matrix<double,2,2> values): one coarsening object, transfer_operators called 1..3 times (eps_strong halved
                     inside every call), pmis<Backend> run by the driver on a copy of the parameters before every call (P_tent, strength
                     pattern).  Compared with the extracted Coq model DistSa.v (op m.dsa: strength with exchanged ghost diagonals, PMIS
                     model, filtered matrix rank by rank with the weak entries of the local AND the remote part lumped, dia_f * A.val
                     from the left, dist_product, dist_transpose): aggregates, strength pattern, P_tent exactly; P and R EXACTLY where
                     the double arithmetic of the call is exact (filtered diagonals +-2^k / upper triangular blocks with +-2^k on the
                     diagonal, omega = 1/2, 1, 1/4 -- generated on purpose), else to 2^-40 relative.  omega: the model's formula
                     (relax * 2/3, relax * (4/3) / distributed Gershgorin) must agree with the double value to 2^-49 relative.
                     `solve` / `bsolve` with smoothed aggregation: the recording wrapper also logs P_tent (T) and the strength pattern (S)
                     of every level; oracle o.saform: P = (I - omega Df^-1 A_f) P_tent on the gathered operators of EVERY level
                     (block products in the order Df^-1 * A, 1e-9), strength pattern of level l = the test with eps_strong * 0.5^l.
  subdomain deflation  op `sdd` of drv_mpi_sdd (tools/props/c12_sdd.py): amgcl::mpi::subdomain_deflation with constant / linear deflation vectors,
                     oracle level: rank consistency, exact true residual of the post-processed assembled solution vs the reported one, convergence.
  smoothers          ops `relax` / `brelax` (tools/props/c12_relax.py): amgcl::runtime::mpi::relaxation::wrapper<Backend> itself, all 9 types, built
                     through the property tree on the distributed matrix, apply_pre / apply_post / apply compared with the extracted model
                     DistRelax.v (op m.drelax) exactly where the model run is binary64-exact, else to 2^-40; thin partitions.
"""
import random, re
from fractions import Fraction as F
from vcheck import fmt_q, fmt_vec, fmt_ivec, fmt_crs, parse_out_crs, parse_out_vec
import gen
from props.common import account, oracle_run
from props.mpi_common import run_mpi
from props import c12_sa
from props import c12_relax
from props import c12_sdd

DRIVERS = ["mpi_solve", "mpi_sdd"]
MODEL = "distsolve"
MPIRUN = ["mpirun", "--allow-run-as-root", "--oversubscribe", "--bind-to", "none", "--mca", "mpi_yield_when_idle", "1", "-n"]
TIMEOUT = 150
ASSUMPTIONS = [
    "MPI runtime: progress / deadlock freedom / arrival order are not modelled; every mpirun runs under timeout",
    "the distributed solve runs at double (MPI datatypes); truthfulness compares the reported residual (a floating-point "
    "recurrence) with the exactly recomputed true residual within a tested tolerance (1e-6 relative + 1e-12; IDR(s) 1e-10)",
    "PMIS aggregation: Coq model Pmis.v (block_size 1, no near-null space), tied exactly (op pmis vs m.pmis); its block_size > 1 lifting and the "
    "near-null-space prolongation (QR at double, row exchange) are covered by the PmisSpec oracles only; repartitioning (merge) and the "
    "consolidation of the coarse problem are covered by the oracle runs only (no Coq model); ParMETIS/Scotch/PaStiX/Eigen-SparseLU are not installed",
    "distributed smoothed aggregation: Coq model DistSa.v (nullspace.cols = 0, power_iters = 0), tied by ops sa / bsa vs m.dsa; the run is at double: P and R "
    "are compared exactly only where tools/props/c12_sa.py (an exact replica of the strength test, used for this decision and for case generation only) "
    "finds the arithmetic of the call exact, else to 2^-40 relative; omega = relax * (2.0/3) resp. relax * ((4.0/3)/rho) is evaluated at double by the "
    "python module and must agree with the model's exact formula to 2^-49 relative; the recording wrapper obtains P_tent / the strength pattern by running "
    "pmis<Backend> itself on a copy of the parameters (PMIS is deterministic)",
    "PMIS model: the point-to-point messages of a round arrive completely and are applied in neighbour-list (rank) order; strength rows contain the diagonal",
    "block values (bsolve / bdirect): static_matrix<double,2,2>; the gathered block operators are expanded to scalar matrices by tools/props/C12.py before the "
    "extracted oracles run (the smoothed-prolongation formula is evaluated at BlockS QcS 2 by ops m.dsa / o.saform); the block smoothers are not tied under MPI",
    "the rank-lifted solver theorems (DistSolveProofs.v) are about CG and Richardson with abstract distributed preconditioner; "
    "the other Krylov methods are covered by the rank-consistency oracle only",
]
TRUSTED_BASE = ["mpirun/Open MPI 4.1.4, mpicxx (g++ 12); harness/drv_mpi_solve.cpp (recording coarsening wrapper incl. its own pmis run for P_tent, ops pmis / sa / bsa "
                "calling mpi::coarsening::pmis / smoothed_aggregation directly, gather to rank 0); tools/props/C12.py and c12_sa.py assemble the ranks' strips before comparing with the model; "
                "ocaml/distsolve/ops_distsa.ml (cellwise tolerance compare, omega rounding check)"]
RULE = ("cases derived from VERIF_SEED by tools/props/C12.py: coarsening {aggregation, smoothed_aggregation} x 9 relaxations x 9 "
        "solvers (+ relaxation-as-preconditioner x solvers), merge repartitioning on/off, SPD M-matrices n = 8..48, random "
        "contiguous partitions with empty ranks; near-null-space cases (cols 0..3, block_size 1/2, grids with thin strips on 2..8 ranks); PMIS model tie: all "
        "graphs n <= 4 (thorough: 5) x all contiguous partitions on 1..4 ranks, all directed patterns n <= 3, random graphs; block values (ops bsolve / bdirect, own random "
        "stream seed*1000+1212): block-SPD systems with non-commuting 2x2 dyadic blocks, 2 coarsenings x 3 relaxations x 3 solvers, merge on/off, 1..4 (1..8) ranks; "
        "distributed smoothed aggregation (ops sa / bsa, own random stream seed*1000+1271): matrices n = 3..20 (blocks 3..12) with entries of three size classes, "
        "diagonals fixed up so that the filtered diagonal is a power of two, eps_strong in {1/4, 1/2, 1/8, 0, 0.08}, relax in {3/4, 3/2, 3/8, 1}, 1..3 calls, "
        "estimate_spectral_radius in 20% of the scalar cases, random contiguous partitions with empty ranks on 1..4 (1..8) ranks; "
        "non-trivial = all ranks returned a result line")

ASSUMPTIONS = ASSUMPTIONS + c12_relax.ASSUMPTIONS; TRUSTED_BASE = TRUSTED_BASE + c12_relax.TRUSTED_BASE; RULE = RULE + "; " + c12_relax.RULE
ASSUMPTIONS = ASSUMPTIONS + c12_sdd.ASSUMPTIONS; TRUSTED_BASE = TRUSTED_BASE + c12_sdd.TRUSTED_BASE; RULE = RULE + "; " + c12_sdd.RULE

COARSENINGS = ["aggregation", "smoothed_aggregation"]
RELAX = ["spai0", "damped_jacobi", "gauss_seidel", "ilu0", "iluk", "ilup", "ilut", "spai1", "chebyshev"]
SOLVERS = ["cg", "bicgstab", "bicgstabl", "gmres", "lgmres", "fgmres", "idrs", "richardson", "preonly"]
# convergence to tol is demanded for (preconditioner symmetric where the method needs it)
CONV_SOLVERS = {"cg", "bicgstab", "bicgstabl", "gmres", "lgmres", "fgmres", "idrs"}
SYM_RELAX = {"spai0", "damped_jacobi", "gauss_seidel", "ilu0", "chebyshev"}
TOL = "1e-8"
MAXITER = 300


def np_of(line): return int(line.split(" ", 1)[0].split(".")[0][1:])


def cases(tier, seed):
    r = random.Random(seed * 1000 + 12)
    quick = tier == "quick"
    out = []; cnt = {}
    def add(np_, op, *parts):
        k = cnt.get(np_, 0); cnt[np_] = k + 1
        out.append("p%d.%d %s %s" % (np_, k, op, " ".join(str(p) for p in parts)))

    def system(np_, nlo=8, nhi=None, empty_bias=0.2):
        n = r.randint(nlo, nhi or (48 if quick else 110))
        M = gen.dyadic_spd(r, n)
        p = gen.rcomposition(r, n, np_, empty_bias=empty_bias)
        f = [F(r.randint(-4, 4), r.choice([1, 2])) for _ in range(n)]
        if all(v == 0 for v in f): f[0] = F(1)
        return n, M, p, f

    def solve_case(np_, cls, coarsening, relax, solver, repart):
        n, M, p, f = system(np_)
        cfg = ["precond.class=" + cls]
        pre = "precond."
        if cls == "amg":
            oi = r.choice([1, 2])
            cfg += [pre + "coarsening.type=" + coarsening, pre + "relax.type=" + relax,
                    pre + "coarse_enough=%d" % r.choice([1, 2, 4]), pre + "direct_coarse=%s" % r.choice(["true", "true", "false"]),
                    pre + "repart.enable=%s" % ("true" if repart else "false"), pre + "repart.shrink_ratio=%d" % r.choice([2, 2, 8]),
                    pre + "npre=%d" % r.choice([1, 1, 2]), pre + "npost=%d" % r.choice([1, 1, 2])]
            if coarsening == "aggregation":
                cfg += [pre + "coarsening.over_interp=%d" % oi,
                        pre + "coarsening.aggr.eps_strong=%s" % r.choice(["0.25", "0.125", "0.5", "0"])]
            elif r.random() < 0.3: cfg += [pre + "coarsening.estimate_spectral_radius=true"]
        else:
            cfg += [pre + "type=" + relax]
        cfg += ["solver.type=" + solver, "solver.tol=" + TOL, "solver.maxiter=%d" % MAXITER]
        x0 = [F(0)] * n if r.random() < 0.7 else [F(r.randint(-2, 2)) for _ in range(n)]
        add(np_, "solve", " ".join(cfg), "--", fmt_crs(n, n, M), fmt_ivec(p), fmt_vec(f), fmt_vec(x0), 2)

    ranks = [1, 2, 3, 4] if quick else [1, 2, 3, 4, 5, 6, 8]
    reps = 1 if quick else 3
    for np_ in ranks:
        for c in COARSENINGS:
            for rl in RELAX:
                svs = SOLVERS if not quick else r.sample(SOLVERS, 4) + ["cg"]
                for sv in svs:
                    for _ in range(reps):
                        solve_case(np_, "amg", c, rl, sv, repart=(r.random() < 0.5))
        for rl in RELAX:
            for sv in (SOLVERS if not quick else r.sample(SOLVERS, 3)):
                solve_case(np_, "relaxation", None, rl, sv, False)
        for it in range(20 if quick else 100):
            n, M, p, f = system(np_, 1, 40 if quick else 120, empty_bias=0.35)
            add(np_, "direct", fmt_crs(n, n, M), fmt_ivec(p), fmt_vec(f))
    # ---- distributed aggregation with a near-null space (thin strips, 2..8 ranks)
    for np_ in ([2, 3, 4, 5, 6, 8] if quick else [2, 3, 4, 5, 6, 7, 8]):
        for K in (0, 1, 2, 3):
            for bs in (1, 2):
                for _ in range(3 if quick else 10):
                    n, M, p, B = ns_system(r, np_, K, bs)
                    eps = r.choice(["2/25", "2/25", "1/4", "1/8", "0"])
                    add(np_, "pmis", "eps_strong=%s block_size=%d" % (eps, bs), "--", fmt_crs(n, n, M), fmt_ivec(p), K, fmt_vec(B))
        for K in (1, 2, 3):
            for c in COARSENINGS:
                # (block_size, repartitioning, deep hierarchy).  Clean configurations: one near-null-space vector with any
                # depth; two or three vectors with ONE coarsening step (max_levels = 2).  The others run into the known
                # findings C12-mpi-amg-nullspace-not-repartitioned / C12-mpi-coarsening-nullspace-blocks (own mpirun each,
                # a few of them only).
                if K == 1:
                    variants = [(1, False, True)] * (2 if quick else 5)
                    known = [(1, True, True), (2, False, True)]
                else:
                    variants = [(1, False, False)] * (2 if quick else 5) + [(1, True, False)]
                    known = [(1, False, True)]
                if quick: known = [v for i, v in enumerate(known) if (np_ + K + i + (c == "aggregation")) % 3 == 0]
                for bs, repart, deep in variants + known:
                    n, M, p, B = ns_system(r, np_, K, bs)
                    pre = "precond."
                    cfg = ["precond.class=amg", pre + "coarsening.type=" + c, pre + "relax.type=" + r.choice(["spai0", "damped_jacobi", "ilu0"]),
                           pre + "coarse_enough=%d" % r.choice([K, K + 1, 2 * K, 4]), pre + "direct_coarse=true",
                           pre + "repart.enable=%s" % ("true" if repart else "false"), pre + "repart.shrink_ratio=%d" % r.choice([2, 8]),
                           pre + "coarsening.aggr.eps_strong=%s" % r.choice(["0.08", "0.125", "0"]),      # decimal: parsed by the property tree
                           pre + "coarsening.aggr.block_size=%d" % bs]
                    if not deep: cfg.append(pre + "max_levels=2")
                    if c == "aggregation": cfg.append(pre + "coarsening.over_interp=%d" % r.choice([1, 2]))
                    cfg += ["ns.cols=%d" % K, "ns.B=" + ",".join(fmt_q(v) for v in B)]
                    cfg += ["solver.type=" + r.choice(["cg", "bicgstab", "gmres"]), "solver.tol=" + TOL, "solver.maxiter=%d" % MAXITER]
                    f = [F(r.randint(-4, 4), r.choice([1, 2])) for _ in range(n)]
                    if all(v == 0 for v in f): f[0] = F(1)
                    add(np_, "solve", " ".join(cfg), "--", fmt_crs(n, n, M), fmt_ivec(p), fmt_vec(f), fmt_vec([F(0)] * n), 1)
    # ---- block value types: static_matrix<double,2,2> (own random stream: the cases above keep ids and payloads)
    out += bsolve_cases(tier, seed)
    # ---- distributed smoothed aggregation on its own, against the model DistSa.v (own random stream)
    out += c12_sa.sa_cases(tier, seed)
    # ---- the smoothers under MPI on their own (runtime wrapper), against the model DistRelax.v (own random stream)
    out += c12_relax.relax_cases(tier, seed)
    out += c12_sdd.sdd_cases(tier, seed)
    # ---- PMIS model tie (Pmis.v): pattern graphs x contiguous partitions, exhaustive for small n
    import itertools
    def graph_case(np_, n, edges, p, eps="0", w=None):
        rows = [dict() for _ in range(n)]
        for (a, b) in edges: rows[a][b] = -(w[(a, b)] if w else F(1))
        for a in range(n): rows[a][a] = F(4)
        add(np_, "pmis", "eps_strong=%s block_size=1" % eps, "--", fmt_crs(n, n, [sorted(rw.items()) for rw in rows]), fmt_ivec(p), 0, fmt_vec([]))
    def all_parts(n, np_): return [list(c) for c in gen.compositions(n, np_)]
    for n in ((1, 2, 3, 4) if quick else (1, 2, 3, 4, 5)):
        und = [(a, b) for a in range(n) for b in range(a + 1, n)]
        graphs = [[e for e, bit in zip(und, bits) if bit] for bits in itertools.product([0, 1], repeat=len(und))]
        for gi, g in enumerate(graphs):
            sym = g + [(b, a) for a, b in g]
            # n = 5 (thorough): all 1024 graphs x all partitions on 2 and 3 ranks; 1 and 4 ranks for every 8th graph
            for np_ in ((1, 2, 3, 4) if n < 5 or gi % 8 == 0 else (2, 3)):
                for p in all_parts(n, np_): graph_case(np_, n, sym, p)
    if not quick:
        und = [(a, b) for a in range(6) for b in range(a + 1, 6)]
        for _ in range(250):
            g = [e for e in und if r.random() < 0.4]
            for np_ in (2, 3):
                for p in all_parts(6, np_): graph_case(np_, 6, g + [(b, a) for a, b in g], p)
    # directed patterns (structurally non-symmetric strength matrix): exhaustive for n <= 3, sampled above
    for n in (2, 3):
        dire = [(a, b) for a in range(n) for b in range(n) if a != b]
        for bits in itertools.product([0, 1], repeat=len(dire)):
            g = [e for e, bit in zip(dire, bits) if bit]
            if all((b, a) in g for a, b in g): continue
            for np_ in (2, 3, 4):
                for p in all_parts(n, np_): graph_case(np_, n, g, p)
    for _ in range(300 if quick else 3000):
        n = r.randint(4, 7 if quick else 12); np_ = r.randint(2, 4 if quick else 8)
        dens = r.choice([0.2, 0.35, 0.5])
        g = [(a, b) for a in range(n) for b in range(n) if a != b and r.random() < dens]
        if r.random() < 0.5: g = sorted(set(g + [(b, a) for a, b in g]))
        graph_case(np_, n, g, gen.rcomposition(r, n, np_, empty_bias=0.15))
    # sparse graphs with long distances and shuffled labels (trees, paths, cycles with chords): ranks interleave along the
    # paths, so roots are blocked / released over several rounds and claims cross several rank boundaries
    for _ in range(800 if quick else 6000):
        n = r.randint(8, 24 if quick else 36); np_ = r.choice([3, 4] if quick else [3, 4, 5, 6, 8])
        lab = list(range(n)); r.shuffle(lab)
        kind = r.choice(["path", "tree", "cycle+", "cycle+"])
        if kind == "path": g = [(lab[k], lab[k + 1]) for k in range(n - 1)]
        elif kind == "tree": g = [(lab[k], lab[r.randrange(max(0, k - 3), k)]) for k in range(1, n)]
        else: g = [(lab[k], lab[(k + 1) % n]) for k in range(n)] + [(r.randrange(n), r.randrange(n)) for _ in range(r.randint(0, 2))]
        g = sorted(set((a, b) for a, b in g if a != b) | set((b, a) for a, b in g if a != b))
        graph_case(np_, n, g, gen.rcomposition(r, n, np_, empty_bias=0.1))
    # larger random symmetric graphs with weights and a non-trivial threshold
    for _ in range(60 if quick else 600):
        np_ = r.choice([2, 3, 4] if quick else [2, 3, 4, 5, 6, 8]); n = r.randint(8, 40)
        M = gen.dyadic_spd(r, n)
        add(np_, "pmis", "eps_strong=%s block_size=1" % r.choice(["2/25", "1/4", "1/2", "0"]), "--", fmt_crs(n, n, M),
            fmt_ivec(gen.rcomposition(r, n, np_, empty_bias=0.15)), 0, fmt_vec([]))
    return out


# ---------------------------------------------------------------- block value types
from props import blockvals as bv
BSPD = [[[F(2), F(1)], [F(1), F(2)]], [[F(2), F(0)], [F(0), F(1)]], [[F(1), F(0)], [F(0), F(1)]], [[F(2), F(-1)], [F(-1), F(1)]],
        [[F(1), F(1, 2)], [F(1, 2), F(1)]], [[F(1), F(0)], [F(0), F(4)]], [[F(3), F(1)], [F(1), F(1)]]]
B_RELAX = ["spai0", "damped_jacobi", "ilu0"]
B_SOLVERS = ["cg", "bicgstab", "gmres"]

def block_spd(r, n):
    """block-SPD matrix with dyadic 2x2 blocks on a random connected graph: A_ij = A_ji = -W_e (W_e symmetric positive definite,
    drawn from a set of mutually NON-commuting blocks), A_ii = sum of the W_e + a positive (semi)definite shift; sorted rows"""
    edges = {}
    for i in range(1, n):
        j = r.randrange(max(0, i - 3), i); edges[(j, i)] = bv.bl_scale(r.choice([F(1), F(1), F(2), F(1, 2)]), r.choice(BSPD))
    for _ in range(r.randint(0, n // 2)):
        i, j = r.randrange(n), r.randrange(n)
        if i != j: edges[(min(i, j), max(i, j))] = bv.bl_scale(r.choice([F(1), F(1, 2)]), r.choice(BSPD))
    rows = [dict() for _ in range(n)]
    for (i, j), W in edges.items():
        rows[i][j] = bv.bl_scale(F(-1), W); rows[j][i] = bv.bl_scale(F(-1), W)
    for i in range(n):
        D = bv.bl_zero(2)
        for j, W in rows[i].items(): D = bv.bl_add(D, bv.bl_scale(F(-1), W))
        if i == 0 or r.random() < 0.3: D = bv.bl_add(D, bv.bl_scale(r.choice([F(1), F(1, 2)]), r.choice(BSPD)))
        rows[i][i] = D
    return [sorted(rw.items()) for rw in rows]

def bsolve_cases(tier, seed):
    r = random.Random(seed * 1000 + 1212)
    quick = tier == "quick"
    out = []; cnt = {}
    for np_ in ([1, 2, 3, 4] if quick else [1, 2, 3, 4, 5, 6, 8]):
        for c in COARSENINGS:
            for it in range((3 if np_ == 1 else 8) if quick else 24):
                n = r.randint(max(6, np_), 28 if quick else 48)
                A = block_spd(r, n)
                p = gen.rcomposition(r, n, np_, empty_bias=0.15)
                f = [F(r.randint(-4, 4), r.choice([1, 2])) for _ in range(2 * n)]
                if all(v == 0 for v in f): f[0] = F(1)
                pre = "precond."
                cfg = ["precond.class=amg", pre + "coarsening.type=" + c, pre + "relax.type=" + r.choice(B_RELAX),
                       pre + "coarse_enough=%d" % r.choice([1, 2, 3]), pre + "direct_coarse=%s" % r.choice(["true", "true", "false"]),
                       pre + "repart.enable=%s" % ("true" if r.random() < 0.4 else "false"), pre + "repart.shrink_ratio=%d" % r.choice([2, 2, 8]),
                       pre + "npre=1", pre + "npost=1"]
                if c == "aggregation":
                    cfg += [pre + "coarsening.over_interp=%d" % r.choice([1, 2]),
                            pre + "coarsening.aggr.eps_strong=%s" % r.choice(["0.25", "0.125", "0.08", "0"])]
                cfg += ["solver.type=" + r.choice(B_SOLVERS), "solver.tol=" + TOL, "solver.maxiter=%d" % MAXITER]
                x0 = [F(0)] * (2 * n) if r.random() < 0.7 else [F(r.randint(-2, 2)) for _ in range(2 * n)]
                k = cnt.get(np_, 0); cnt[np_] = k + 1
                out.append("p%d.b%d bsolve %s -- 2 %s %s %s %s 2" % (np_, k, " ".join(cfg), bv.fmt_bcrs(n, n, A), fmt_ivec(p), fmt_vec(f), fmt_vec(x0)))
        # distributed direct solver on block systems: block rows and rhs blocks consolidated on the master rank
        for it in range(10 if quick else 40):
            n = r.randint(1, 16 if quick else 40)
            A = block_spd(r, n)
            p = gen.rcomposition(r, n, np_, empty_bias=0.35)
            f = [F(r.randint(-4, 4), r.choice([1, 2])) for _ in range(2 * n)]
            k = cnt.get(np_, 0); cnt[np_] = k + 1
            out.append("p%d.b%d bdirect 2 %s %s %s" % (np_, k, bv.fmt_bcrs(n, n, A), fmt_ivec(p), fmt_vec(f)))
    return out

BMAT_RE = re.compile(r"([APRCTS])(\{[^}]*\})")

def parse_bstrip(s_, b=2):
    """'{n m | c:v,v,v,v ... | ...}' -> (n, m, rows of (col, block))"""
    s_ = s_.strip(); assert s_[0] == "{" and s_[-1] == "}", s_[:40]
    parts = s_[1:-1].split("|")
    n, m = [int(x) for x in parts[0].split()]
    rows = []
    for p_ in parts[1:]:
        rw = []
        for e in p_.split():
            c, v = e.split(":"); vs = [F(x) for x in v.split(",")]; assert len(vs) == b * b
            rw.append((int(c), bv.bl_unflat(vs, b)))
        rows.append(rw)
    assert len(rows) == n
    return n, m, rows

def assemble_b(strips, b=2):
    n = 0; m = None; rows = []
    for s_ in strips:
        k, mm, rw = parse_bstrip(s_, b)
        if m is None: m = mm
        elif m != mm: raise ValueError("ranks disagree on the global column count")
        n += k; rows += rw
    return n, m, rows

def expand_tok(M, b=2):
    """block matrix (n, m, rows) -> token string of the expanded scalar matrix (n*b x m*b)"""
    n, m, rows = M
    return fmt_crs(n * b, m * b, bv.b_expand(rows, b))

class BCfg:
    def __init__(self, line):
        cid, op, rest = line.split(" ", 2)
        self.cid, self.op = cid, op
        head, tail = rest.split(" -- ", 1)
        self.kv = dict(w.split("=", 1) for w in head.split())
        t = bv.Toks(tail)
        self.b = t.i()
        self.n, m, self.rows = t.bcrs(self.b)
        self.parts = [t.i() for _ in range(t.i())]
        self.f = [t.q() for _ in range(t.i())]

def check_bsolve(line, out, np_, olines, fails, ctx):
    c = BCfg(line); b = c.b
    def fail(what, **kw):
        fails.append(dict(kind="counterexample", case=line, impl=(out or "")[:4000], model=None, op=c.op, size=len(line), np=np_,
                          oracle=dict(op=what, **kw), theorem="C12 block values: %s (%d ranks)" % (what, np_)))
    if out is None or out.startswith("CRASH"): return fail("terminates on all ranks (no hang / crash)", got=out)
    per = out.split(" ; ")
    if len(per) != np_: return fail("one report per rank", got=len(per))
    if any(p.startswith("EXC") for p in per): return fail("no exception on any rank", got=[p[:200] for p in per])
    ms = [RANK_RE.match(p) for p in per]
    if not all(ms): return fail("well-formed report", got=[p[:120] for p in per])
    ctx["stats"]["oracle_checks"] += 1
    heads = [m.group(1) for m in ms]
    if len(set(heads)) != 1: return fail("rank consistency: identical (iters, residual) on every rank", got=heads)
    h = re.findall(r"it=(\S+) res=(\S+) bits=(\S+)", heads[0])
    it, res = int(h[-1][0]), h[-1][1]
    solver = c.kv.get("solver.type")
    if any(w in m.group(2) for m in ms for w in ("nan", "inf")) or res in ("nan", "inf", "-inf"):
        return fail("finite solution and residual on every rank", got=[m.group(2)[:80] for m in ms] + [res])
    x = []
    for m in ms: x += parse_out_vec(m.group(2))
    if len(x) != c.n * b: return fail("solution slices cover the system", got=len(x))
    A_tok = expand_tok((c.n, c.n, c.rows), b)
    tol = F(res) / 10**6 + F(1, 10**12)
    olines.append(("truthfulness (block system expanded to scalars)", "%s o.truth %s %s %s %s %s" % (c.cid + ".t", A_tok, fmt_vec(c.f), fmt_vec(x), res, fmt_q(tol))))
    relax = c.kv.get("precond.relax.type")
    if solver != "cg" or relax in ("spai0", "damped_jacobi", "ilu0"):
        ctx["stats"]["oracle_checks"] += 1
        if not (it < MAXITER and F(res) <= F(TOL) * F(101, 100)):
            fail("convergence on a block-SPD matrix", got=dict(iters=it, res=float(F(res))))
    nl = [int(m.group(3)) for m in ms]
    if len(set(nl)) != 1: return fail("same number of recorded level matrices on every rank", got=nl)
    seqs = [BMAT_RE.findall(m.group(4)) for m in ms]
    if any([k for k, _ in s_] != [k for k, _ in seqs[0]] for s_ in seqs):
        return fail("same level structure on every rank", got=[[k for k, _ in s_] for s_ in seqs])
    levels = []
    for idx, (k, _) in enumerate(seqs[0]):
        try: M = assemble([s_[idx][1] for s_ in seqs]) if k == "S" else assemble_b([s_[idx][1] for s_ in seqs], b)
        except Exception as e: return fail("level matrices assemble", got=str(e))
        if k == "A": levels.append({})
        if not levels: return fail("level log starts with A", got=k)
        levels[-1][k] = M
    coarsening = c.kv.get("precond.coarsening.type")
    st = ctx["stats"]["by_op"]
    for li, L in enumerate(levels):
        if not all(k in L for k in "APR"): return fail("level has A, P, R", got=list(L))
        tok = {k: expand_tok(L[k], b) for k in L if k != "S"}
        base = "%s.l%d" % (c.cid, li)
        if li == 0 and (L["A"][0] != c.n or sorted_rows(L["A"][2]) != sorted_rows(c.rows)):
            fail("finest level matrix is the system matrix", got=li)
        olines.append(("R = P^T (transposed block pattern, adjoint blocks)", "%s.tr o.transpose %s %s" % (base, tok["P"], tok["R"])))
        if coarsening == "smoothed_aggregation":
            # the recorded P_tent and strength pattern: P = (I - omega Df^-1 A_f) P_tent with BLOCK products in this order
            if not all(k in L for k in "TS"): return fail("smoothed aggregation level has the recorded P_tent and strength pattern", got=list(L))
            btok = lambda M: "%d %d %s" % (M[0], M[1], " ".join("%d %s" % (len(rw), " ".join("%d %s" % (cc, bv.fmt_blk(B)) for cc, B in rw)) for rw in M[2]))
            omega = F(c.kv.get("precond.coarsening.relax", "1")) * c12_sa.C23
            scale = max([abs(v) for rw in L["P"][2] for _, B in rw for v in bv.bl_flat(B)] + [F(1)])
            c12_sa.level_oracle(olines, base, b, btok(L["A"]), crs_tok(*L["S"]), btok(L["T"]), btok(L["P"]), omega, scale)
            st["bsolve_sa_levels_with_formula_oracle"] = st.get("bsolve_sa_levels_with_formula_oracle", 0) + 1
            if li == 0:
                ctx["stats"]["oracle_checks"] += 1
                bad = c12_sa.strength_check(L["A"][2], L["S"][2], F(float(F(c.kv.get("precond.coarsening.aggr.eps_strong", "0.08")))))
                if bad: fail("strength pattern of the finest level = the strength test with eps_strong (block traces)", level=li, entry=bad)
        if coarsening == "aggregation":
            ctx["stats"]["oracle_checks"] += 1
            I = bv.bl_id(b); cols = set()
            for rw in L["P"][2]:
                if len(rw) > 1 or any(B != I for _, B in rw): fail("aggregation: P_tent has at most one identity block per block row", level=li); break
                cols.update(cc for cc, _ in rw)
            else:
                if cols != set(range(L["P"][1])): fail("aggregation: no empty aggregate", level=li)
        if "C" in L:
            # evidence: do the blocks of R and of A*P commute?  (the operand order of the Galerkin product is only visible if not)
            Rb = [B for rw in L["R"][2] for _, B in rw][:40]; Ab = [B for rw in L["A"][2] for _, B in rw][:40]
            pairs = [(X, Y) for X in Rb[:8] for Y in Ab[:8]]
            st["bsolve_block_pairs_R_A"] = st.get("bsolve_block_pairs_R_A", 0) + len(pairs)
            st["bsolve_block_pairs_R_A_noncommuting"] = st.get("bsolve_block_pairs_R_A_noncommuting", 0) + sum(1 for X, Y in pairs if bv.bl_mul(X, Y) != bv.bl_mul(Y, X))
            if coarsening == "aggregation":
                sc = F(1) / F(c.kv.get("precond.coarsening.over_interp", "3/2")); tol = F(0)
            else:
                sc = F(1); tol = max([abs(v) for rw in L["C"][2] for _, B in rw for v in bv.bl_flat(B)] + [F(1)]) / 10**9
            olines.append(("coarse block matrix = scale * R A P (expanded to scalars)", "%s.ga o.galerkin %s %s %s %s %s %s" %
                           (base, tok["A"], tok["P"], tok["R"], tok["C"], fmt_q(sc), fmt_q(tol))))
            if li + 1 < len(levels):
                olines.append(("next level matrix = coarse matrix (also after repartitioning)",
                               "%s.nx o.same %s %s" % (base, tok["C"], expand_tok(levels[li + 1]["A"], b))))


def check_bdirect(line, out, np_, olines, fails, ctx):
    cid, op, rest = line.split(" ", 2)
    t = bv.Toks(rest); b = t.i(); n, m, rows = t.bcrs(b); parts_ = [t.i() for _ in range(t.i())]; f = [t.q() for _ in range(t.i())]
    def fail(what, **kw):
        fails.append(dict(kind="counterexample", case=line, impl=(out or "")[:2000], model=None, op=op, size=len(line), np=np_,
                          oracle=dict(op=what, **kw), theorem="C12 block values: %s (%d ranks)" % (what, np_)))
    if out is None or out.startswith("CRASH"): return fail("terminates on all ranks (no hang / crash)", got=out)
    per = out.split(" ; ")
    if len(per) != np_ or any(p.startswith("EXC") for p in per): return fail("no exception on any rank", got=[p[:200] for p in per])
    x1 = []; x2 = []
    for p in per:
        mm = re.match(r"^x=(\[[^\]]*\]) again x=(\[[^\]]*\])$", p)
        if not mm or "nan" in p or "inf" in p: return fail("well-formed finite report", got=p[:200])
        x1 += parse_out_vec(mm.group(1)); x2 += parse_out_vec(mm.group(2))
    ctx["stats"]["oracle_checks"] += 1
    if x1 != x2: return fail("direct solver object is reusable (same result twice)")
    if len(x1) != n * b: return fail("solution slices cover the system", got=len(x1))
    scale = max([abs(v) for v in f] + [F(1)])
    olines.append(("distributed direct solver returns the solution of the gathered block system (expanded to scalars)",
                   "%s.d o.solves %s %s %s %s" % (cid, expand_tok((n, n, rows), b), fmt_vec(f), fmt_vec(x1), fmt_q(scale / 10**9))))


def grid_spd(r, nx, ny, bs=1):
    """SPD M-matrix with dyadic entries on an nx x ny grid (point g = j*nx + i, bs unknowns per point, unknown
    g*bs + k), 5-point stencil plus a few diagonal links; returns (rows, coordinates per unknown)"""
    W = [F(1), F(1), F(2), F(1, 2)]
    n = nx * ny * bs
    rows = [dict() for _ in range(n)]
    def link(a, b, w):
        if a == b or b in rows[a]: return
        rows[a][b] = -w; rows[b][a] = -w
    diag9 = r.random() < 0.3
    for j in range(ny):
        for i in range(nx):
            g = j * nx + i
            nb = []
            if i + 1 < nx: nb.append(g + 1)
            if j + 1 < ny: nb.append(g + nx)
            if diag9 and i + 1 < nx and j + 1 < ny and r.random() < 0.5: nb.append(g + nx + 1)
            for h in nb:
                w = r.choice(W)
                for k in range(bs): link(g * bs + k, h * bs + k, w)
                if bs > 1 and r.random() < 0.3: link(g * bs, h * bs + 1, F(1, 2))
            if bs > 1:
                for k in range(bs - 1): link(g * bs + k, g * bs + k + 1, F(1, 2))
    for a in range(n):
        rows[a][a] = sum(-v for v in rows[a].values()) + r.choice([F(0), F(0), F(1, 2), F(1)])
        if rows[a][a] == 0: rows[a][a] = F(1)
    if all(rows[a][a] == sum(-v for c, v in rows[a].items() if c != a) for a in range(n)): rows[0][0] += 1
    xy = [((a // bs) % nx, (a // bs) // nx, a % bs) for a in range(n)]
    return [sorted(rw.items()) for rw in rows], xy


def thin_strips(r, nx, ny, np_, bs):
    """contiguous partition of the nx*ny*bs unknowns into np_ strips: about one grid line per rank (+- a point),
    some ranks empty, the remainder on the first or the last rank (or spread); sizes are multiples of bs"""
    npts = nx * ny
    kind = r.choice(["rest-last", "rest-first", "rest-middle", "jitter"])
    sz = []
    for k in range(np_):
        w = nx + (r.choice([-1, 0, 0, 0, 1, 2]) if kind == "jitter" or r.random() < 0.3 else 0)
        if np_ > 2 and r.random() < 0.12: w = 0
        sz.append(max(0, w))
    fat = {"rest-last": np_ - 1, "rest-first": 0, "rest-middle": np_ // 2, "jitter": r.randrange(np_)}[kind]
    sz[fat] = 0
    over = sum(sz) - npts
    k = 0
    while over > 0:                       # too many lines for the grid: shrink from the front
        d = min(sz[k % np_], over); sz[k % np_] -= d; over -= d; k += 1
    sz[fat] = npts - sum(sz)
    return [w * bs for w in sz]


def ns_system(r, np_, K, bs):
    nx = r.randint(3, 6)
    ny = r.randint(max(3, np_), np_ + 4)
    M, xy = grid_spd(r, nx, ny, bs)
    p = thin_strips(r, nx, ny, np_, bs)
    n = len(M)
    B = []
    for (x, y, k) in xy:
        if bs == 1: full = [F(1), x + F(3, 8) * y, y - F(3, 16) * x]
        else:       full = [F(1) if k == 0 else F(0), F(1) if k == 1 else F(0), x + F(3, 8) * y + k]
        B += full[:K]
    return n, M, p, B


# ---------------------------------------------------------------- parsing the per-rank reports
RANK_RE = re.compile(r"^((?:it=\S+ res=\S+ bits=\S+)(?: again it=\S+ res=\S+ bits=\S+)*) x=(\[[^\]]*\]) L (\d+)(.*)$")
MAT_RE = re.compile(r"([APRCBNTS])(\{[^}]*\})")
PMIS_RE = re.compile(r"^na=(\d+) P(\{[^}]*\})(?: N(\{[^}]*\}))? S(\{[^}]*\})$")

def crs_tok(n, m, rows): return fmt_crs(n, m, rows)

def assemble(strips):
    """strips: list of '{n m | ...}' per rank -> (n, m, rows) of the assembled matrix"""
    n = 0; m = None; rows = []
    for s in strips:
        k, mm, rw = parse_out_crs(s)
        if m is None: m = mm
        elif m != mm: raise ValueError("ranks disagree on the global column count")
        n += k; rows += rw
    return n, m, rows

class Cfg:
    def __init__(self, line):
        cid, op, rest = line.split(" ", 2)
        self.cid, self.op = cid, op
        self.kv = {}
        toks = rest.split(" ")
        i = 0
        if op in ("solve", "pmis"):
            while toks[i] != "--":
                k, v = toks[i].split("=", 1); self.kv[k] = v; i += 1
            i += 1
        t = toks[i:]
        n = int(t[0]); p = 2; rows = []
        for _ in range(n):
            k = int(t[p]); p += 1; rw = []
            for _ in range(k): rw.append((int(t[p]), F(t[p + 1]))); p += 2
            rows.append(rw)
        self.n, self.rows = n, rows
        self.A = " ".join(t[:p])
        k = int(t[p]); self.parts = [int(x) for x in t[p + 1:p + 1 + k]]; p += 1 + k
        if op == "pmis":
            self.K = int(t[p]); p += 1
            k = int(t[p]); self.B = [F(x) for x in t[p + 1:p + 1 + k]]; p += 1 + k
            return
        k = int(t[p]); self.f = [F(x) for x in t[p + 1:p + 1 + k]]; p += 1 + k
        self.K = int(self.kv.get("ns.cols", "0"))
        self.B = [F(x) for x in self.kv["ns.B"].split(",")] if self.K else []


def check_solve(line, out, np_, olines, fails, ctx):
    """structural checks in python; exact checks become oracle lines for the extracted Coq spec"""
    c = Cfg(line)
    # an aggregate of the first coarsening step with fewer unknowns than near-null-space vectors (seen by the probe run of
    # the aggregation; known finding small-aggregates: rank-deficient P, singular coarse operator) is recorded with every
    # failure of the case
    small = [bool(ctx.get("c12_small", {}).get(c.cid))]
    if small[0]: ns_stat(ctx, "ns_solve_cases_with_aggregate_smaller_than_cols")
    def fail(what, **kw):
        if small[0]: kw["small_aggregate"] = True
        fails.append(dict(kind="counterexample", case=line, impl=(out or "")[:4000], model=None, op=c.op, size=len(line), np=np_,
                          oracle=dict(op=what, **kw), theorem="C12 %s (%d ranks)" % (what, np_)))
    if out is None or out.startswith("CRASH"):
        return fail("terminates on all ranks (no hang / crash)", got=out)
    per = out.split(" ; ")
    if len(per) != np_: return fail("one report per rank", got=len(per))
    if any(p.startswith("EXC") for p in per): return fail("no exception on any rank", got=[p[:200] for p in per])
    ms = [RANK_RE.match(p) for p in per]
    if not all(ms): return fail("well-formed report", got=[p[:120] for p in per])
    # ---- rank consistency: bitwise identical (iters, residual) on every rank, both solves
    ctx["stats"]["oracle_checks"] += 1
    heads = [m.group(1) for m in ms]
    if len(set(heads)) != 1:
        return fail("rank consistency: identical (iters, residual) on every rank", got=heads)
    h = re.findall(r"it=(\S+) res=(\S+) bits=(\S+)", heads[0])
    it, res = int(h[-1][0]), h[-1][1]
    solver = c.kv.get("solver.type")
    # ---- truthfulness: exact true residual of the assembled solution vs reported residual
    if any(w in m.group(2) for m in ms for w in ("nan", "inf")):
        return fail("finite solution on every rank", got=[m.group(2)[:80] for m in ms])
    x = []
    for m in ms: x += parse_out_vec(m.group(2))
    if len(x) != c.n: return fail("solution slices cover the system", got=len(x))
    if res in ("nan", "inf", "-inf"):
        # divergence to overflow is tolerated only for the methods that carry no convergence claim (richardson with an
        # over-interpolated cycle, preonly); rank consistency of the non-finite report was checked above
        if solver in CONV_SOLVERS: return fail("convergence on an SPD M-matrix", got=dict(iters=it, res=res))
        return
    if solver != "preonly":       # preonly reports no residual (returns 0)
        # tested tolerance: 1e-6 relative + an absolute floor at rounding level (1e-12; IDR(s): 1e-10, its
        # recurrence residual drifts from the true one by ~1e-12 on these systems)
        tol = F(res) / 10**6 + (F(1, 10**10) if solver == "idrs" else F(1, 10**12))
        olines.append(("truth", "%s o.truth %s %s %s %s %s" % (c.cid + ".t", c.A, fmt_vec(c.f), fmt_vec(x), res, fmt_q(tol))))
    # ---- convergence on SPD M-matrices
    relax = c.kv.get("precond.relax.type") or c.kv.get("precond.type")
    # CG needs a symmetric preconditioner: symmetric smoother and npre == npost (relaxation class: always symmetric use)
    sym = relax in SYM_RELAX and c.kv.get("precond.npre", "1") == c.kv.get("precond.npost", "1")
    if solver in CONV_SOLVERS and (solver != "cg" or sym):
        ctx["stats"]["oracle_checks"] += 1
        if not (it < MAXITER and F(res) <= F(TOL) * F(101, 100)):
            fail("convergence on an SPD M-matrix", got=dict(iters=it, res=float(F(res))))
    # ---- hierarchy oracles
    nl = [int(m.group(3)) for m in ms]
    if len(set(nl)) != 1: return fail("same number of recorded level matrices on every rank", got=nl)
    seqs = [MAT_RE.findall(m.group(4)) for m in ms]
    if any([k for k, _ in s] != [k for k, _ in seqs[0]] for s in seqs):
        return fail("same level structure on every rank", got=[[k for k, _ in s] for s in seqs])
    levels = []
    for idx, (k, _) in enumerate(seqs[0]):
        try: M = assemble([s[idx][1] for s in seqs])
        except Exception as e: return fail("level matrices assemble", got=str(e))
        if k == "A": levels.append({})
        if not levels: return fail("level log starts with A", got=k)
        levels[-1][k] = M
    coarsening = c.kv.get("precond.coarsening.type")
    K = c.K; bs = int(c.kv.get("precond.coarsening.aggr.block_size", "1"))
    strip_rows = lambda idx: [int(s[idx][1][1:].split(" ", 1)[0]) for s in seqs]      # rows per rank of a logged matrix
    kinds = [k for k, _ in seqs[0]]
    lvl_idx = [i for i, k in enumerate(kinds) if k == "A"]
    for li, L in enumerate(levels):
        if not all(k in L for k in "APR"): return fail("level has A, P, R", got=list(L))
        tok = {k: crs_tok(*L[k]) for k in L}
        base = "%s.l%d" % (c.cid, li)
        if li == 0 and (L["A"][0] != c.n or sorted_rows(L["A"][2]) != sorted_rows(c.rows)):
            fail("finest level matrix is the system matrix", got=li)
        olines.append(("R = P^T", "%s.tr o.transpose %s %s" % (base, tok["P"], tok["R"])))
        eps = F(c.kv.get("precond.coarsening.aggr.eps_strong", "2/25"))
        if coarsening == "smoothed_aggregation": eps = eps / 2**li        # prm.aggr.eps_strong *= 0.5 per level
        if K:
            # the near-null space every rank holds when the level is coarsened covers exactly its rows of the level,
            # and it is the coarse near-null space computed one level up (also across the repartitioning)
            if not all(k in L for k in "BN"): return fail("level has the near-null space B and the coarse one N", got=list(L))
            ia = lvl_idx[li]; ib = ia + 1
            ctx["stats"]["oracle_checks"] += 1
            if strip_rows(ib) != strip_rows(ia):
                fail("near-null space is distributed like the rows of the level", level=li, got=dict(B_rows=strip_rows(ib), A_rows=strip_rows(ia)))
                break
            if li == 0:
                Bin = [[(k, c.B[i * K + k]) for k in range(K)] for i in range(c.n)]
                if sorted_rows(L["B"][2]) != Bin: fail("finest near-null space is the one passed in", got=li)
            else:
                olines.append(("near-null space of the level = coarse near-null space of the level above",
                               "%s.nb o.same %s %s" % (base, crs_tok(*levels[li - 1]["N"]), tok["B"])))
        if coarsening == "smoothed_aggregation" and not K:
            # recorded P_tent (T) and strength pattern (S) of the level: P = (I - omega Df^-1 A_f) P_tent, omega as coded
            if not all(k in L for k in "TS"): return fail("smoothed aggregation level has the recorded P_tent and strength pattern", got=list(L))
            relax = F(c.kv.get("precond.coarsening.relax", "1"))
            if c.kv.get("precond.coarsening.estimate_spectral_radius") == "true":
                rho = c12_sa.gersh_rho(L["A"][2]); omega = relax * c12_sa.C43 / rho if rho else None
            else: omega = relax * c12_sa.C23
            if omega is not None:
                scale = max([abs(v) for rw in L["P"][2] for _, v in rw] + [F(1)])
                c12_sa.level_oracle(olines, base, 1, tok["A"], tok["S"], tok["T"], tok["P"], omega, scale)
                ns_stat(ctx, "solve_sa_levels_with_formula_oracle")
            # per-level handling: the level's strength pattern is the one of eps_strong * 0.5^level (near-ties skipped)
            ctx["stats"]["oracle_checks"] += 1
            bad = c12_sa.strength_check(L["A"][2], L["S"][2], F(float(F(c.kv.get("precond.coarsening.aggr.eps_strong", "0.08")))) / 2**li)
            if bad: fail("strength pattern of the level = the strength test with eps_strong * 0.5^level", level=li, entry=bad)
            olines.append(("P_tent of the level is a partition (no empty aggregate, one unit entry per aggregated row)",
                           "%s.pt o.partition %s" % (base, tok["T"])))
        if coarsening == "aggregation":
            if K:
                scaleB = max([abs(v) for rw in L["B"][2] for _, v in rw] + [F(1)])
                olines.append(("aggregates partition the unknowns (whole non-empty aggregates of nullspace.cols columns)",
                               "%s.pa o.nspart %d %s" % (base, K, tok["P"])))
                olines.append(("near-null space reproduced: P_tent B_coarse = B on every aggregated row",
                               "%s.nr o.nsrepro %s %s %s %s" % (base, tok["P"], tok["N"], tok["B"], fmt_q(scaleB / 10**9))))
                olines.append(("orthonormal columns of P_tent", "%s.no o.nsortho %d %s %s" % (base, K, tok["P"], fmt_q(F(1, 10**9)))))
            else:
                olines.append(("aggregates partition the unknowns (no empty aggregate, one unit entry per aggregated row)",
                               "%s.pa o.partition %s" % (base, tok["P"])))
            if bs == 1:
                olines.append(("every non-isolated unknown is aggregated, every isolated one is left out",
                               "%s.is o.isolated %s %s %s" % (base, tok["A"], tok["P"], fmt_q(eps * eps))))
            else:
                olines.append(("the unknowns of one point are in the same aggregate",
                               "%s.br o.blockrows %d %d %s" % (base, K or bs, bs, tok["P"])))
        if "C" in L:
            if coarsening == "aggregation" and not K:
                sc = F(1) / F(c.kv.get("precond.coarsening.over_interp", "3/2")); tol = F(0)
            elif coarsening == "aggregation":
                sc = F(1) / F(c.kv.get("precond.coarsening.over_interp", "3/2"))
                tol = max([abs(v) for rw in L["C"][2] for _, v in rw] + [F(1)]) / 10**9
            else:
                sc = F(1); tol = max([abs(v) for rw in L["C"][2] for _, v in rw] + [F(1)]) / 10**9
            olines.append(("coarse matrix = scale * R A P", "%s.ga o.galerkin %s %s %s %s %s %s" %
                           (base, tok["A"], tok["P"], tok["R"], tok["C"], fmt_q(sc), fmt_q(tol))))
            if li + 1 < len(levels):
                olines.append(("next level matrix = coarse matrix (also after repartitioning)",
                               "%s.nx o.same %s %s" % (base, tok["C"], crs_tok(*levels[li + 1]["A"]))))

def sorted_rows(rows): return [sorted(rw) for rw in rows]


def ns_config(line):
    """(block_size, nullspace.cols) of a pmis / solve case"""
    head = line.split(" -- ", 1)[0]
    m = re.search(r"block_size=(\d+)", head); bs = int(m.group(1)) if m else 1
    m = re.search(r"ns\.cols=(\d+)", head)
    if m: return bs, int(m.group(1))
    if line.split(" ", 2)[1] == "pmis":
        try: return bs, Cfg(line).K
        except Exception: return bs, 0
    return bs, 0

def known_config(line):
    """configurations of the known findings about the near-null space in the distributed coarsening:
       coarse-block_size  solve with >= 2 coarsening steps, block_size >= 2: the mpi coarsenings keep aggr.block_size on the
                          coarse levels although the coarse unknowns come in blocks of nullspace.cols
                          (assert "Matrix size should be divisible by block_size" / points cut through the blocks);
       small-aggregates   solve with cols >= 2: the distributed aggregation has no counterpart of the serial
                          remove_small_aggregates(min_aggregate = nullspace.cols); an aggregate with fewer unknowns than
                          near-null-space vectors (regularly from the second coarsening step on, where block_size = 1
                          aggregates cut through the cols-blocks of the coarse unknowns) makes QR::R read out of bounds and
                          P rank-deficient, the coarse operator singular;
       not-repartitioned  solve with >= 2 coarsening steps and repartitioning: mpi::amg moves the rows of the coarse
                          matrix to other ranks but leaves the coarse near-null space where it was.
    Returns (kind, deep): deep = the hierarchy may have a second coarsening step (no max_levels=2)."""
    op = line.split(" ", 2)[1]
    if op not in ("pmis", "solve"): return None
    bs, K = ns_config(line)
    if K == 0: return None
    head = line.split(" -- ", 1)[0]
    if op == "solve":
        deep = "precond.max_levels=2" not in head
        if bs >= 2: return ("coarse-block_size", deep) if deep else None
        if K >= 2: return ("small-aggregates", deep)
        if "precond.repart.enable=true" in head and deep: return ("not-repartitioned", deep)
    return None

def fragile(line):
    """configurations that regularly run into a known finding which corrupts memory / hangs: own mpirun each"""
    kc = known_config(line)
    return kc is not None and kc[1]


def owner_neighbours(P, parts, na):
    """max over the ranks of the number of OTHER ranks that have rows in the rank's aggregates"""
    n, m, rows = P
    rank_of_row = [k for k, w in enumerate(parts) for _ in range(w)]
    cb = [0]
    for w in na: cb.append(cb[-1] + w)
    def owner(col):
        for k in range(len(na)):
            if cb[k] <= col < cb[k + 1]: return k
        return -1
    contrib = {}
    for i, rw in enumerate(rows):
        if not rw: continue
        o = owner(rw[0][0])
        if o != rank_of_row[i]: contrib.setdefault(o, set()).add(rank_of_row[i])
    return max([len(v) for v in contrib.values()] + [0])


def ns_stat(ctx, key, k=1):
    ctx["stats"]["by_op"][key] = ctx["stats"]["by_op"].get(key, 0) + k


def check_pmis(line, out, np_, olines, fails, ctx):
    c = Cfg(line)
    def fail(what, **kw):
        fails.append(dict(kind="counterexample", case=line, impl=(out or "")[:4000], model=None, op=c.op, size=len(line), np=np_,
                          oracle=dict(op=what, **kw), theorem="C12 %s (%d ranks)" % (what, np_)))
    if out is None or out.startswith("CRASH"): return fail("terminates on all ranks (no hang / crash)", got=out)
    per = out.split(" ; ")
    if len(per) != np_ or any(p.startswith("EXC") for p in per): return fail("no exception on any rank", got=[p[:200] for p in per])
    ms = [PMIS_RE.match(p) for p in per]
    if not all(ms) or any(w in p for p in per for w in ("nan", "inf")): return fail("well-formed finite report", got=[p[:120] for p in per])
    K = c.K; bs = int(c.kv.get("block_size", "1")); eps = F(c.kv.get("eps_strong", "2/25"))
    na = [int(m.group(1)) for m in ms]
    try:
        P = assemble([m.group(2) for m in ms]); S = assemble([m.group(4) for m in ms])
        N = assemble([m.group(3) for m in ms]) if K else None
    except Exception as e: return fail("strips assemble", got=str(e))
    ctx["stats"]["oracle_checks"] += 1
    if P[0] != c.n or P[1] != sum(na): return fail("P_tent has one row per unknown and the ranks' aggregates as columns", got=(P[0], P[1], na))
    if K and [int(m.group(3)[1:].split(" ", 1)[0]) for m in ms] != na:
        return fail("every rank holds the coarse near-null space of its own aggregates", got=na)
    # evidence: how many cases had an aggregate owner with members from >= 2 (>= 3) other ranks
    mx = owner_neighbours(P, c.parts, na)
    if K >= 2:
        cnt = {}
        for rw in P[2]:
            if rw: cnt[rw[0][0] // K] = cnt.get(rw[0][0] // K, 0) + 1
        if any(v < K for v in cnt.values()): ns_stat(ctx, "pmis_cases_with_aggregate_smaller_than_cols")
    if K >= 2 and mx >= 2: ns_stat(ctx, "ns_cases_cols>=2_owner_with>=2_contributing_ranks")
    if K >= 2 and mx >= 3: ns_stat(ctx, "ns_cases_cols>=2_owner_with>=3_contributing_ranks")
    if mx >= 2: ns_stat(ctx, "pmis_cases_owner_with>=2_contributing_ranks")
    tokP = crs_tok(*P); tokA = c.A
    if K:
        tokB = crs_tok(c.n, K, [[(k, c.B[i * K + k]) for k in range(K)] for i in range(c.n)])
        scaleB = max([abs(v) for v in c.B] + [F(1)])
        olines.append(("aggregates partition the unknowns (whole non-empty aggregates of nullspace.cols columns)",
                       "%s.pa o.nspart %d %s" % (c.cid, K, tokP)))
        olines.append(("near-null space reproduced: P_tent B_coarse = B on every aggregated row",
                       "%s.nr o.nsrepro %s %s %s %s" % (c.cid, tokP, crs_tok(*N), tokB, fmt_q(scaleB / 10**9))))
        olines.append(("orthonormal columns of P_tent", "%s.no o.nsortho %d %s %s" % (c.cid, K, tokP, fmt_q(F(1, 10**9)))))
    else:
        olines.append(("aggregates partition the unknowns (no empty aggregate, one unit entry per aggregated row)",
                       "%s.pa o.partition %s" % (c.cid, tokP)))
    symmetric = all((i, v) in dict.fromkeys(c.rows[j]) for i, rw in enumerate(c.rows) for j, v in rw)
    if bs == 1 and K == 0:
        # C12-B: the PMIS model of Pmis.v (extracted) must give the same aggregate of every unknown, the same
        # number of aggregates on every rank and the same strength pattern
        eps2 = F(float(eps) * float(eps))               # eps_strong * eps_strong as computed at double
        want = "na=[%s] col=[%s] conn={%d %d%s}" % (" ".join(str(a) for a in na),
                " ".join(str(rw[0][0]) if rw else "-1" for rw in P[2]), S[0], S[1],
                "".join(" |" + "".join(" %d" % col for col, _ in sorted(rw)) for rw in S[2]))
        ctx.setdefault("c12_model", []).append((c.cid, "%s.m m.pmis %s %s %s" % (c.cid, tokA, fmt_ivec(c.parts), fmt_q(eps2)), want, line, out))
        if not symmetric:     # evidence: does the "drop empty aggregates" renumbering do anything in this case?
            ctx.setdefault("c12_drop", []).append("%s.d m.pmisdrop %s %s %s" % (c.cid, tokA, fmt_ivec(c.parts), fmt_q(eps2)))
    if bs == 1 and symmetric:
        olines.append(("every non-isolated unknown is aggregated, every isolated one is left out",
                       "%s.is o.isolated %s %s %s" % (c.cid, tokA, tokP, fmt_q(eps * eps))))
    elif bs == 1:
        # structurally non-symmetric strength: an unknown without outgoing strong connection may still be taken by a
        # neighbouring root; only "strong connection => aggregated" is demanded
        ctx["stats"]["oracle_checks"] += 1
        dia = [dict(rw).get(i, F(0)) for i, rw in enumerate(c.rows)]
        for i, rw in enumerate(c.rows):
            if any(j != i and eps * eps * dia[i] * dia[j] < v * v for j, v in rw) and not P[2][i]:
                fail("every non-isolated unknown is aggregated", row=i); break
    else:
        olines.append(("the unknowns of one point are in the same aggregate",
                       "%s.br o.blockrows %d %d %s" % (c.cid, K or bs, bs, tokP)))
        # a point is left out exactly when its rows have no strong connection (pattern of pmis::conn) to another point
        ctx["stats"]["oracle_checks"] += 1
        for ip in range(c.n // bs):
            conn = any(col // bs != ip for k in range(bs) for col, _ in S[2][ip * bs + k])
            agg = any(P[2][ip * bs + k] for k in range(bs))
            if conn != agg:
                fail("every non-isolated point is aggregated, every isolated one is left out", point=ip); break


def check_direct(line, out, np_, olines, fails, ctx):
    c = Cfg(line)
    def fail(what, **kw):
        fails.append(dict(kind="counterexample", case=line, impl=(out or "")[:2000], model=None, op=c.op, size=len(line), np=np_,
                          oracle=dict(op=what, **kw), theorem="C12 %s (%d ranks)" % (what, np_)))
    if out is None or out.startswith("CRASH"): return fail("terminates on all ranks (no hang / crash)", got=out)
    per = out.split(" ; ")
    if len(per) != np_ or any(p.startswith("EXC") for p in per): return fail("no exception on any rank", got=[p[:200] for p in per])
    x1 = []; x2 = []
    for p in per:
        m = re.match(r"^x=(\[[^\]]*\]) again x=(\[[^\]]*\])$", p)
        if not m or "nan" in p or "inf" in p: return fail("well-formed finite report", got=p[:200])
        x1 += parse_out_vec(m.group(1)); x2 += parse_out_vec(m.group(2))
    ctx["stats"]["oracle_checks"] += 1
    if x1 != x2: return fail("direct solver object is reusable (same result twice)")
    scale = max([abs(v) for v in c.f] + [F(1)])
    olines.append(("distributed direct solver returns the solution of the gathered system",
                   "%s.d o.solves %s %s %s %s" % (c.cid, c.A, fmt_vec(c.f), fmt_vec(x1), fmt_q(scale / 10**9))))


def probe_of(line):
    """solve case with >= 2 near-null-space vectors -> the `pmis` case with the same matrix, partition, near-null space and
    strength threshold: the aggregation of the FIRST coarsening step, run on its own.  Tells (from the implementation's
    own P_tent) whether an aggregate has fewer unknowns than near-null-space vectors (known finding small-aggregates)
    before the solve case is run -- that one may hang when the coarse operator is singular."""
    if line.split(" ", 2)[1] != "solve": return None
    bs, K = ns_config(line)
    if K < 2 or bs != 1: return None
    c = Cfg(line)
    eps = fmt_q(F(c.kv.get("precond.coarsening.aggr.eps_strong", "0.08")))
    return "%sq pmis eps_strong=%s block_size=1 -- %s %s %d %s" % (c.cid, eps, c.A, fmt_ivec(c.parts), K, fmt_vec(c.B))

def has_small_aggregate(out, K):
    """from the report of a pmis case: is there an aggregate with fewer rows than K (None: no usable report)"""
    try:
        ms = [PMIS_RE.match(p) for p in out.split(" ; ")]
        P = assemble([m.group(2) for m in ms])
        cnt = {}
        for rw in P[2]:
            if rw: cnt[rw[0][0] // K] = cnt.get(rw[0][0] // K, 0) + 1
        return any(v < K for v in cnt.values())
    except Exception:
        return None


def run(ctx, cases_override=None):
    import threading
    lines = list(cases_override or cases(ctx["tier"], ctx["seed"]))
    lines += [q for q in (probe_of(l) for l in lines) if q]
    fails = []
    groups = {}; sdd_groups = {}
    # the subdomain-deflation cases (op sdd) run on their own driver drv_mpi_sdd
    for l in lines: (sdd_groups if c12_sdd.is_sdd(l) else groups).setdefault(np_of(l), []).append(l)
    for n in sdd_groups: groups.setdefault(n, [])
    by_id = {l.split(" ", 1)[0]: l for l in lines}
    small = ctx.setdefault("c12_small", {})
    frag = {}
    # the rank-count groups run concurrently (each: a few mpirun shards, every one under timeout)
    impls = {}
    def work(np_):
        exe = ctx["cpp"]["mpi_solve"]; env = {"OMP_NUM_THREADS": "1"}
        def go(ls):
            if not ls: return
            shards = max(1, min(3 if np_ <= 4 else 1, len(ls) // 8))
            impls[np_].update(run_mpi(ctx, exe, ls, np_, MPIRUN, shards=shards, timeout=TIMEOUT, env=env))
        def go_single(ls):
            # cases that run into a known finding which corrupts the heap / hangs: one mpirun each, so that a crash cannot
            # take other cases with it; short timeout, no retry
            if ls: impls[np_].update(run_mpi(ctx, exe, ls, np_, MPIRUN, shards=len(ls), timeout=10, env=env, retries=0))
        impls[np_] = {}
        is_pmis = lambda l: l.split(" ", 2)[1] == "pmis"
        # phase 1: the aggregation on its own (incl. the probes of the solve cases)
        go([l for l in groups[np_] if is_pmis(l) and not fragile(l)])
        go_single([l for l in groups[np_] if is_pmis(l) and fragile(l)])
        for l in groups[np_]:
            cid = l.split(" ", 1)[0]
            if is_pmis(l) and cid.endswith("q"): small[cid[:-1]] = has_small_aggregate(impls[np_].get(cid) or "", ns_config(l)[1])
        # phase 2: everything else; fragile = configuration of a known finding, or a small aggregate seen by the probe
        fr = set(l.split(" ", 1)[0] for l in groups[np_] if not is_pmis(l) and (fragile(l) or small.get(l.split(" ", 1)[0])))
        frag[np_] = fr | set(l.split(" ", 1)[0] for l in groups[np_] if is_pmis(l) and fragile(l))
        go([l for l in groups[np_] if not is_pmis(l) and l.split(" ", 1)[0] not in fr])
        go_single([l for l in groups[np_] if not is_pmis(l) and l.split(" ", 1)[0] in fr])
        c12_sdd.run_mpi_cases(ctx, sdd_groups.get(np_, []), np_, impls[np_], run_mpi, MPIRUN, TIMEOUT)
    order = sorted(groups)
    batches = [[n for n in order if n <= 4], [n for n in order if 4 < n <= 6], [n for n in order if n > 6]]
    if sum(len(groups[n]) for n in order if n > 4) < 300: batches = [batches[0], batches[1] + batches[2]]
    import time, os, sys
    t0 = time.time()
    def tick(what):
        if os.environ.get("VERIF_DEBUG"): sys.stderr.write("C12 %-28s %6.1fs\n" % (what, time.time() - t0))
    for batch in batches:
        ths = [threading.Thread(target=work, args=(n,)) for n in batch]
        for t in ths: t.start()
        for t in ths: t.join()
        tick("mpi batch %s" % batch)
    for np_ in order:
        ls = groups[np_] + sdd_groups.get(np_, []); impl = impls[np_]
        account(ctx, ls, impl, nontrivial=lambda op, p, o: bool(o) and not o.startswith(("CRASH", "EXC")) and "EXC" not in o)
        frag_ids = frag[np_]
        crashed = any((v or "").startswith("CRASH") for k, v in impl.items() if k not in frag_ids)
        olines = []
        for l in ls:
            cid, op = l.split(" ", 2)[:2]
            o = impl.get(cid)
            if o is None and crashed and cid not in frag_ids: continue   # not run: an earlier case of its shard hung / crashed
            try:
                if op in ("sa", "bsa"): c12_sa.check_sa(l, o, np_, fails, ctx)
                elif op in ("relax", "brelax"): c12_relax.check_relax(l, o, np_, fails, ctx)
                elif op == "sdd": c12_sdd.check_sdd(l, o, np_, fails, ctx, lambda key: ns_stat(ctx, key))
                else: {"solve": check_solve, "pmis": check_pmis, "direct": check_direct, "bsolve": check_bsolve, "bdirect": check_bdirect}[op](l, o, np_, olines, fails, ctx)
            except Exception as e:
                fails.append(dict(kind="counterexample", case=l, impl=(o or "")[:3000], model=None, op=op, size=len(l), np=np_,
                                  oracle=dict(op="well-formed report", error=repr(e)[:300]),
                                  theorem="C12 well-formed report on every rank (%d ranks)" % np_))
        tick("checks np=%d" % np_)
        # second stage: exact oracles evaluated by the extracted Coq specification functions
        what = {ol.split(" ", 1)[0]: w for w, ol in olines}
        f2 = oracle_run(ctx, [ol for _, ol in olines], "C12 oracle", lambda oid: oid)
        tick("oracles np=%d (%d)" % (np_, len(olines)))
        for x in f2:
            oid = x["oracle"]["line"].split(" ", 1)[0]
            x["theorem"] = "C12 %s (%d ranks)" % (what.get(oid, "oracle"), np_)
            x["np"] = np_
            x["oracle"]["op"] = what.get(oid, x["oracle"].get("op"))
            x["oracle"]["line"] = x["oracle"]["line"][:600]
            cid = ".".join(oid.split(".")[:2])
            x["case"] = by_id.get(cid, x["case"])
            x["size"] = len(x["case"])
            x["impl"] = (impl.get(cid) or "")[:3000]
        fails += f2
        # third stage: the extracted PMIS model on the same inputs
        dl = ctx.pop("c12_drop", [])
        if dl:
            res = ctx["run_driver"](ctx["model"], dl)
            k = sum(1 for v in res.values() if v.strip().isdigit() and int(v) > 0)
            if k: ns_stat(ctx, "pmis_model_tie_cases_where_renumbering_drops_an_empty_aggregate", k)
        ml = ctx.pop("c12_model", [])
        if ml:
            ns_stat(ctx, "pmis_model_tie_cases", len(ml))
            res = ctx["run_driver"](ctx["model"], [m[1] for m in ml])
            tick("model np=%d (%d)" % (np_, len(ml)))
            for cid, mline, want, l, o in ml:
                ctx["stats"]["oracle_checks"] += 1
                got = res.get(cid + ".m")
                if got != want:
                    ctx["stats"]["mismatches"] += 1
                    fails.append(dict(kind="counterexample", case=l, impl=want[:3000], model=(got or "")[:3000], op="pmis", size=len(l), np=np_,
                                      oracle=dict(op="PMIS model (Pmis.v) = implementation: aggregates, counts, strength pattern"),
                                      theorem="C12-B PMIS model vs pmis.hpp (%d ranks)" % np_))
        # fourth stage: the extracted model of the distributed smoothed aggregation (DistSa.v) on the sa / bsa cases
        c12_sa.finish_sa(ctx, np_, fails, lambda key: ns_stat(ctx, key))
        tick("sa model np=%d" % np_)
        # fifth stage: the extracted model of the smoothers under MPI (DistRelax.v) on the relax / brelax cases
        c12_relax.finish_relax(ctx, np_, fails, lambda key: ns_stat(ctx, key))
        tick("relax model np=%d" % np_)
    return fails


KNOWN_SITES = {
    "coarse-block_size": dict(site="mpi-coarsening", defect="block_size-kept-on-coarse-levels-with-nullspace"),
    "small-aggregates":  dict(site="mpi-pmis", defect="aggregate-smaller-than-nullspace-cols"),
    "not-repartitioned": dict(site="mpi-amg-step_down", defect="coarse-nullspace-not-repartitioned"),
}
RUN_LEVEL_CHECKS = ("terminates on all ranks", "no exception on any rank", "finite solution on every rank", "well-formed",
                    "convergence on an SPD M-matrix")

def fail_level(fail):
    """level of the hierarchy a failed check is about (None: the run as a whole)"""
    o = fail.get("oracle") or {}
    if "level" in o: return o["level"]
    m = re.match(r"^p\d+\.\d+\.l(\d+)\.", o.get("line") or "")
    return int(m.group(1)) if m else None

def classify(fail):
    """known findings:
    * mpi::relaxation::gauss_seidel sweeps over the local block only (amg smoother on >= 2 non-empty ranks) ->
      convergence failures with that smoother, and only those;
    * three defects of the near-null space handling (see known_config): in the configurations that reach them, a crash /
      hang / non-finite or non-converged solve, and failed hierarchy checks -- for coarse-blocks and not-repartitioned only
      those of the SECOND and later coarsening steps (the first one does not depend on the defect)"""
    o = fail.get("oracle") or {}
    if fail.get("op") == "sdd": return c12_sdd.classify(fail)
    try:
        if fail.get("op") == "solve" and o.get("op") == "convergence on an SPD M-matrix":
            c = Cfg(fail["case"])
            if (c.kv.get("precond.class") == "amg" and c.kv.get("precond.relax.type") == "gauss_seidel"
                    and sum(1 for p in c.parts if p > 0) >= 2):
                return dict(site="mpi-relaxation-gauss_seidel", defect="smoother-ignores-remote-part", check="convergence")
        kc = known_config(fail.get("case") or "x x")
        if kc:
            kind, deep = kc
            what = o.get("op") or ""
            lvl = fail_level(fail)
            runlevel = lvl is None and what.startswith(RUN_LEVEL_CHECKS)
            if kind == "small-aggregates" and not deep:
                # one coarsening step only: known only if the implementation's own P_tent shows such an aggregate
                if runlevel and o.get("small_aggregate"): return dict(KNOWN_SITES[kind], check="run")
            elif runlevel or (lvl is not None and lvl >= 1):
                return dict(KNOWN_SITES[kind], check="run" if runlevel else "hierarchy")
    except Exception:
        pass
    return {}
