"""C04 -- interpolation is exact on the near-null space; aggregates partition the grid.

Stage 1 (correspondence, exact arithmetic): plain/pointwise aggregates, aggregation,
smoothed aggregation (2/3 and Gershgorin omega, two successive levels), Ruge-Stuben
(C/F split, direct interpolation with/without truncation) -- real templates at vq::Q versus
the extracted Coq model, byte for byte.
Stage 2 (derived from the implementation's outputs): tentative prolongation, coarse
operators, and the specification oracles (partition property, P_tent structure, dense
SA formula, row sums, R = transpose P, lifting for A (x) I_b, P_tent B_c = B in double).
"""
import random, itertools, os
from fractions import Fraction as F
from vcheck import fmt_q, fmt_vec, fmt_crs, fmt_ivec, split_top, parse_out_crs
import gen
from props.common import diff_run, oracle_run, account

DRIVERS = ["coarsen"]
MODEL = "coarsen"
ASSUMPTIONS = [
    "the coarsening templates instantiated with the exact rational vq::Q execute the same code as with double",
    "float/double parameters (eps_strong, relax, over_interp, eps_trunc) are fed as exactly representable values; "
    "the float expressions the code evaluates on them (eps_strong*eps_strong, 1/over_interp, eps_strong*=0.5, "
    "static_cast<scalar>(2.0/3)) are recomputed by the generator and checked by the C++ driver (GLUE-MISMATCH otherwise)",
    "near-null-space variant of tentative_prolongation: the code runs QR<double> whatever the value type, so the tie uses the "
    "double build: byte-identical outputs (model TentativeQr.v at the exact rationals vs code) on the 'dyadic exact' family on "
    "which no binary64 operation rounds (every reflector has tau = 1 or 0); on the perfect-square family (rational orthogonal "
    "Q0, dyadic diag R0: model roots exact) and on random B agreement within 1e-9 entry by entry, column signs free only where "
    "the model met an exact zero test (tau in {0,1}); oracles P B_c = B, P^T P = I, B_c blocks upper triangular on all of them",
    "the exact comparison of storage order is run with 1, 2, 3 and 5 OpenMP threads (identical outputs required); product() "
    "switches to spgemm_rmerge above 16 threads (C08/C09)",
    "spectral_radius (Gershgorin) and product models are those of coq/MatOps2.v (matops group); pointwise_matrix is modelled in Aggregates.v (pwm) and cross-checked against MatOps2.pointwise_matrix (oracle o.pwm_agree)",
]
TRUSTED_BASE = [
    "harness/drv_coarsen.cpp replaces global operator new by a filling allocator so that the uninitialised "
    "S.val of ruge_stuben::connect is a controlled input; connect/cfsplit are reached with '#define private public'",
]
RULE = ("cases derived from VERIF_SEED by tools/props/C04.py (exhaustive small digraphs x value palette + random); "
        "distinct = distinct case payload; non-trivial = implementation output contains a non-zero value and is not an exception")

C23 = gen.f64(F(2, 3)); C43 = gen.f64(F(4, 3))
EPS = [gen.f32(F(8, 100)), F(1, 4), F(1, 2), F(0), F(1), gen.f32(F(1, 10)), F(1, 8)]
EPS_RS = [F(1, 4), F(1, 2), gen.f32(F(1, 10)), F(1), F(0), F(3, 4)]
RELAX = [F(1), F(1, 2), gen.f32(F(9, 10)), F(3, 2)]
OI = [F(3, 2), F(2), F(1), gen.f32(F(11, 10))]
ETR = [gen.f32(F(1, 5)), F(1, 2), F(1, 4), F(0), F(1), F(1, 2), F(1, 4)]


def A_str(rows, m=None):
    n = len(rows)
    return fmt_crs(n, n if m is None else m, rows)


class Builder:
    def __init__(self):
        self.lines = []; self.k = 0
    def add(self, op, payload):
        self.lines.append("c%d %s %s" % (self.k, op, payload)); self.k += 1


def scalar_ops(b, r, rows, full=True):
    A = A_str(rows)
    eps = r.choice(EPS); e2 = gen.f32_mul(eps, eps)
    relax = r.choice(RELAX)
    pe = " ".join([A, fmt_q(eps), fmt_q(e2)])
    b.add("plain_aggregates", pe)
    b.add("sa", " ".join([pe, "1", fmt_q(relax), fmt_q(C23)]))
    er = r.choice(EPS_RS); dt = r.choice([0, 1]); et = r.choice(ETR)
    b.add("rs", " ".join([A, fmt_q(er), str(dt), fmt_q(et), "0"]))
    b.add("rs_cf", " ".join([A, fmt_q(er), "0"]))
    if not full and r.random() < 0.3: b.add("emin", " ".join([pe, "1"]))
    if full:
        b.add("pointwise_aggregates", " ".join([pe, "1", str(r.choice([0, 0, 2, 3]))]))
        b.add("aggregation", " ".join([pe, "1"]))
        b.add("emin", " ".join([pe, "1"]))
        if r.random() < 0.2:
            eh = gen.f32(eps / 2); b.add("emin2", " ".join([pe, fmt_q(gen.f32_mul(eh, eh))]))
        if r.random() < 0.4:
            b.add("sa_gersh", " ".join([pe, "1", fmt_q(relax), fmt_q(C43)]))
        if r.random() < 0.3:
            eh = gen.f32(eps / 2); e2n = gen.f32_mul(eh, eh)
            b.add("sa2", " ".join([pe, fmt_q(e2n), fmt_q(relax), fmt_q(C23)]))
        b.add("rs", " ".join([A, fmt_q(er), str(1 - dt), fmt_q(et), "0"]))


def block_ops(b, r, rows, bs, ncols=None):
    A = A_str(rows, ncols)
    eps = r.choice(EPS); e2 = gen.f32_mul(eps, eps); relax = r.choice(RELAX)
    pe = " ".join([A, fmt_q(eps), fmt_q(e2)])
    b.add("pointwise_aggregates", " ".join([pe, str(bs), str(r.choice([0, 0, 2, 3, 5]))]))
    b.add("aggregation", " ".join([pe, str(bs)]))
    b.add("sa", " ".join([pe, str(bs), fmt_q(relax), fmt_q(C23)]))
    b.add("emin", " ".join([pe, str(bs)]))


def kron_ops(b, r, rows, bs):
    A = A_str(rows)
    eps = r.choice(EPS); e2 = gen.f32_mul(eps, eps); relax = r.choice(RELAX)
    pe = " ".join([A, fmt_q(eps), fmt_q(e2)])
    b.add("kron_pointwise", " ".join([pe, str(bs)]))
    b.add("kron_sa", " ".join([pe, str(bs), fmt_q(relax), fmt_q(C23)]))
    # the same Kronecker matrix through the faithful (as-coded) model
    K = A_str(gen.kron_id(rows, bs))
    pk = " ".join([K, fmt_q(eps), fmt_q(e2)])
    b.add("pointwise_aggregates", " ".join([pk, str(bs), "0"]))
    b.add("sa", " ".join([pk, str(bs), fmt_q(relax), fmt_q(C23)]))


def ns_ops(b, r, quick):
    """near-null-space variant (double build): random aggregates with enough members"""
    bs = r.choice([1, 1, 2]); cols = r.choice([1, 2, 3])
    nba = r.randint(1, 4)
    pid = []
    for a in range(nba): pid += [a] * (r.randint(max(1, -(-cols // bs)), 4))
    pid += [-2] * r.randint(0, 2)
    r.shuffle(pid)
    ids = []
    for p in pid:
        for k in range(bs): ids.append(bs * p + k)
    n = len(ids)
    B = [F(r.randint(-8, 8), r.choice([1, 2, 4])) for _ in range(n * cols)]
    if cols >= 1:
        for i in range(n): B[i * cols] = F(1)            # constant vector first
    b.add("d.tentative_ns", " ".join([str(n), str(nba * bs), fmt_ivec(ids), str(bs), str(cols), fmt_vec(B)]))


def _dy(r, lo=-8, hi=8, dens=(1, 2, 4)): return F(r.randint(lo, hi), r.choice(dens))

def exact_block(r, d, cols):
    """d x cols block on which the Householder QR of qr.hpp runs WITHOUT ROUNDING in binary64 (and with exact
    pseudo-roots in the model): B = H_0 ... H_{k-1} R0 with H_i = I - v v', v = e_i + v', |v'| = 1, v' dyadic and
    supported on rows > i (then alpha = 0, beta = R0_ii = -2^e, tau = 1, 1/(alpha - beta) a power of two), or
    H_i = I (x = 0, tau = 0, R0_ii any dyadic incl. 0); R0 upper triangular with small dyadic entries.
    These are the only reflectors with dyadic tau, 1/(alpha-beta) and v (1 <= tau <= 2, tau = 2/(1+|v'|^2))."""
    k = min(d, cols)
    R = [[F(0)] * cols for _ in range(d)]
    Hs = []
    for i in range(k):
        below = list(range(i + 1, d))
        kinds = ["id"]
        if len(below) >= 1: kinds += ["unit", "unit", "unit"]
        if len(below) >= 4: kinds += ["had", "had", "had"]
        kind = r.choice(kinds)
        if kind == "id":
            Hs.append(None)
            R[i][i] = r.choice([F(0), _dy(r), _dy(r), _dy(r)])
        else:
            v = [F(0)] * d
            if kind == "unit": v[r.choice(below)] = F(r.choice([1, -1]))
            else:
                for p_ in r.sample(below, 4): v[p_] = F(r.choice([1, -1]), 2)
            v[i] = F(1)
            Hs.append(v)
            R[i][i] = -(F(2) ** r.randint(-2, 3))
        for j in range(i + 1, cols): R[i][j] = _dy(r)
    B = R
    for v in reversed(Hs):
        if v is None: continue
        w = [sum(v[l] * B[l][j] for l in range(d)) for j in range(cols)]
        B = [[B[l][j] - v[l] * w[j] for j in range(cols)] for l in range(d)]
    return B

def _rat_orth(r, m):
    """rational orthogonal m x m matrix (rational Householder reflections and a signed permutation)"""
    q = [[F(1) if i == j else F(0) for j in range(m)] for i in range(m)]
    for _ in range(r.choice([1, 1, 2])):
        u = [F(r.randint(-2, 2)) for _ in range(m)]
        uu = sum(x * x for x in u)
        if uu == 0: continue
        q = [[q[i][j] - sum(q[i][l] * u[l] for l in range(m)) * 2 * u[j] / uu for j in range(m)] for i in range(m)]
    perm = list(range(m)); r.shuffle(perm)
    sg = [r.choice([1, -1]) for _ in range(m)]
    return [[q[i][perm[j]] * sg[j] for j in range(m)] for i in range(m)]

def square_block(r, d, cols):
    """B = Q0 R0, Q0 rational orthogonal, R0 upper trapezoidal with non-zero dyadic diagonal: every norm the QR meets is
    |R0_ii| (uniqueness of QR), so the pseudo-root of the model is exact; binary64 rounds (family of C16)"""
    R = [[F(0)] * cols for _ in range(d)]
    for i in range(min(d, cols)):
        R[i][i] = F(r.choice([1, 2, 3, 5, -1, -2, -3, 7]), r.choice([1, 1, 2, 4]))
        for j in range(i + 1, cols): R[i][j] = F(r.randint(-4, 4), r.choice([1, 1, 2, 3]))
    q0 = _rat_orth(r, d)
    return [[sum(q0[i][l] * R[l][j] for l in range(d)) for j in range(cols)] for i in range(d)]

def _rank(M):
    M = [row[:] for row in M]; rk = 0
    for c in range(len(M[0]) if M else 0):
        piv = next((i for i in range(rk, len(M)) if M[i][c] != 0), None)
        if piv is None: continue
        M[rk], M[piv] = M[piv], M[rk]
        for i in range(rk + 1, len(M)):
            f = M[i][c] / M[rk][c]
            M[i] = [x - f * y for x, y in zip(M[i], M[rk])]
        rk += 1
    return rk

def random_block(r, d, cols):
    """random dyadic block of full column rank, constant vector first (a rank-deficient block has no unique QR up to
    signs: binary64 and exact arithmetic legitimately complete the basis differently; those are left to the oracles)"""
    for _ in range(50):
        B = [[F(1) if j == 0 else _dy(r) for j in range(cols)] for i in range(d)]
        if _rank(B) == min(d, cols): return B
    return [[F(1) if i == j else F(0) for j in range(cols)] for i in range(d)]

def ns_case(r, block_fn, big=False):
    """one d.tentative_ns line: random block aggregates with at least [cols] rows each, removed rows in between"""
    bs = r.choice([1, 1, 2]); cols = r.choice([1, 2, 3])
    nba = r.randint(1, 4)
    lo = max(1, -(-cols // bs)); hi = (6 if bs == 1 else 3) + (2 if big else 0)
    pid = []
    for a in range(nba): pid += [a] * r.randint(lo, max(lo, hi))
    pid += [-2] * r.randint(0, 2)
    r.shuffle(pid)
    ids = []
    for p_ in pid:
        for k in range(bs): ids.append(bs * p_ + k if p_ >= 0 else -2)
    n = len(ids)
    B = [[_dy(r) for _ in range(cols)] for _ in range(n)]
    for a in range(nba):
        mem = [k for k in range(n) if ids[k] >= 0 and ids[k] // bs == a]
        blk = block_fn(r, len(mem), cols)
        for jj, k in enumerate(mem): B[k] = blk[jj]
    flat = [x for row in B for x in row]
    return " ".join([str(n), str(nba * bs), fmt_ivec(ids), str(bs), str(cols), fmt_vec(flat)])


def diag_mode(mode, r):
    if mode == "two": return lambda i, row: F(2)
    if mode == "zrs": return lambda i, row: (-sum(row.values()) if sum(row.values()) != 0 else F(1))
    def rnd(i, row):
        k = r.random()
        if k < 0.15: return None
        if k < 0.25: return F(0)
        return F(r.choice([1, 2, 3, -1, 4]), r.choice([1, 1, 2]))
    return rnd


def cases(tier, seed):
    r = random.Random(seed * 1000 + 4)
    quick = (tier == "quick")
    b = Builder()
    # --- exhaustive: all directed graphs on <= 3 nodes x value palette (x 3 diagonal modes)
    pal3 = [F(-1), F(1, 2), F(-1, 4)]
    for n in (1, 2, 3):
        for mode in ("two", "zrs", "rnd"):
            for rows in gen.digraph_matrices(n, pal3, diag_mode(mode, r)):
                if quick and n == 3 and r.random() < 0.8: continue
                scalar_ops(b, r, rows, full=(r.random() < 0.1))
    # --- thorough: all directed graphs on 4 nodes (patterns exhaustive; values: M-matrix palette
    #     exhaustive for the single value -1, plus random palette assignments)
    if not quick:
        for adj in gen.digraph_patterns(4):
            for variant in range(3):
                rows = []
                for i in range(4):
                    rw = {j: (F(-1) if variant == 0 else r.choice([F(-1), F(1, 2), F(-1, 4), F(-2), F(1)])) for j in adj[i]}
                    d = [F(2), -sum(rw.values()) or F(1), r.choice([None, F(0), F(1), F(3)])][variant]
                    if d is not None: rw[i] = d
                    rows.append(sorted(rw.items()))
                scalar_ops(b, r, rows, full=(r.random() < 0.05))
    # --- random larger matrices
    nmax = 30 if quick else 80
    nrand = 60 if quick else 500
    for it in range(nrand):
        n = r.randint(2, nmax if it % 3 == 0 else 14)
        kind = r.choice(["spd", "spd", "spdx", "nonsym", "rcrs", "posrows", "zrs", "zrspos", "aniso", "aniso"])
        if kind == "spd": rows = gen.spd_mmatrix(r, n)
        elif kind == "spdx": rows = gen.spd_mmatrix(r, n, extra_diag=F(0))
        elif kind == "nonsym": rows = gen.nonsym_dd(r, n, density=r.choice([0.1, 0.3, 0.5]))
        elif kind == "rcrs": rows = gen.rcrs(r, n, n, dups=False, sorted_rows=(r.random() < 0.5))
        elif kind == "zrs": rows = gen.sym_zero_rowsum(r, n)
        elif kind == "aniso": rows = gen.sym_zero_rowsum(r, n, weights=[F(1), F(4), F(1, 8), F(1, 16), F(3), F(1, 3)], extra=0.5)
        elif kind == "zrspos": rows = gen.sym_zero_rowsum(r, n, positive=0.3)
        else:
            rows = gen.spd_mmatrix(r, n)
            for i in r.sample(range(n), max(1, n // 4)):       # rows with only positive off-diagonals
                rows[i] = [(c, (abs(v) if c != i else v)) for c, v in rows[i]]
            for i in r.sample(range(n), max(1, n // 6)):       # diagonal-only rows
                rows[i] = [(c, v) for c, v in rows[i] if c == i]
        if r.random() < 0.3: rows = gen.shuffle_rows(r, rows)
        scalar_ops(b, r, rows, full=True)
    # larger sparse graphs for the C/F splitting (lambda bookkeeping), RS only
    for it in range(40 if quick else 300):
        n = r.randint(15, 40 if quick else 80)
        rows = gen.spd_mmatrix(r, n, kind=r.choice(["graph", "grid", "graph"]))
        if r.random() < 0.5: rows = gen.nonsym_dd(r, n, density=r.choice([0.08, 0.15]))
        A = A_str(rows); er = r.choice(EPS_RS); dt = r.choice([0, 1]); et = r.choice(ETR)
        b.add("rs", " ".join([A, fmt_q(er), str(dt), fmt_q(et), "0"]))
        b.add("rs_cf", " ".join([A, fmt_q(er), "0"]))
    # diagonal-only matrices -> empty_level
    for n in (1, 2, 5):
        scalar_ops(b, r, [[(i, F(2))] for i in range(n)], full=True)
    # --- block matrices / Kronecker products
    nb = 25 if quick else 200
    for it in range(nb):
        bs = r.choice([2, 3, 4])
        np_ = r.randint(1, 6 if quick else 10)
        kind = r.choice(["kron", "kron", "block", "block", "indiv"])
        if kind == "kron":
            base = r.choice([gen.spd_mmatrix(r, np_), gen.nonsym_dd(r, np_), gen.spd_mmatrix(r, np_, kind="path")])
            kron_ops(b, r, base, bs)
        elif kind == "block":
            rows = gen.block_matrix(r, np_, bs, density=r.choice([0.2, 0.5]), full=r.choice([0.3, 0.6, 1.0]))
            if r.random() < 0.3: rows = gen.shuffle_rows(r, rows)
            block_ops(b, r, rows, bs)
        else:
            n = np_ * bs + r.randint(1, bs - 1)                # precondition failure
            block_ops(b, r, gen.spd_mmatrix(r, n), bs)
    # 1-D Poisson (x) I_b : the witness of the lifting finding
    for bs in (2, 3):
        for n in (2, 3, 4, 6):
            rows = [sorted({i: F(2), **({i - 1: F(-1)} if i else {}), **({i + 1: F(-1)} if i + 1 < n else {})}.items()) for i in range(n)]
            kron_ops(b, r, rows, bs)
    # --- near-null space (double build, oracles only)
    for it in range(30 if quick else 300):
        ns_ops(b, r, quick)
    # --- near-null space, tie with the modelled QR (TentativeQr.v): e. = dyadic exact family (byte-identical),
    #     g. = perfect-square and random families (1e-9, signs free at exact zero tests only)
    for it in range(120 if quick else 1200):
        b.add("d.tentative_ns", ns_case(r, exact_block, big=(it % 3 == 0)))
        b.lines[-1] = "e" + b.lines[-1]
    for it in range(60 if quick else 600):
        b.add("d.tentative_ns", ns_case(r, square_block if it % 3 else random_block))
        b.lines[-1] = "g" + b.lines[-1]
    return b.lines


# ---------------------------------------------------------------- stage 2
def parse_aggr(out):
    it = split_top(out)
    if len(it) != 3 or not it[0].isdigit(): return None
    ids = it[1][1:-1].split(); fl = it[2][1:-1].split()
    return int(it[0]), ids, fl

def parse_tr(out):
    it = split_top(out)
    if len(it) != 2 or not it[0].startswith("{"): return None
    return it[0], it[1]

def crs_tokens(s):
    """output form '{n m | c:v ...}' -> case-line crs tokens"""
    n, m, rows = parse_out_crs(s)
    return fmt_crs(n, m, rows)

def ivec_tokens(xs): return " ".join([str(len(xs))] + list(xs))


def take_crs(tok, p):
    """skip one crs in a token list starting at p; returns (string, next p)"""
    n = int(tok[p]); q = p + 2
    for _ in range(n):
        k = int(tok[q]); q += 1 + 2 * k
    return " ".join(tok[p:q]), q


def derive(lines, impl):
    """stage-2 diff lines and oracle lines from the implementation outputs of stage 1"""
    d2 = []; orc = []; origin = {}
    for l in lines:
        cid, op, payload = (l.split(" ", 2) + [""])[:3]
        out = impl.get(cid)
        if out is None or out.startswith(("EXC", "CRASH", "GLUE", "UNSUPPORTED", "BADCRS")): continue
        tok = payload.split()
        def reg(line, o=False):
            origin[line.split(" ", 1)[0]] = l
            (orc if o else d2).append(line)
        if op in ("plain_aggregates", "pointwise_aggregates"):
            pa = parse_aggr(out)
            if not pa: continue
            count, ids, fl = pa
            A, p = take_crs(tok, 0)
            bs = int(tok[p + 2]) if op == "pointwise_aggregates" else 1
            mina = int(tok[p + 3]) if op == "pointwise_aggregates" else 0
            n = len(ids)
            if bs > 1: reg("%s.pw o.pwm_agree %s %d" % (cid, A, bs), True)
            reg("%s.t tentative %d %d %s" % (cid, n, count, ivec_tokens(ids)))
            if op == "pointwise_aggregates" and n > 0 and count % bs == 0:
                # transfer_operators() WITH a near-null space on the same matrix: nullspace.cols = min_aggregate
                # (what the policies pass), B = a "dyadic exact" block per block aggregate of the implementation's ids
                cols = max(1, mina)
                rr = random.Random("ns" + cid)
                iid = [int(x) for x in ids]
                Bm = [[_dy(rr) for _ in range(cols)] for _ in range(n)]
                for a_ in range(count // bs):
                    mem = [k for k in range(n) if iid[k] >= 0 and iid[k] // bs == a_]
                    blk = exact_block(rr, len(mem), cols)
                    for jj, k in enumerate(mem): Bm[k] = blk[jj]
                Bt = fmt_vec([x for row in Bm for x in row])
                head = " ".join([A, tok[p], tok[p + 1], str(bs), str(cols)])
                reg("%s.na ns_aggregation %s %s" % (cid, head, Bt))
                reg("%s.ns ns_sa %s %s %s %s" % (cid, head, fmt_q(rr.choice(RELAX)), fmt_q(C23), Bt))
                reg("%s.ne ns_emin %s %s" % (cid, head, Bt))
            if bs == 1 and mina <= 1:
                reg("%s.op o.partition %s %d %s %s" % (cid, A, count, ivec_tokens(ids), ivec_tokens(fl)), True)
        elif op in ("aggregation", "sa", "sa_gersh", "rs", "kron_sa", "emin"):
            pr = parse_tr(out)
            if not pr: continue
            P, R = crs_tokens(pr[0]), crs_tokens(pr[1])
            if op != "emin": reg("%s.ot o.transpose %s %s" % (cid, P, R), True)
            if op in ("kron_sa",): continue
            A, p = take_crs(tok, 0)
            if op == "aggregation":
                oi = OI[len(l) % len(OI)]
                reg("%s.co agg_coarse %s %s %s %s %s" % (cid, A, P, R, fmt_q(oi), fmt_q(gen.f32_div(1, oi))))
            else:
                reg("%s.co galerkin %s %s %s" % (cid, A, P, R))
    return d2, orc, origin


def derive_pairs(lines, impl):
    """oracles that need two implementation outputs for the same matrix:
    SA formula / row sums (aggregates + P), RS row sums (C/F split + P)"""
    orc = []; origin = {}
    by_key = {}
    for l in lines:
        cid, op, payload = (l.split(" ", 2) + [""])[:3]
        tok = payload.split()
        if op not in ("plain_aggregates", "sa", "rs", "rs_cf", "emin"): continue
        A, p = take_crs(tok, 0)
        if op == "plain_aggregates": key = ("agg", A, tok[p], tok[p + 1])
        elif op in ("sa", "emin"):
            if tok[p + 2] != "1": continue
            key = ("agg", A, tok[p], tok[p + 1])
        elif op == "rs":
            if tok[p + 3] != "0": continue
            key = ("rs", A, tok[p])
        else:
            if tok[p + 1] != "0": continue
            key = ("rs", A, tok[p])
        by_key.setdefault(key, {}).setdefault(op, []).append((cid, tok, p, l))
    for key, d in by_key.items():
        A = key[1]
        if key[0] == "agg" and "plain_aggregates" in d and ("sa" in d or "emin" in d):
            acid = d["plain_aggregates"][0][0]
            pa = parse_aggr(impl.get(acid) or "")
            if not pa: continue
            count, ids, fl = pa
            for cid, tok, p, l in d.get("emin", []):
                pr = parse_tr(impl.get(cid) or "")
                if not pr or len(ids) > 24: continue
                ln = "%s.oe o.emin_formula %s %s %d %s %s %s" % (cid, A, ivec_tokens(fl), count, ivec_tokens(ids), crs_tokens(pr[0]), crs_tokens(pr[1]))
                orc.append(ln); origin[cid + ".oe"] = l
            for cid, tok, p, l in d.get("sa", []):
                pr = parse_tr(impl.get(cid) or "")
                if not pr: continue
                P = crs_tokens(pr[0])
                omega = F(tok[p + 3]) * F(tok[p + 4])
                ln = "%s.of o.sa_formula %s %s %d %s %s %s" % (cid, A, ivec_tokens(fl), count, ivec_tokens(ids), fmt_q(omega), P)
                orc.append(ln); origin[cid + ".of"] = l
                ln = "%s.os o.sa_rowsum %s %s %s" % (cid, A, ivec_tokens(fl), P)
                orc.append(ln); origin[cid + ".os"] = l
        if key[0] == "rs" and "rs" in d and "rs_cf" in d:
            ccid = d["rs_cf"][0][0]
            it = split_top(impl.get(ccid) or "")
            if len(it) != 2 or not it[0].startswith("["): continue
            fl = it[0][1:-1].split(); cf = it[1].rstrip(".")
            for cid, tok, p, l in d["rs"]:
                pr = parse_tr(impl.get(cid) or "")
                if not pr or not cf: continue
                ln = "%s.or o.rs_rowsum %s %s %s %s %s %s" % (cid, tok[p + 1], tok[p + 2], A, ivec_tokens(fl), cf, crs_tokens(pr[0]))
                orc.append(ln); origin[cid + ".or"] = l
    return orc, origin


def _ns_cols(payload):
    """cols token of a d.tentative_ns payload: n naggr (n ids...) bs cols (B...)"""
    t = payload.split(); nid = int(t[2]); return int(t[3 + nid + 1])

def ns_close(io, mo, hz, cols, tol):
    """implementation (binary64) vs model (exact) output of d.tentative_ns: same shape and pattern, every entry of P and of
    B_coarse within tol; the sign of a column of P (with the matching row of its B_coarse block) is free only in aggregates
    where the model met an exact zero test (hz flag).  Returns None or a reason."""
    from vcheck import parse_out_vec
    try:
        pi, bi = split_top(io); pm, bm = split_top(mo)
        ni, mi, ri = parse_out_crs(pi); nm, mm, rm = parse_out_crs(pm)
        vi = parse_out_vec(bi); vm = parse_out_vec(bm)
        haz = [int(x) for x in hz.strip()[1:-1].split()]
    except Exception as e:
        return "unparsable output (%s)" % type(e).__name__
    if (ni, mi) != (nm, mm): return "shape"
    if [[c for c, _ in r] for r in ri] != [[c for c, _ in r] for r in rm]: return "pattern of P"
    if len(vi) != len(vm) or len(vi) != mi * cols: return "length of B_coarse"
    for col in range(mi):
        a = col // cols
        ei = [v for r in ri for c, v in r if c == col] + vi[col * cols:(col + 1) * cols]
        em = [v for r in rm for c, v in r if c == col] + vm[col * cols:(col + 1) * cols]
        if all(abs(x - y) <= tol for x, y in zip(ei, em)): continue
        if a < len(haz) and haz[a] and all(abs(x + y) <= tol for x, y in zip(ei, em)): continue
        return "column %d of P / row %d of B_coarse" % (col, col)
    return None


FX_OPS = ("pointwise_aggregates", "ns_aggregation", "ns_sa", "ns_emin")

def repaired(ctx):
    """1 if the tree under test has the repaired remove_small_aggregates (`if (!m) throw error::empty_level();`:
    removing EVERY aggregate is reported as empty_level instead of returning count = 0, finding
    C03-empty-coarse-level-direct-solver-crash); the model then uses TentativeQrPolicies.pointwise_aggregates_fx true"""
    try:
        src = open(os.path.join(ctx["repo"], "amgcl", "coarsening", "pointwise_aggregates.hpp")).read()
    except (OSError, KeyError):
        return 0
    return 1 if "if (!m) throw error::empty_level();" in src else 0

def with_fx(lines, fx):
    """append the repaired-tree flag token (fx0 / fx1) to the case lines of the ops whose model depends on it; the C++ driver
    ignores it.  A flag already present (replayed case) is replaced by the one of the tree under test."""
    out = []
    for l in lines:
        t = l.split(" ")
        if len(t) > 1 and t[1] in FX_OPS:
            if t[-1] in ("fx0", "fx1"): t = t[:-1]
            t.append("fx%d" % fx)
            l = " ".join(t)
        out.append(l)
    return out


ONE = {"OMP_NUM_THREADS": "1"}

def run(ctx, cases_override=None):
    fx = repaired(ctx)
    ctx["log"].append(("tree under test has the repaired remove_small_aggregates (empty_level when every aggregate is removed)", fx))
    lines = with_fx(cases_override or cases(ctx["tier"], ctx["seed"]), fx)
    fails = []
    exact = [l for l in lines if not l.split(" ", 2)[1].startswith(("d.", "o."))]
    dbl = [l for l in lines if l.split(" ", 2)[1].startswith("d.")]
    ns_e = [l for l in dbl if l.startswith("e")]          # dyadic exact family: byte-identical
    ns_g = [l for l in dbl if l.startswith("g")]          # perfect-square / random: tolerance
    # ---- stage 1
    f, impl, model = diff_run(ctx, "coarsen", exact, env=ONE)
    for x in f:
        if x["op"] in ("kron_pointwise", "kron_sa"):
            x["theorem"] = "C04_pointwise_lifting: coarsening A (x) I_b with block_size b = lifted scalar coarsening (%s)" % x["op"]
        else:
            x["theorem"] = "correspondence drv_coarsen (%s) vs Aggregates.v/Tentative.v/Coarsen.v" % x["op"]
    # lifting failures: does the faithful (as-coded) model reproduce what the implementation does on the same Kronecker matrix?
    kf = [x for x in f if x["op"] in ("kron_pointwise", "kron_sa")]
    if kf:
        probe = []
        for x in kf:
            cid, op, payload = x["case"].split(" ", 2)
            tok = payload.split(); A, p = take_crs(tok, 0)
            n, m, rows = parse_out_crs("{" + _crs_to_out(A) + "}")
            bs = int(tok[p + 2])
            K = A_str(gen.kron_id(rows, bs))
            if op == "kron_pointwise": probe.append("%s pointwise_aggregates %s %s %s %d 0" % (cid, K, tok[p], tok[p + 1], bs))
            else: probe.append("%s sa %s %s %s %d %s %s" % (cid, K, tok[p], tok[p + 1], bs, tok[p + 3], tok[p + 4]))
        faithful = ctx["run_driver"](ctx["model"], probe)
        for x in kf:
            cid = x["case"].split(" ", 1)[0]
            x["faithful_model_agrees"] = (faithful.get(cid) == x["impl"])
            x["faithful_model"] = faithful.get(cid)
    fails += f
    # ---- stage 2: derived comparisons and oracles
    d2, orc, origin = derive(exact, impl)
    d2 = with_fx(d2, fx)
    f2, impl2, model2 = diff_run(ctx, "coarsen", d2, env=ONE)
    for x in f2: x["theorem"] = "correspondence drv_coarsen (%s, on implementation-produced operators) vs model" % x["op"]
    fails += f2
    # tentative: structure oracle on the implementation's P
    for l in d2:
        cid, op, payload = l.split(" ", 2)
        if op != "tentative": continue
        out = impl2.get(cid)
        if not out or not out.startswith("{"): continue
        tok = payload.split()
        ln = "%s.o o.ptent %s %s %s" % (cid, tok[1], " ".join(tok[2:]), crs_tokens(out))
        orc.append(ln); origin[cid + ".o"] = origin[cid]
    o2, origin2 = derive_pairs(exact, impl)
    orc += o2; origin.update(origin2)
    def case_of(cid): return origin.get(cid)
    fo = oracle_run(ctx, orc, "C04 specification oracle on implementation output", case_of)
    full = {l.split(" ", 1)[0]: l for l in orc}
    for x in fo:
        for cid_, l_ in full.items():
            if l_.startswith(x["oracle"]["line"]): x["oracle_full"] = l_; break
        x["theorem"] = {"o.partition": "C04_plain_aggregates_partition", "o.ptent": "C04_tentative_structure",
                        "o.sa_formula": "C04_sa_formula", "o.emin_formula": "C04 emin dense formulas (P = P_t - D^-1 A_F P_t Omega, R = P_t^T - Omega P_t^T A_F D^-1)", "o.sa_rowsum": "C04_sa_row_sums",
                        "o.rs_rowsum": "C04_rs_row_sums", "o.transpose": "C03/C04 R = transpose P",
                        "o.pwm_agree": "pointwise_matrix models of Aggregates.v and MatOps2.v agree"}.get(x["op"], x["theorem"]) + " (oracle %s)" % x["op"]
    fails += fo
    # ---- Ruge-Stuben under a poisoning allocator (every allocation pre-filled with 0xFF): since /repo
    #      commit 7bd138f connect() writes every S.val cell, so the result must not depend on the fill
    #      (the model ignores its junk input: CoarsenProofs.rs_transfer_junk_independent).  Model first:
    #      cases where the C++ would index outside its arrays (MODEL-OOB) are not run.
    rsl = [l for l in exact if l.split(" ", 2)[1] in ("rs", "rs_cf") and l.endswith(" 0")]
    if ctx["tier"] == "quick": rsl = rsl[::4]
    jl = ["j" + l[:-2] + " 255" for l in rsl]
    mj = ctx["run_driver"](ctx["model"], jl)
    jl = [l for l in jl if not (mj.get(l.split(" ", 1)[0]) or "MODEL-OOB").startswith("MODEL-OOB")]
    fj, implj, _ = diff_run(ctx, "coarsen", jl, env=ONE)
    for x in fj: x["theorem"] = "C10/C04 rs_transfer_junk_independent: drv_coarsen (%s, heap pre-filled with 0xFF) vs Coarsen.v" % x["op"]
    fails += fj
    dep = sum(1 for l in jl if implj.get(l.split(" ", 1)[0]) != impl.get(l.split(" ", 1)[0][1:]))
    ctx["log"].append(("RS results that depend on the heap fill (0x00 vs 0xFF), out of %d" % len(jl), dep))
    # ---- near-null space, exact tie with TentativeQr.v (model of tentative_prolongation.hpp + qr.hpp)
    impl_ns = {}
    if ns_e:
        fe, ie, me = diff_run(ctx, "coarsen", ns_e, env=ONE)
        for x in fe:
            x["theorem"] = ("correspondence drv_coarsen (tentative_prolongation with near-null space, QR<double>, dyadic exact family) "
                            "vs TentativeQr.v/Qr.v: outputs must be byte-identical")
        fails += fe; impl_ns.update(ie)
        orc = []; origin = {}
        for l in ns_e:
            cid, op, payload = l.split(" ", 2)
            it = split_top(ie.get(cid) or "")
            if len(it) != 2 or not it[0].startswith("{"): continue
            orc.append("%s.x o.ns_exact %s %s %s" % (cid, payload, crs_tokens(it[0]), ivec_tokens(it[1][1:-1].split())))
            origin[cid + ".x"] = l
        fo = oracle_run(ctx, orc, "C04_tentative_qr_reproduces / C04_tentative_qr_orthonormal / C04_tentative_qr_coarse_upper evaluated "
                        "exactly on the implementation's (P, B_coarse) (dyadic exact family)", lambda c: origin.get(c))
        fails += fo
    if ns_g:
        ig = ctx["run_driver"](ctx["cpp"]["coarsen"], ns_g, env_extra=ONE)
        mg = ctx["run_driver"](ctx["model"], ns_g)
        hz = ctx["run_driver"](ctx["model"], [l.replace(" d.tentative_ns ", " ns_hazard ", 1) for l in ns_g])
        account(ctx, ns_g, ig)
        impl_ns.update(ig)
        for l in ns_g:
            cid, op, payload = l.split(" ", 2)
            why = ns_close(ig.get(cid), mg.get(cid), hz.get(cid), _ns_cols(payload), F(1, 10 ** 9))
            if why:
                ctx["stats"]["mismatches"] += 1
                fails.append(dict(kind="counterexample", case=l, impl=ig.get(cid), model=mg.get(cid), op=op, size=len(l), env=ONE,
                                  theorem="correspondence drv_coarsen (tentative_prolongation with near-null space, QR<double>) vs "
                                          "TentativeQr.v/Qr.v within 1e-9 (%s)" % why))
    # ---- thread counts: the same cases with 2, 3 and 5 OpenMP threads must give the outputs of the 1-thread run
    #      (aggregation is serial, the other loops are row-parallel, omega is accumulated under omp critical;
    #      C04_tentative_qr_schedule_independent for the per-thread QR objects)
    tl = [l for l in exact if not (impl.get(l.split(" ", 1)[0]) or "").startswith("CRASH")] + ns_e
    ref = dict(impl); ref.update(impl_ns)
    for nt in (2, 3, 5):
        envt = {"OMP_NUM_THREADS": str(nt), "OMP_WAIT_POLICY": "PASSIVE"}     # passive: no spinning on a shared machine
        it_ = ctx["run_driver"](ctx["cpp"]["coarsen"], tl, env_extra=envt)
        bad = 0
        for l in tl:
            cid, op = l.split(" ", 2)[:2]
            ctx["stats"]["evaluations"] += 1
            if it_.get(cid) != ref.get(cid):
                bad += 1; ctx["stats"]["mismatches"] += 1
                fails.append(dict(kind="counterexample", case=l, impl=it_.get(cid), model=ref.get(cid), op=op, size=len(l), env=envt,
                                  theorem="C04/C09 thread-count independence: drv_coarsen (%s) with OMP_NUM_THREADS=%d vs 1 thread "
                                          "(field 'model' = the 1-thread implementation output)" % (op, nt)))
        ctx["log"].append(("C04 ops with %d threads differing from 1 thread, out of %d" % (nt, len(tl)), bad))
    # ---- near-null space: double build + oracle
    dbl_o = [l for l in dbl if not l.startswith(("e", "g"))]
    if dbl:
        impld = ctx["run_driver"](ctx["cpp"]["coarsen"], dbl_o, env_extra=ONE)
        account(ctx, dbl_o, impld)
        impld.update(impl_ns)
        orc = []; origin = {}
        for l in dbl:
            cid, op, payload = l.split(" ", 2)
            out = impld.get(cid)
            it = split_top(out or "")
            if len(it) != 2 or not it[0].startswith("{"):
                fails.append(dict(kind="counterexample", case=l, impl=out, model=None, op=op, size=len(l),
                                  theorem="tentative_prolongation with near-null space (double build) did not produce P, B"))
                continue
            Bn = it[1][1:-1].split()
            ln = "%s.o o.tentative_ns %s %s %s 1/1000000000" % (cid, payload, crs_tokens(it[0]), ivec_tokens(Bn))
            orc.append(ln); origin[cid + ".o"] = l
        fo = oracle_run(ctx, orc, "C04_tentative_nullspace (tested, not proved against the code): P_tent B_coarse = B on aggregated rows, P^T P = I (double build, tol 1e-9)", lambda c: origin.get(c))
        fails += fo
    return fails


def _crs_to_out(tokens):
    """case-line crs tokens -> inside of the output form (for parse_out_crs)"""
    t = tokens.split(); n, m = int(t[0]), int(t[1]); p = 2; parts = ["%d %d" % (n, m)]
    for _ in range(n):
        k = int(t[p]); p += 1
        parts.append(" ".join("%s:%s" % (t[p + 2 * e], t[p + 2 * e + 1]) for e in range(k))); p += 2 * k
    return " | ".join(parts) if n else parts[0]


def _rs_tie(fail):
    """every violating row of the RS row-sum oracle has a strong C entry exactly on the truncation threshold"""
    try:
        ctok = fail["case"].split(); et = F(ctok[-2]); dt = ctok[-3]
        if dt != "1": return False
        tok = (fail.get("oracle_full") or fail["oracle"]["line"]).split()[4:]
        A, p = take_crs(tok, 0)
        n, m, rows = parse_out_crs("{" + _crs_to_out(A) + "}")
        nfl = int(tok[p]); fl = tok[p + 1:p + 1 + nfl]; p += 1 + nfl
        cf = tok[p]; p += 1
        P, _ = take_crs(tok, p)
        _, _, prows = parse_out_crs("{" + _crs_to_out(P) + "}")
        k = 0; found = False
        for i, row in enumerate(rows):
            rfl = fl[k:k + len(row)]; k += len(row)
            if cf[i] == "C" or sum(v for _, v in row) != 0: continue
            if sum(v for _, v in prows[i]) == 1: continue
            sc = [v for (c, v), f in zip(row, rfl) if f == "1" and cf[c] == "C"]
            neg = [v for v in sc if v < 0 and True]
            if not neg: continue                         # row outside the oracle's domain
            if sum(1 for c, v in row if c == i) != 1 or not any(c == i and v > 0 for c, v in row): continue
            amin = min([F(0)] + sc) * et; amax = max([F(0)] + sc) * et
            if not any(v == amin or v == amax for v in sc): return False
            found = True
        return found
    except Exception:
        return False


def classify(fail):
    """signature of a failing case (known_findings.json matches on it)"""
    op = fail.get("op")
    if op in ("kron_pointwise", "kron_sa") and fail.get("faithful_model_agrees"):
        return {"class": "pointwise-lifting", "impl_equals_as_coded_model": True}
    if op == "o.rs_rowsum" and _rs_tie(fail):
        return {"class": "rs-truncation-tie", "do_trunc": True, "every_failing_row_has_entry_on_threshold": True}
    return {"class": "other", "op": op}
