"""C01 -- a reported convergence is truthful: residual, iteration count, solution.

Stages
  1. exact correspondence: ALL EIGHT solvers (cg, bicgstab, richardson, gmres, fgmres, lgmres,
     bicgstabl, idrs) instantiated at vq::Q through make_solver vs the extracted Coq models,
     (iters, residual, x) byte for byte; maxiter = k for k = 0..K, tol in {0, 2^-10}, both sides,
     id/diag/matrix preconditioners, zero and non-zero initial guess, M/K/L/delta/convex/s/omega/
     smoothing/replacement varied; model started from a junk workspace.  IDR(s): the constructor's
     std::mt19937 draws are an explicit input of the model (op idrs.raw prints them; the model-side
     case line carries them); the shadow space built from them is also compared on its own
     (op idrs.shadow: private member P of the object vs KrylovIdrs.idrs_shadow).
  2. truthfulness oracle on the implementation's output, ALL EIGHT solvers: the extracted
     specification Krylov.true_res recomputes ||f - A x|| / ||f|| (preconditioned for left side)
     with the same pseudo-root and must equal the returned number exactly; iters <= maxiter (+L-1).
  3. double build on larger well-conditioned systems: long-double recomputation (tested, not proved).
  4. binary64 correspondence: the same extracted models evaluated at a binary64 Scalar instance (OCaml floats,
     ops f.solve) vs the double build of the implementation (d.solve), bit for bit, all eight solvers, n up to 64,
     up to 300 iterations / dozens of restarts (what exact rationals cannot reach: LGMRES ring buffer wrap-around,
     BiCGStab(L) accurate updates, IDR(s) over many dimension-reduction steps); dyadic data only.
  5. block and complex valued systems (tools/props/krylov_vt.py, harness/drv_krylov_vt.cpp): all eight solvers through
     make_solver on static_matrix<vq::Q,2,2> (exact: model of the solver on the EXPANDED scalar system digit for digit +
     truthfulness oracle) and on std::complex<double> (dyadic data: truthfulness oracle by exact recomputation on the
     expanded real system, binary64 tolerance), both preconditioning sides, id / (block-)diagonal / matrix preconditioners.
  6. right-hand sides just above the trivial-exit threshold (window_cases): 2 eps <= ||f|| < 2 eps n for n = 3..40 (2^-50 e_i,
     2^-51 e_i = the threshold itself, 2^-e * small integers) and controls at / above 2 eps n, all eight solvers, through stages
     1, 2 (exact), 4 (binary64) and 3 (double, the whole problem scaled by a power of two): the solver must iterate and return
     the true relative residual (theorems C01_trivial_exit_only_below_two_eps, C01_trivial_exit_independent_of_n).
"""
import random
from fractions import Fraction as F
from vcheck import fmt_q, fmt_vec, fmt_crs
import gen
from props.common import account, oracle_run
import props.krylov_cases as kc
import props.krylov_vt as kvt

DRIVERS = ["krylov", "krylov_vt@b", "krylov_vt@c"]
EXTRA_FLAGS = {"@b": ["-DVT_BLOCK"], "@c": ["-DVT_COMPLEX"]}
TMO = 300   # seconds per driver shard: a diverging (mutated) solver makes the exact rationals explode
MODEL = "krylov"
TRUSTED_BASE = [
    "Extract_krylov.v: Z.ggcd / Z.gcd realised by zarith gcd (Krylov iterates have 10^4..10^5 digit rationals)",
    "operator abstraction: A and P enter the Coq model as functions vec -> vec (OCaml closures over Kernels.spmv / vmul); "
    "P.apply is assumed to overwrite its output",
    "harness preconditioner classes Pre<V> (copy / vmul / spmv) in harness/drv_krylov.cpp",
    "binary64 correspondence: the Scalar instance Float64 of ocaml/krylov/ops_krylov.ml (OCaml floats, hand-written, not extracted); "
    "-ffp-contract=off on the C++ side; dyadic case data (checked by the model-side parser)",
    "idrs: harness op idrs.raw (the constructor's std::mt19937 statements) and the read-only access to the private member idrs::P "
    "through an explicit template instantiation in harness/drv_krylov.cpp",
    "block / complex valued systems: harness/drv_krylov_vt.cpp (preconditioner class Pre<V>: copy / vmul / spmv at the value type), the "
    "expansion of block and complex systems to real scalar systems in tools/props/krylov_vt.py (z = a+ib -> [[a,-b],[b,a]]), "
    "ocaml/krylov/ops_krylov_vt.ml (tolerance comparison of the oracle vt.truth; the recomputation itself is the extracted Krylov.true_res)",
]
ASSUMPTIONS = [
    "C01-A1 (residual invariants: cg, bicgstab, bicgstabl, idrs) assume A (and P, except idrs) linear and length preserving and a commutative ring "
    "with decidable equality; bicgstabl / idrs also that the cleared workspace vectors have the allocated length n; "
    "rounding clause of the property (double): tested with a long-double recomputation, not proved",
    "idrs: the raw draws of std::mt19937 / uniform_real_distribution in the constructor are an input of the model, reproduced by "
    "the harness op idrs.raw (same statements as the constructor; OMP_NUM_THREADS=1 in the runner); the exact build draws doubles and converts them",
    "the quantitative clause (1e-8 within 100 iterations on model problems) is measured in the double build, not proved",
    "block valued systems (static_matrix<vq::Q,2,2>): the model of a solver is the SCALAR model of Krylov.v run on the expanded system "
    "(inner products of block entries, block spmv/vmul and the scalar coefficients coincide with those of the expanded system in exact "
    "arithmetic; idrs: the block constructor stores one draw in both components of an entry, the model receives the duplicated draws)",
    "complex valued systems (std::complex<double>): truthfulness only, |returned - true| <= 2^-44 + 2^-36 * true with the true relative residual "
    "recomputed exactly on the expanded real system; no model of the complex recurrences (complex coefficients) is compared",
    "rate clause (C01_richardson_rate*, C01_richardson_amg_*): ordered commutative ring, damping = 1, a solution u of A u = f exists; the "
    "explicit factor 5/16 is proved for ONE concrete hierarchy (1-D Poisson n = 4, Jacobi 1/2, V(1,1)); 'rate = spectral radius' is not formalised",
]
RULE = ("cases derived from VERIF_SEED by tools/props/C01.py; distinct = distinct case payload; non-trivial = implementation "
        "output contains a non-zero value and is not an exception")

TOL10 = F(1, 1024)


def exact_cases(tier, seed):
    r = random.Random(seed * 1000 + 1)
    out = []
    for solver in kc.SOLVERS:
        heavy = solver not in kc.SQRT_FREE
        nsys = (12 if heavy else 30) if tier == "quick" else (30 if heavy else 80)
        for si in range(nsys):
            sym = kc.sym_needed(solver) or r.random() < 0.4
            n = r.choice([2, 3, 4, 5] if tier == "quick" else [2, 3, 4, 5, 6, 7, 8])
            if heavy: n = min(n, 4 if tier == "quick" else 5)
            if solver == "idrs": n = r.choice([2, 3, 4, 5] if tier == "quick" else [2, 3, 4, 5, 6])
            pkind = r.choice(kc.pkinds_for(solver, sym))
            S = kc.make_sys(r, n, sym, pkind)
            side = kc.side_for(r, solver)
            K = (3 if heavy else 5) if tier == "quick" else ((4 if heavy else n + 2))
            if solver == "idrs": K = 8 if tier == "quick" else n + 5     # exact IDR(s) terminates after n + n/s steps
            M = r.choice([1, 2, 4]); L = r.choice([1, 2, 4]) if not heavy or solver != "bicgstabl" else r.choice([1, 2, 2, 3])
            base = dict(M=M, L=L, K=r.choice([0, 1, 2]), s=r.choice([1, 2, 3]), damping=r.choice([F(1), F(1, 2), F(3, 4)]),
                        omega=r.choice([F(7, 10), F(7, 10), F(0), F(99, 100), F(3, 2)]),
                        smoothing=int(r.random() < 0.3), replacement=int(r.random() < 0.3), convex=int(r.random() < 0.7),
                        ca=int(r.random() < 0.3), delta=r.choice([F(0), F(0), F(1, 100), F(1, 2)]))
            for k in range(0, K + 1):
                tol = r.choice([F(0), TOL10])
                abstol = r.choice([kc.ABSTOL_MIN, kc.ABSTOL_MIN, F(0) if solver in kc.SQRT_FREE else kc.ABSTOL_MIN])
                prm = dict(base, maxiter=k, tol=tol, abstol=abstol)
                out.append(kc.solve_line("e%d" % len(out), solver, side, S, **prm))
    # dedicated exits: abstol dominating, ns_search with a tiny right-hand side, exact initial guess
    for solver in kc.SOLVERS:
        sym = True
        S = kc.make_sys(r, 3, sym, "diag", x0zero=False)
        out.append(kc.solve_line("e%d" % len(out), solver, "right", S, maxiter=3, tol=F(0), abstol=F(1, 4), M=2, L=1, s=2))
        S2 = kc.make_sys(r, 3, sym, "id", x0zero=False)
        S2.f = [F(1, 2 ** 70), F(0), F(-1, 2 ** 71)]
        out.append(kc.solve_line("e%d" % len(out), solver, "right", S2, maxiter=2, tol=F(1, 4), ns=1, M=2, L=1, s=2))
        # ns_search = true with an ORDINARY right-hand side (norm neither 0 nor 1): the flag only concerns the zero right-hand side,
        # the returned residual stays relative to ||f|| (seeded C01-7)
        S4 = kc.make_sys(r, 3, sym, "diag", x0zero=False)
        S4.f = [v * F(1, 1024) for v in S4.f] if r.random() < 0.5 else [v * 1000 for v in S4.f]
        if all(v == 0 for v in S4.f): S4.f[0] = F(3, 1024)
        for mi in (1, 2):
            out.append(kc.solve_line("e%d" % len(out), solver, "right", S4, maxiter=mi, tol=F(1, 4), ns=1, M=2, L=1, s=2))
        S3 = kc.make_sys(r, 3, sym, "id", x0zero=False)
        S3.f = kc.matvec(kc.dense(S3.rows, 3), S3.x0)            # x0 is the exact solution
        if all(v == 0 for v in S3.f): S3.x0[0] += 1; S3.f = kc.matvec(kc.dense(S3.rows, 3), S3.x0)
        out.append(kc.solve_line("e%d" % len(out), solver, "right", S3, maxiter=3, tol=TOL10, M=2, L=1, s=2))
        S4 = kc.make_sys(r, 3, sym, "id", x0zero=False)
        S4.f = [F(0)] * 3                                          # zero right-hand side
        out.append(kc.solve_line("e%d" % len(out), solver, "right", S4, maxiter=3, tol=TOL10, M=2, L=1, s=2))
    return out


def shadow_cases(tier, seed):
    """the shadow space of IDR(s) on its own: constructor (private member P) vs KrylovIdrs.idrs_shadow"""
    ns = [(2, 1), (3, 2), (3, 3), (4, 2), (2, 3), (5, 4)] if tier == "quick" else [(n, s) for n in range(1, 8) for s in range(0, 6)]
    return ["h%d idrs.shadow %d %d" % (i, n, s) for i, (n, s) in enumerate(ns)]


def probe_cases(tier, seed):
    """inputs aimed at exits where the returned number is not a recomputed/carried residual"""
    r = random.Random(seed * 1000 + 2)
    out = []
    for solver in kc.SOLVERS:
        # right-hand side that is tiny but not zero: the trivial-solution exit returns (0, ||f||) with x = 0
        S = kc.make_sys(r, 3, True, "id", x0zero=False)
        S.f = [F(1, 2 ** 60), F(0), F(1, 2 ** 61)]
        out.append(kc.solve_line("p%d" % len(out), solver, "right", S, maxiter=3, tol=TOL10, M=2, L=1, s=2))
    S = kc.make_sys(r, 3, False, "id", x0zero=False)
    out.append(kc.solve_line("p%d" % len(out), "bicgstab", "right", S, maxiter=0, tol=TOL10, ca=1))
    S = kc.make_sys(r, 4, False, "diag", x0zero=False)
    out.append(kc.solve_line("p%d" % len(out), "bicgstab", "left", S, maxiter=2, tol=F(0), abstol=F(0), ca=1))
    return out


def double_cases(tier, seed):
    r = random.Random(seed * 1000 + 3)
    out = []
    nsys = 6 if tier == "quick" else 20
    for solver in kc.SOLVERS:
        for si in range(nsys):
            n = r.choice([30, 80, 150] if tier == "quick" else [30, 100, 200, 300])
            sym = kc.sym_needed(solver) or r.random() < 0.5
            # well conditioned: strictly dominant (extra diagonal >= 1)
            rows = gen.spd_mmatrix(r, n, extra_diag=F(r.choice([1, 2, 3]), 1)) if sym else gen.nonsym_dd(r, n, density=4.0 / n)
            D = {i: dict(rw)[i] for i, rw in enumerate(rows)}
            pk = r.choice(["id", "diag"])
            pdata = [F(1) / D[i] for i in range(n)] if pk == "diag" else None
            f = [F(r.randint(-8, 8), 4) for _ in range(n)]
            if all(v == 0 for v in f): f[0] = F(1)
            x0 = [F(0)] * n if r.random() < 0.5 else [F(r.randint(-4, 4), 2) for _ in range(n)]
            S = kc.Sys(n, rows, pk, pdata, f, x0, sym)
            side = kc.side_for(r, solver)
            maxiter = r.choice([100, 100, 7, 20])
            prm = dict(maxiter=maxiter, tol=F(1, 10 ** 8), M=r.choice([5, 30]), L=r.choice([1, 2, 4]), K=r.choice([1, 3]),
                       s=r.choice([1, 4]), damping=F(r.choice([1, 1, 3]), r.choice([1, 4])) if solver == "richardson" else F(1),
                       smoothing=int(r.random() < 0.3), replacement=int(r.random() < 0.3))
            if solver == "richardson": prm["damping"] = F(3, 4); S.pk = "diag"; S.pdata = [F(1) / D[i] for i in range(n)]
            out.append("d%d d.truth 100 %s %s %s %s %s" % (len(out), solver, side, S.pk, kc.fmt_prm(**prm), S.call_tokens()))
    return out


def float_cases(tier, seed):
    """binary64 tie: written with op `solve`, run as d.solve (implementation) / f.solve (model)"""
    r = random.Random(seed * 1000 + 4)
    out = []
    nsys = 10 if tier == "quick" else 40
    for solver in kc.SOLVERS:
        for si in range(nsys * (2 if solver in ("lgmres", "bicgstabl", "idrs") else 1)):
            n = r.choice([8, 16, 36, 48, 64])
            S = kc.dyadic_sys(r, n, solver)
            prm = kc.dyadic_prm(r, maxiter=r.choice([5, 20, 60, 300]))
            if solver == "lgmres": prm["M"] = r.choice([1, 2, 3, 4])        # many restarts: the ring of augmentation vectors wraps
            out.append(kc.solve_line("g%d" % len(out), solver, kc.side_for(r, solver), S, op="f64", **prm))
    return out


# ---------------------------------------------------------------- right-hand sides just above the trivial-exit threshold
# The prologue of all eight solvers takes the trivial-solution exit for norm_rhs < eps(1) = 2*epsilon (Krylov.eps1;
# theorems C01_trivial_exit_only_below_two_eps, C01_trivial_exit_independent_of_n).  eps<T>(n) = 2*epsilon*n takes a size
# argument: a threshold that scales with the number of unknowns treats every right-hand side with
# 2 eps <= ||f|| < 2 eps n as zero.  These cases sit in that window (n = 3..40), on its lower edge (||f|| = 2 eps exactly)
# and, as controls, at / above its upper edge; epsilon = 2^-52 in both builds (vq::Q: numeric_limits<Q>::epsilon()).
EPS2 = F(1, 2 ** 51)                                  # 2 * epsilon

def _norm2(f): return sum((v * v for v in f), F(0))

def window_rhs(r, n, kind):
    """a right-hand side of length n; kind: unit | edge | ints (all: 2 eps <= ||f|| < 2 eps n) | at | above (controls).
    Returns (f, in_window)"""
    i = r.randrange(n)
    f = [F(0)] * n
    if kind == "unit": f[i] = F(r.choice([1, -1]), 2 ** 50); return f, True          # ||f|| = 2^-50 = 4 eps
    if kind == "edge": f[i] = F(r.choice([1, -1]), 2 ** 51); return f, True          # ||f|| = 2 eps: NOT below the threshold
    if kind == "at":   f[i] = EPS2 * n; return f, False                             # ||f|| = 2 eps n
    if kind == "above":
        ks = [r.randint(-3, 3) for _ in range(n)]
        if all(k == 0 for k in ks): ks[i] = 1
        e = 51
        while _norm2([F(k, 2 ** e) for k in ks]) < (EPS2 * n) ** 2 * 2: e -= 1       # ||f|| >= sqrt(2) * 2 eps n
        return [F(k, 2 ** e) for k in ks], False
    # ints: 2^-e * (a few small integers), with a margin to both edges: 2 (2 eps)^2 <= ||f||^2 <= (2 eps n)^2 / 2
    for _ in range(50):
        ks = [0] * n
        for j in r.sample(range(n), r.randint(1, min(n, 5))): ks[j] = r.choice([-3, -2, -1, 1, 2, 3])
        ok = [e for e in range(44, 54) if 2 * EPS2 ** 2 <= _norm2([F(k, 2 ** e) for k in ks]) <= (EPS2 * n) ** 2 / 2]
        if ok:
            e = r.choice(ok)
            return [F(k, 2 ** e) for k in ks], True
    f[i] = F(1, 2 ** 50); return f, True


def window_cases(tier, seed):
    r = random.Random(seed * 1000 + 7)
    out = []
    quick = tier == "quick"
    for solver in kc.SOLVERS:
        heavy = solver not in kc.SQRT_FREE
        # 1. exact build vs model + truthfulness oracle
        ns_ = sorted(set([3, 40] + r.sample(range(4, 40), 3 if quick else 10)))
        for n in ns_:
            for kind in ["unit", "edge", "ints", "above"] + (["at"] if n in (3, 40) else []):
                sym = kc.sym_needed(solver) or r.random() < 0.4
                pkind = r.choice(["id", "diag", "jacmat"])
                S = kc.make_sys(r, n, sym, pkind)
                S.f, _ = window_rhs(r, n, kind)
                if r.random() < 0.3: S.x0 = [v / 2 ** 50 for v in S.x0]               # a guess of the size of the solution
                prm = dict(maxiter=r.choice([1, 2]) if heavy else r.choice([1, 2, 3]), tol=r.choice([F(0), TOL10]), M=r.choice([1, 2, 4]),
                           L=r.choice([1, 2]), K=r.choice([0, 1]), s=r.choice([1, 2]), damping=r.choice([F(1), F(1, 2)]),
                           smoothing=int(r.random() < 0.3), replacement=int(r.random() < 0.3))
                out.append(kc.solve_line("w%d" % len(out), solver, kc.side_for(r, solver), S, **prm))
        # 2. binary64 build vs model at binary64
        for n in sorted(set([3, 40] + r.sample(range(4, 40), 3 if quick else 8))):
            for kind in ["unit", "ints", "edge"]:
                S = kc.dyadic_sys(r, n, solver)
                S.f, _ = window_rhs(r, n, kind)
                if r.random() < 0.5: S.x0 = [v / 2 ** 50 for v in S.x0]
                prm = kc.dyadic_prm(r, maxiter=r.choice([5, 20, 60]))
                out.append(kc.solve_line("w%d" % len(out), solver, kc.side_for(r, solver), S, op="f64", **prm))
        # 3. double build, long double recomputation: the whole problem scaled by a power of two into the window
        for n in [3, 17, 40] + ([150] if quick else [80, 150, 300]):
            sym = kc.sym_needed(solver) or r.random() < 0.5
            rows = gen.spd_mmatrix(r, n, extra_diag=F(r.choice([1, 2, 3]), 1)) if sym else gen.nonsym_dd(r, n, density=min(1.0, 4.0 / n))
            D = {i: dict(rw)[i] for i, rw in enumerate(rows)}
            f0 = [F(r.randint(-8, 8), 4) for _ in range(n)]
            if all(v == 0 for v in f0): f0[0] = F(1)
            es = [e for e in range(40, 60) if 2 * EPS2 ** 2 <= _norm2(f0) / 4 ** e <= (EPS2 * n) ** 2 / 2]
            if not es: f0 = [F(0)] * n; f0[r.randrange(n)] = F(1); es = [50]
            e = r.choice(es)
            f = [v / 2 ** e for v in f0]
            x0 = [F(0)] * n if r.random() < 0.5 else [F(r.randint(-4, 4), 2) / 2 ** e for _ in range(n)]
            pk = "diag" if solver == "richardson" else r.choice(["id", "diag"])
            S = kc.Sys(n, rows, pk, [F(1) / D[i] for i in range(n)] if pk == "diag" else None, f, x0, sym)
            prm = dict(maxiter=100, tol=F(1, 10 ** 8), M=r.choice([5, 30]), L=r.choice([1, 2]), K=r.choice([1, 3]), s=r.choice([1, 4]),
                       damping=F(3, 4) if solver == "richardson" else F(1))
            out.append("w%d d.truth 100 %s %s %s %s %s" % (len(out), solver, kc.side_for(r, solver), S.pk, kc.fmt_prm(**prm), S.call_tokens()))
    return out


def vt_cases(tier, seed):
    """block / complex valued systems: two lines per case (same id): the value-type line for drv_krylov_vt and the
    expanded scalar system (written with op vt.scalar; it is a `solve` line of the scalar driver)"""
    out = []
    for c in kvt.cases(tier, seed):
        out += [c.impl, c.scalar.replace(" solve ", " vt.scalar ", 1)]
    return out


def cases(tier, seed):
    return (float_cases(tier, seed) + exact_cases(tier, seed) + shadow_cases(tier, seed) + probe_cases(tier, seed) + double_cases(tier, seed)
            + window_cases(tier, seed) + vt_cases(tier, seed))


def run(ctx, cases_override=None):
    lines = cases_override or cases(ctx["tier"], ctx["seed"])
    fails = []
    exact = [l for l in lines if l.split(" ", 2)[1] == "solve"]
    dbl = [l for l in lines if l.split(" ", 2)[1] == "d.truth"]
    orc_in = [l for l in lines if l.split(" ", 2)[1] == "o.truth"]
    by_id = {l.split(" ", 1)[0]: l for l in lines}

    # 1. exact runs of the implementation and of the model (all eight solvers)
    impl = ctx["run_driver"](ctx["cpp"]["krylov"], exact, timeout=TMO)
    account(ctx, exact, impl)
    mlines = [l for l in exact if l.split(" ", 3)[2] in kc.MODELLED]
    model = ctx["run_driver"](ctx["model"], kc.with_idrs_raw(ctx, mlines), timeout=TMO)
    for l in mlines:
        cid, op, solver = l.split(" ", 3)[:3]
        a, b = impl.get(cid), model.get(cid)
        if a != b:
            ctx["stats"]["mismatches"] += 1
            fails.append(dict(kind="counterexample", case=l, impl=(a or "")[:4000], model=(b or "")[:4000], op="solve:" + solver,
                              size=len(l), theorem="correspondence drv_krylov (%s via make_solver, exact) vs Krylov.v; spec theorems C01_*" % solver))
    for l in exact:
        cid = l.split(" ", 1)[0]
        a = impl.get(cid) or ""
        if a.startswith(("CRASH", "UNSUPPORTED", "INPUT-MODIFIED")) or a == "":
            fails.append(dict(kind="counterexample", case=l, impl=a[:400], model=None, op="solve", size=len(l),
                              theorem="implementation run (crash / modified input)"))

    # 1b. IDR(s) shadow space: private member P of a constructed object vs the model's Gram-Schmidt of the raw draws
    shadow = [l for l in lines if l.split(" ", 2)[1] == "idrs.shadow"]
    if shadow:
        si = ctx["run_driver"](ctx["cpp"]["krylov"], shadow, timeout=TMO)
        account(ctx, shadow, si)
        raw = kc.idrs_raw(ctx, [tuple(int(v) for v in l.split(" ")[2:4]) for l in shadow])
        sm = ctx["run_driver"](ctx["model"], [l + " " + raw.get(tuple(int(v) for v in l.split(" ")[2:4]), "") for l in shadow], timeout=TMO)
        for l in shadow:
            cid = l.split(" ", 1)[0]
            a, b = si.get(cid), sm.get(cid)
            if a != b or a is None:
                ctx["stats"]["mismatches"] += 1
                fails.append(dict(kind="counterexample", case=l, impl=(a or "")[:4000], model=(b or "")[:4000], op="idrs.shadow", size=len(l),
                                  theorem="correspondence: idrs constructor (private shadow space P) vs KrylovIdrs.idrs_shadow on the same mt19937 draws"))

    # 2. truthfulness oracle (extracted specification) on the implementation's outputs
    olines = list(orc_in)
    for l in exact:
        cid = l.split(" ", 1)[0]
        ol = kc.truth_line(l, impl.get(cid))
        if ol: olines.append(ol)
    of = oracle_run(ctx, olines, "C01 oracle: returned residual = ||f - A x_returned|| / ||f|| (Krylov.true_res, exact) and iters <= maxiter (+L-1)",
                    lambda cid: by_id.get(cid))
    for f in of:
        f["impl"] = (impl.get(f["case"].split(" ", 1)[0]) or "")[:2000] if f.get("case") else None
    fails += of

    # 4. binary64 correspondence
    f64 = [l.replace(" f64 ", " solve ", 1) for l in lines if l.split(" ", 2)[1] == "f64"]
    if f64:
        il, ml = kc.float_pair(ctx, f64)
        fi = ctx["run_driver"](ctx["cpp"]["krylov"], il, timeout=TMO)
        fm = ctx["run_driver"](ctx["model"], ml, timeout=TMO)
        account(ctx, il, fi)
        iters = 0
        for l, li in zip(f64, il):
            cid, op, solver = l.split(" ", 3)[:3]
            a, b = fi.get(cid), fm.get(cid)
            pr = kc.parse_result(a)
            if pr: iters += pr[0]
            if a != b or a is None:
                ctx["stats"]["mismatches"] += 1
                fails.append(dict(kind="counterexample", case=l.replace(" solve ", " f64 ", 1), impl=(a or "")[:3000], model=(b or "")[:3000], op="f64:" + solver, size=len(l),
                                  theorem="binary64 correspondence: double build of %s (d.solve) vs the extracted model at the binary64 Scalar instance (f.solve), bit for bit" % solver))
        ctx["stats"]["samples"].append(dict(binary64_cases=len(f64), binary64_iterations_total=iters))

    # 5. block / complex valued systems
    vimpl = {l.split(" ", 1)[0]: l for l in lines if l.split(" ", 2)[1] in ("bk.solve", "cx.solve")}
    vscal = {l.split(" ", 1)[0]: l for l in lines if l.split(" ", 2)[1] == "vt.scalar"}
    vcs = [kvt.VtCase(cid, "b" if l.split(" ", 2)[1] == "bk.solve" else "c", l.split(" ", 3)[2], l, vscal[cid].replace(" vt.scalar ", " solve ", 1))
           for cid, l in vimpl.items() if cid in vscal]
    if vcs:
        vf = kvt.run(ctx, vcs, account, TMO)
        for f in vf:
            f["case_lines"] = [f["case_lines"][0], f["case_lines"][1].replace(" solve ", " vt.scalar ", 1)]
        fails += vf

    # 3. double build, long double recomputation
    if dbl:
        dres = ctx["run_driver"](ctx["cpp"]["krylov"], dbl, timeout=TMO)
        account(ctx, dbl, dres, nontrivial=lambda op, p, o: bool(o) and o.startswith("OK"))
        conv = 0
        for l in dbl:
            cid = l.split(" ", 1)[0]
            ctx["stats"]["oracle_checks"] += 1
            o = dres.get(cid) or ""
            if not o.startswith("OK"):
                fails.append(dict(kind="counterexample", case=l, impl=o, model=None, op="d.truth", size=len(l),
                                  theorem="C01 double build: returned residual vs long double recomputation (tested)"))
    return fails


def classify(fail):
    """signatures of the known deviations (known_findings.d/C01-*.json)"""
    sig = {}
    case = fail.get("case") or ""
    tk = case.split(" ")
    orc = (fail.get("oracle") or {}).get("result") or ""
    if len(tk) > 10 and fail.get("op") == "o.truth" and tk[1] == "solve":
        solver = tk[2]
        impl = (fail.get("impl") or "").split(" ")
        if orc.startswith("FAIL trivial-exit-on-nonzero-rhs"):
            sig = dict(site="trivial-solution exit", kind="tiny-nonzero-rhs")
    return sig
