"""krylov_vt.py -- C01 for block and complex valued systems (harness/drv_krylov_vt.cpp, ocaml/krylov/ops_krylov_vt.ml).

Every case is generated TWICE from the same numbers:
  * the value-type line for the implementation (ops bk.solve / cx.solve of drv_krylov_vt:
    static_matrix<vq::Q,2,2> blocks, exact; std::complex<double>, dyadic data), and
  * the EXPANDED real/scalar system (2n x 2n; block (I,J) -> rows 2I,2I+1 x columns 2J,2J+1;
    complex z = a + ib -> [[a,-b],[b,a]]; entry i of a vector -> rows 2i, 2i+1) in the format of the scalar
    driver (krylov_cases.solve_line), on which the extracted specification is evaluated.

Stages (run by tools/props/C01.py):
  vt-1  block, exact: the implementation's (iters, residual, x) must equal, digit for digit, the extracted Coq model
        of the same solver run on the expanded scalar system (inner products of static_matrix<Q,2,1> entries, block
        spmv / vmul and the scalar coefficients of the recurrences are the scalar ones of the expanded system; for
        IDR(s) the block constructor fills both components of an entry with the same draw -- the model receives the
        duplicated draws);
  vt-2  block, exact: truthfulness oracle o.truth (Krylov.true_res) on the expanded system: returned ==
        ||f - A x|| / ||f|| (preconditioned for side = left) with the value type's norm
        (sqrt(math::norm(<x,x>)), <x,y> = sum_i sum_k x_i(k) adj(y_i(k)) = Euclidean on the expanded system);
  vt-3  complex, binary64: truthfulness oracle vt.truth: the extracted specification recomputes the true relative
        residual EXACTLY from the returned x (doubles are rationals) on the expanded real system and the returned
        double must agree within ATOL + RTOL * true (rounding of a handful of iterations on well conditioned dyadic
        data is ~1e-15; see ATOL/RTOL below); iterations <= maxiter (+ L - 1).
"""
import random
from fractions import Fraction as F
from vcheck import fmt_q, fmt_vec, fmt_crs
import gen
import props.krylov_cases as kc

ATOL = F(1, 2 ** 44)      # ~ 6e-14 absolute   (observed on 4000 thorough cases: < 2^-48 + 2^-42 * true)
RTOL = F(1, 2 ** 36)      # ~ 1.5e-11 relative to the true relative residual

# ------------------------------------------------------------------ blocks <-> scalars
def blocks_of(n2, rows):
    """scalar sorted rows of a (2m x 2m) matrix -> block rows [(J, [[a,b],[c,d]])], a block is stored when any of
    its four entries is stored (zeros fill the rest)"""
    m = n2 // 2
    out = []
    for I in range(m):
        blk = {}
        for k in range(2):
            for c, v in rows[2 * I + k]:
                b = blk.setdefault(c // 2, [[F(0), F(0)], [F(0), F(0)]])
                b[k][c % 2] += v
        out.append(sorted(blk.items()))
    return out

def fmt_bcrs(m, rows):
    out = ["%d %d" % (m, m)]
    for rw in rows:
        out.append(str(len(rw)))
        for c, b in rw: out.append("%d %s" % (c, " ".join(fmt_q(x) for row in b for x in row)))
    return " ".join(out)

def fmt_rvec(m, v):
    """vector of m rhs entries (2 numbers each)"""
    return "%d %s" % (m, " ".join(fmt_q(x) for x in v))

def block_jacobi(n2, rows):
    """inverse of the 2x2 diagonal blocks: (list of blocks, expanded block-diagonal scalar rows)"""
    D = kc.dense(rows, n2)
    blks, srows = [], []
    for I in range(n2 // 2):
        a, b, c, d = D[2 * I][2 * I], D[2 * I][2 * I + 1], D[2 * I + 1][2 * I], D[2 * I + 1][2 * I + 1]
        det = a * d - b * c
        inv = [[d / det, -b / det], [-c / det, a / det]]
        blks.append(inv)
        srows.append([(2 * I, inv[0][0]), (2 * I + 1, inv[0][1])])
        srows.append([(2 * I, inv[1][0]), (2 * I + 1, inv[1][1])])
    return blks, srows


class VtCase:
    """cid; impl line (value type); scalar line (expanded system, op solve); kind 'b' | 'c'"""
    def __init__(self, cid, kind, solver, impl, scalar):
        self.cid, self.kind, self.solver, self.impl, self.scalar = cid, kind, solver, impl, scalar


def block_cases(tier, seed):
    r = random.Random(seed * 1000 + 11)
    out = []
    for solver in kc.SOLVERS:
        heavy = solver not in kc.SQRT_FREE
        nsys = (10 if heavy else 16) if tier == "quick" else (30 if heavy else 60)
        for si in range(nsys):
            sym = kc.sym_needed(solver) or r.random() < 0.4
            m = r.choice([1, 2, 2, 3] if tier == "quick" else [1, 2, 3, 4])
            if heavy: m = min(m, 2 if tier == "quick" else 3)
            n2 = 2 * m
            pkind = r.choice(["id", "bjac", "bjac"] + ([k for k in kc.pkinds_for(solver, sym) if k not in ("id", "diag", "jacmat")]))
            S = kc.make_sys(r, n2, sym, "id" if pkind == "bjac" else pkind, shuffled=False)
            A_b = blocks_of(n2, S.rows)
            if pkind == "bjac":
                blks, srows = block_jacobi(n2, S.rows)
                S.pk, S.pdata = "mat", srows
                ptok = "diag", "%d %s" % (m, " ".join(" ".join(fmt_q(x) for row in b for x in row) for b in blks))
            elif S.pk == "mat":
                ptok = "mat", fmt_bcrs(m, blocks_of(n2, S.pdata))
            else:
                ptok = "id", None
            side = kc.side_for(r, solver)
            K = (2 if heavy else 4) if tier == "quick" else (3 if heavy else n2 + 1)
            if solver == "idrs": K = 5 if tier == "quick" else n2 + 3
            base = dict(M=r.choice([1, 2, 4]), L=r.choice([1, 2, 2, 3]), K=r.choice([0, 1, 2]), s=r.choice([1, 2, 3]),
                        damping=r.choice([F(1), F(1, 2), F(3, 4)]), omega=r.choice([F(7, 10), F(0), F(99, 100)]),
                        smoothing=int(r.random() < 0.3), replacement=int(r.random() < 0.3), convex=int(r.random() < 0.7),
                        ca=int(r.random() < 0.3), delta=r.choice([F(0), F(0), F(1, 100), F(1, 2)]))
            ks = list(range(0, K + 1))
            if tier == "quick" and len(ks) > 3: ks = [0] + sorted(r.sample(ks[1:], 2))
            for k in ks:
                tol = r.choice([F(0), F(1, 1024)])
                abstol = r.choice([kc.ABSTOL_MIN, F(0) if solver in kc.SQRT_FREE else kc.ABSTOL_MIN])
                prm = dict(base, maxiter=k, tol=tol, abstol=abstol)
                cid = "vb%d" % len(out)
                toks = [cid, "bk.solve", solver, side, ptok[0], kc.fmt_prm(**prm), fmt_bcrs(m, A_b)]
                if ptok[1] is not None: toks.append(ptok[1])
                toks += [fmt_rvec(m, S.f), fmt_rvec(m, S.x0)]
                out.append(VtCase(cid, "b", solver, " ".join(toks), kc.solve_line(cid, solver, side, S, **prm)))
    # dedicated exits on block systems: zero right-hand side, exact initial guess, abstol dominating
    for solver in kc.SOLVERS:
        for variant in ("zero-rhs", "exact-guess", "abstol"):
            S = kc.make_sys(r, 4, True, "id", x0zero=False, shuffled=False)
            if variant == "zero-rhs": S.f = [F(0)] * 4
            elif variant == "exact-guess":
                S.f = kc.matvec(kc.dense(S.rows, 4), S.x0)
                if all(v == 0 for v in S.f): S.x0[0] += 1; S.f = kc.matvec(kc.dense(S.rows, 4), S.x0)
            blks, srows = block_jacobi(4, S.rows)
            S.pk, S.pdata = "mat", srows
            prm = dict(maxiter=3, tol=F(1, 1024), M=2, L=1, s=2)
            if variant == "abstol": prm.update(tol=F(0), abstol=F(1, 4))
            cid = "vb%d" % len(out)
            toks = [cid, "bk.solve", solver, "right", "diag", kc.fmt_prm(**prm), fmt_bcrs(2, blocks_of(4, S.rows)),
                    "2 %s" % " ".join(" ".join(fmt_q(x) for row in b for x in row) for b in blks), fmt_rvec(2, S.f), fmt_rvec(2, S.x0)]
            out.append(VtCase(cid, "b", solver, " ".join(toks), kc.solve_line(cid, solver, "right", S, **prm)))
    return out


# ------------------------------------------------------------------ complex
def cexp_rows(n, crows):
    """complex rows [(c, (re, im))] -> expanded real rows (2n x 2n)"""
    out = []
    for i in range(n):
        r0, r1 = [], []
        for c, (a, b) in crows[i]:
            r0 += [(2 * c, a), (2 * c + 1, -b)]
            r1 += [(2 * c, b), (2 * c + 1, a)]
        out += [r0, r1]
    return out

def cexp_vec(v): return [x for z in v for x in z]

def fmt_ccrs(n, crows):
    out = ["%d %d" % (n, n)]
    for rw in crows:
        out.append(str(len(rw)))
        for c, (a, b) in rw: out.append("%d %s %s" % (c, fmt_q(a), fmt_q(b)))
    return " ".join(out)

def fmt_cvec(v): return "%d %s" % (len(v), " ".join("%s %s" % (fmt_q(a), fmt_q(b)) for a, b in v))

def dyc(r, big=4, den=(1, 2, 4)): return F(r.randint(-big, big), r.choice(den))

def complex_matrix(r, n, hermitian):
    """dyadic, strictly diagonally dominant; Hermitian positive definite (real positive diagonal) when asked"""
    if hermitian:
        base = gen.spd_mmatrix(r, n, kind=r.choice(["grid", "path"]), extra_diag=F(r.choice([1, 2]), 2))
        rows = [dict((c, (F(v), F(0))) for c, v in rw) for rw in base]
        for i in range(n):
            for c in list(rows[i].keys()):
                if c > i:
                    t = dyc(r, big=2, den=(2, 4))
                    a = rows[i][c][0]
                    rows[i][c] = (a, t); rows[c][i] = (a, -t)
                    rows[i][i] = (rows[i][i][0] + abs(t), F(0)); rows[c][c] = (rows[c][c][0] + abs(t), F(0))
    else:
        base = gen.convdiff(r, n)
        rows = [dict((c, (F(v), F(0))) for c, v in rw) for rw in base]
        for i in range(n):
            extra = F(0)
            for c in list(rows[i].keys()):
                if c != i:
                    t = dyc(r, big=3, den=(2, 4, 8))
                    rows[i][c] = (rows[i][c][0], t); extra += abs(t)
            rows[i][i] = (rows[i][i][0] + extra, dyc(r, big=2, den=(2, 4)))
    return [sorted(rw.items()) for rw in rows]

def dy_round(x, den=64):
    return F(int(round(x * den)), den)

def complex_precond(r, n, solver, kind, A):
    """id | diag: the inverse of the diagonal of A rounded to multiples of 1/64 (complex Jacobi; real positive for the
    Hermitian systems of CG) | mat: a fixed diagonally dominant dyadic tridiagonal matrix (Hermitian for CG)"""
    herm = solver == "cg"
    if kind == "id": return "id", None, None
    if kind == "diag":
        d = []
        for i in range(n):
            a, b = dict(A[i])[i]
            m2 = a * a + b * b
            re, im = dy_round(a / m2), dy_round(-b / m2)
            if re == 0 and im == 0: re = F(1, 64)
            d.append((re, F(0) if herm else im))
        rows = [[(i, d[i])] for i in range(n)]
        return "diag", d, rows
    rows = []
    for i in range(n):
        rw = {i: (F(1, 4), F(0) if herm else F(r.choice([0, 1, -1]), 16))}
        if i + 1 < n: rw[i + 1] = (F(1, 32), F(1, 32))
        if i > 0: rw[i - 1] = (F(1, 32), F(-1, 32)) if herm else (F(-1, 64), F(0))
        rows.append(sorted(rw.items()))
    return "mat", rows, rows


def complex_cases(tier, seed):
    r = random.Random(seed * 1000 + 12)
    out = []
    nsys = 25 if tier == "quick" else 100
    for solver in kc.SOLVERS:
        for si in range(nsys):
            n = r.choice([2, 3, 5, 8, 12] if tier == "quick" else [2, 3, 5, 8, 12, 20, 32])
            A = complex_matrix(r, n, hermitian=(solver == "cg"))
            pk, pval, prow = complex_precond(r, n, solver, r.choice(["id", "diag", "diag", "mat"]), A)
            f = [(dyc(r, 8), dyc(r, 8)) for _ in range(n)]
            if all(a == 0 and b == 0 for a, b in f): f[0] = (F(1), F(-1, 2))
            x0 = [(F(0), F(0))] * n if r.random() < 0.5 else [(dyc(r, 4, (1, 2)), dyc(r, 4, (1, 2))) for _ in range(n)]
            side = kc.side_for(r, solver)
            prm = kc.dyadic_prm(r, maxiter=0 if si == 0 else r.choice([1, 2, 3, 5, 8, 20, 60]))
            prm["tol"] = F(1, 2 ** r.choice([10, 20, 30]))
            if solver == "richardson": prm["damping"] = F(1, 2)
            # expanded real system
            S = kc.Sys(2 * n, cexp_rows(n, A), "id" if pk == "id" else "mat", None if pk == "id" else cexp_rows(n, prow),
                       cexp_vec(f), cexp_vec(x0), False)
            cid = "vc%d" % len(out)
            toks = [cid, "cx.solve", solver, side, pk, kc.fmt_prm(**prm), fmt_ccrs(n, A)]
            if pk == "diag": toks.append(fmt_cvec(pval))
            elif pk == "mat": toks.append(fmt_ccrs(n, pval))
            toks += [fmt_cvec(f), fmt_cvec(x0)]
            out.append(VtCase(cid, "c", solver, " ".join(toks), kc.solve_line(cid, solver, side, S, **prm)))
    # finite termination on genuinely complex data: GMRES-type methods without restart (M = n, maxiter = n) reach the solution of an
    # n x n system in n steps -- which they only do when the Arnoldi coefficients are <w, v_k> with the conjugate on the right vector
    for solver in ("gmres", "fgmres", "lgmres"):
        for si in range(4 if tier == "quick" else 16):
            n = r.choice([3, 5, 8])
            A = complex_matrix(r, n, hermitian=False)
            pk, pval, prow = complex_precond(r, n, solver, r.choice(["id", "diag"]), A)
            f = [(dyc(r, 8), dyc(r, 8)) for _ in range(n)]
            if all(a == 0 or b == 0 for a, b in f): f[0] = (F(1), F(-1, 2))
            x0 = [(dyc(r, 4, (1, 2)), dyc(r, 4, (1, 2))) for _ in range(n)]
            side = kc.side_for(r, solver)
            prm = kc.dyadic_prm(r, maxiter=n, M=n, K=0, tol=F(1, 2 ** 60))
            S = kc.Sys(2 * n, cexp_rows(n, A), "id" if pk == "id" else "mat", None if pk == "id" else cexp_rows(n, prow),
                       cexp_vec(f), cexp_vec(x0), False)
            cid = "vf%d" % len(out)
            toks = [cid, "cx.solve", solver, side, pk, kc.fmt_prm(**prm), fmt_ccrs(n, A)]
            if pk == "diag": toks.append(fmt_cvec(pval))
            toks += [fmt_cvec(f), fmt_cvec(x0)]
            c = VtCase(cid, "c", solver, " ".join(toks), kc.solve_line(cid, solver, side, S, **prm)); c.fin = n
            out.append(c)
    return out


def cases(tier, seed):
    return block_cases(tier, seed) + complex_cases(tier, seed)


# ------------------------------------------------------------------ IDR(s): draws of the block constructor
def with_block_idrs_raw(ctx, scalar_lines):
    """model-side lines of expanded block systems: the block constructor of idrs draws ONE number per block entry and
    stores it in both components (math::constant<rhs_type>); the scalar op idrs.raw m s of drv_krylov gives the draws
    for m entries, each is duplicated here"""
    keys = [kc.idrs_key(l) for l in scalar_lines]
    need = sorted(set((k[0] // 2, k[1]) for k in keys if k))
    raw = kc.idrs_raw(ctx, need)
    out = []
    for l, k in zip(scalar_lines, keys):
        if not k: out.append(l); continue
        rv = raw.get((k[0] // 2, k[1]))
        if rv is None: out.append(l); continue
        tk = rv.split(); vs = []; p = 0
        while p < len(tk):
            n = int(tk[p]); v = tk[p + 1:p + 1 + n]; p += 1 + n
            vs.append(" ".join([str(2 * n)] + [x for y in v for x in (y, y)]))
        out.append(l + " " + " ".join(vs))
    return out


# ------------------------------------------------------------------ running
def run(ctx, vcases, account, TMO=300):
    """returns list of failure dicts"""
    fails = []
    by_id = {c.cid: c for c in vcases}
    def case_lines(c): return [c.impl, c.scalar]
    for kind, drv in (("b", "krylov_vt@b"), ("c", "krylov_vt@c")):
        cs = [c for c in vcases if c.kind == kind]
        if not cs: continue
        impl = ctx["run_driver"](ctx["cpp"][drv], [c.impl for c in cs], timeout=TMO)
        account(ctx, [c.impl for c in cs], impl)
        for c in cs:
            a = impl.get(c.cid) or ""
            if a.startswith(("CRASH", "UNSUPPORTED", "INPUT-MODIFIED")) or a == "":
                fails.append(dict(kind="counterexample", case=c.impl, case_lines=case_lines(c), impl=a[:400], model=None, op="vt.solve:" + c.solver,
                                  size=len(c.impl), theorem="implementation run on a %s valued system (crash / modified input)" % ("block" if kind == "b" else "complex")))
        if kind == "b":
            # vt-1: the extracted model of the solver on the expanded scalar system
            ml = with_block_idrs_raw(ctx, [c.scalar for c in cs])
            model = ctx["run_driver"](ctx["model"], ml, timeout=TMO)
            for c in cs:
                a, b = impl.get(c.cid), model.get(c.cid)
                if a != b:
                    ctx["stats"]["mismatches"] += 1
                    fails.append(dict(kind="counterexample", case=c.impl, case_lines=case_lines(c), impl=(a or "")[:4000], model=(b or "")[:4000],
                                      op="vt.solve:" + c.solver, size=len(c.impl),
                                      theorem="correspondence drv_krylov_vt (%s on static_matrix<Q,2,2> via make_solver, exact) vs the extracted model "
                                              "Krylov.v on the expanded scalar system; spec theorems C01_*" % c.solver))
        # finite termination (complex, no restart): the reported residual after n steps (its truthfulness is checked below)
        for c in cs:
            if c.cid.startswith("vf"):          # (the cases travel as text lines: recognised by their id)
                pr = kc.parse_result(impl.get(c.cid) or "")
                ctx["stats"]["oracle_checks"] += 1
                try: bad = pr is None or F(pr[1]) > F(1, 10 ** 9)
                except (ValueError, ZeroDivisionError): bad = True        # nan / inf
                if bad:
                    ctx["stats"]["oracle_fail"] += 1
                    fails.append(dict(kind="counterexample", case=c.impl, case_lines=case_lines(c), impl=(impl.get(c.cid) or "")[:2000], model="residual <= 1e-9 after n steps (maxiter = M = n)",
                                      op="vt.fin:" + c.solver, size=len(c.impl), oracle=dict(op="finite-termination"),
                                      theorem="C05 finite termination on a complex system: %s without restart reaches the solution of an n x n system in n steps" % c.solver))
        # vt-2 / vt-3: truthfulness on the expanded system
        olines = []
        for c in cs:
            ol = kc.truth_line(c.scalar, impl.get(c.cid))
            if ol is None: continue
            if kind == "c":
                cid, op, rest = ol.split(" ", 2)
                ol = "%s vt.truth %s %s %s" % (cid, fmt_q(ATOL), fmt_q(RTOL), rest)
            olines.append(ol)
        res = ctx["run_driver"](ctx["model"], olines, timeout=TMO)
        for l in olines:
            cid, op = l.split(" ", 2)[:2]
            ctx["stats"]["oracle_checks"] += 1
            o = res.get(cid)
            if o is None or not o.startswith("OK"):
                ctx["stats"]["oracle_fail"] += 1
                c = by_id[cid]
                fails.append(dict(kind="counterexample", case=c.impl, case_lines=case_lines(c), impl=(impl.get(cid) or "")[:2000], model=None, op=op,
                                  oracle=dict(op=op, result=o, line=l[:2000]), size=len(c.impl),
                                  theorem="C01 oracle on a %s valued system: returned residual = ||f - A x_returned|| / ||f|| on the expanded real system "
                                          "(Krylov.true_res, %s) and iters <= maxiter (+L-1)" % (("block", "exact") if kind == "b" else ("complex", "exact recomputation, binary64 tolerance"))))
    return fails
