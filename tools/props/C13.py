"""C13 -- block, complex and mixed-precision formulations solve the same system.

  B  block adapter     : block_matrix adapter / unblock_matrix / block spmv on Kronecker-type and
                         structurally incomplete block matrices, b = 2..4 (driver adapters, op block):
                         implementation vs extracted Adapters.v + spec oracle (block spmv = scalar spmv)
  BI block instance    : Kernels.spmv / residual evaluated at the Scalar instance BlockS (second extracted model driver
                         "blockspmv": the objects of theorem C13_block_spmv) vs backend::spmv / residual on
                         crs<static_matrix<Q,b,b>> + re-interpreted vectors, on builtin_hybrid (scalar vectors), and
                         with Eigen::Matrix<double,b,b> blocks (double, dyadic data)
  Z  complex adapter   : 2x2 real expansion (double, dyadic values) vs model; complex systems
                         (Hermitian / shifted) solved exactly through the real-equivalent form,
                         checked against the complex system by the extracted cdotrow
  W  wrappers          : scalar / block value type / make_block_solver / as_block / as_scalar /
                         builtin_hybrid / block direct solve: same solution of the SCALAR system
                         (exact CG termination) and truthful reported residual (truncated runs)
  M  mixed precision   : float preconditioner under a double solver reaches 1e-8 (tested, not proved); round 2b: also
                         the combinations that RE-INTERPRET vectors (float builtin_hybrid under a double hybrid solver,
                         as_block with float blocks in a float AMG under a double solver, make_block_solver with float
                         blocks fed double vectors)
  MK mixed kernels     : spmv / residual / vmul of FLOAT block (and hybrid) matrices with DOUBLE scalar vectors on small
                         dyadic data (float and double arithmetic both exact) vs the extracted model at BlockS:
                         C13_hybrid_spmv_is_scalar / C13_block_spmv read at mixed precision -- the model has one Scalar;
                         the claim tied here is that the vector view (reinterpret_as_rhs) does not depend on the matrix
                         precision (C13_mixed_precision_view).  Complex vectors through complex blocks: the view itself
                         (op cview) vs BlockSpmv.as_rhs at ComplexS.
"""
import random
from fractions import Fraction as F
from vcheck import fmt_q, fmt_vec, fmt_crs, split_top
import gen
from props.common import diff_run, oracle_run, account
from props import C17 as c17
from props import vtmodel

DRIVERS = ["adapters", "blocks", "blocks3", "blocks4", "mixed", "blocks_spmv", "adapters_vteig"]
EXTRA_FLAGS = {"adapters_vteig": ["-I/usr/include/eigen3"]}
MODEL = "adapters"
ASSUMPTIONS = [
    "amgcl templates instantiated at the exact rational vq::Q execute the same code as at double",
    "in exact arithmetic preconditioned CG on an SPD system with a symmetric preconditioner terminates with the exact solution within n iterations (used to make all formulations comparable)",
    "mixed precision: a rounding statement, tested on the model problems in the double/float build, not proved",
    "Eigen block value types (Eigen::Matrix<double,b,b>) are driven in double on dyadic data (every operation exact) for the block adapter + block spmv only; solves with Eigen blocks are not driven",
]
TRUSTED_BASE = ["harness/drv_adapters.cpp (ops block, cplx, cplx_solve), drv_blocks*.cpp, drv_blocks_spmv.cpp, drv_adapters_vt.cpp (Eigen build), drv_mixed.cpp (mixed-precision solves; float-block x double-vector kernels on dyadic data); ocaml/adapters/ops_adapters.ml, ocaml/blockspmv/ops_blockspmv.ml (second extracted model driver: Extract_blockspmv.v)"]
VARIANTS = ["scalar", "block", "mbs", "mbs_bv", "direct", "as_block", "as_scalar", "hybrid"]


def wrapper_cases(tier, seed):
    r = random.Random(seed * 1000 + 131)
    N = 8 if tier == "quick" else 40
    out = []
    for it in range(N):
        b = [2, 2, 3, 2, 3, 4][it % 6]
        nb = r.choice([2, 3, 4]) if b == 2 else r.choice([2, 3]) if b == 3 else 2
        if b == 2 and it % 4 == 0: nb = 5
        n = b * nb
        rows = gen.spd_block(r, b, nb, incomplete=(it % 3 != 0), kron=(it % 5 == 4))
        f = gen.rvec(r, n, nz=True)
        vs = VARIANTS if b < 4 else ["scalar", "mbs", "mbs_bv", "direct", "hybrid"]
        for v in vs:
            out.append(("w%d" % len(out), b, "bsolve %d %s %d %s %s" % (b, v, n + 2, fmt_crs(n, n, rows), fmt_vec(f)), "full", n, rows, f))
            if v != "direct":
                out.append(("w%d" % len(out), b, "bsolve %d %s %d %s %s" % (b, v, r.choice([1, 2, 3]), fmt_crs(n, n, rows), fmt_vec(f)), "trunc", n, rows, f))
            if v == "direct":
                # a NON-symmetric, diagonally dominant system (non-symmetric diagonal blocks, non-symmetric pivots of the block skyline LU):
                # the block inverse must be the inverse, not its transpose (seeded C13-7)
                ns = gen.nonsym_dd(r, n, density=r.choice([0.4, 0.7, 1.0]))
                out.append(("w%d" % len(out), b, "bsolve %d %s %d %s %s" % (b, v, n + 2, fmt_crs(n, n, ns), fmt_vec(f)), "full", n, ns, f))
            if v == "mbs_bv":
                # right-hand side supported in the trailing part of the vector only (a norm taken over a truncated view would be zero)
                ft = [F(0)] * (n - b) + [F(k + 1) for k in range(b)]
                out.append(("w%d" % len(out), b, "bsolve %d %s %d %s %s" % (b, v, n + 2, fmt_crs(n, n, rows), fmt_vec(ft)), "full", n, rows, ft))
            if v == "mbs":
                # the same matrix listed with its trailing rows in descending column order (leading rows sorted): make_block_solver
                # has to see the same entries whatever the listing (seeded C13-5: a sortedness test that looks at the first n/b rows only)
                s0 = r.randint(max(1, n // b), n - 1)
                tail = [list(rw) if i < s0 else list(reversed(rw)) for i, rw in enumerate(rows)]
                out.append(("w%d" % len(out), b, "bsolve %d %s %d %s %s" % (b, v, n + 2, fmt_crs(n, n, tail), fmt_vec(f)), "full", n, rows, f))
    return out


def complex_solve_cases(tier, seed):
    r = random.Random(seed * 1000 + 132)
    N = 25 if tier == "quick" else 200
    out = []
    for it in range(N):
        n = r.choice([1, 2, 3, 4, 5, 6])
        herm = it % 2 == 0
        re = [dict() for _ in range(n)]; im = [dict() for _ in range(n)]
        for i in range(n):
            for j in range(i + 1, n):
                if r.random() < 0.5:
                    a, bb = gen.rq(r, nz=True), gen.rq(r)
                    re[i][j] = a; im[i][j] = bb
                    if herm: re[j][i] = a; im[j][i] = -bb
                    else: re[j][i] = gen.rq(r, nz=True); im[j][i] = gen.rq(r)
        shift = F(0) if herm else gen.rq(r, nz=True)          # shifted system: A + i*sigma*I
        for i in range(n):
            off = sum(abs(re[i][j]) + abs(im[i][j]) for j in re[i])
            re[i][i] = off + abs(shift) + F(r.choice([1, 2, 3]), r.choice([1, 2])); im[i][i] = shift
        rre = [sorted(d.items()) for d in re]; rim = [sorted(d.items()) for d in im]
        fr = gen.rvec(r, n); fi = gen.rvec(r, n)
        out.append("zs%d cplx_solve %s %s %s %s" % (it, fmt_crs(n, n, rre), fmt_crs(n, n, rim), fmt_vec(fr), fmt_vec(fi)))
    return out


def mixed_cases(tier):
    cs = [("cg_sa_spai0", 2, 32, "1"), ("cg_sa_spai0", 2, 48, "1/8"), ("cg_sa_spai0", 3, 10, "1"),
          ("bicgstab_agg_ilu0", 2, 40, "1"), ("bicgstab_agg_ilu0", 3, 12, "1"), ("block2_cg_sa_spai0", 2, 24, "1"),
          ("block2_cg_sa_spai0", 3, 8, "1")]
    if tier != "quick":
        cs += [("cg_sa_spai0", 2, 96, "1"), ("cg_sa_spai0", 3, 20, "1/4"), ("bicgstab_agg_ilu0", 2, 100, "1/16"), ("block2_cg_sa_spai0", 2, 64, "1")]
    return ["m%d mixed %s %d %d %s" % (k, c[0], c[1], c[2], c[3]) for k, c in enumerate(cs)]


def mixed_reinterp_cases(tier):
    """mixed precision x re-interpretation (seeded C13-2): kind dim m eps b"""
    cs = [("hybrid_fd", 2, 20, "1", 2), ("hybrid_fd", 3, 6, "1", 3), ("hybrid_fd", 2, 24, "1/8", 2),
          ("as_block_fd", 2, 20, "1", 2), ("as_block_fd", 3, 6, "1/4", 3), ("as_block_fd", 2, 16, "1", 3),
          ("mbs_fd", 2, 20, "1", 2), ("mbs_fd", 3, 6, "1", 3), ("mbs_fd", 2, 24, "1/8", 2)]
    if tier != "quick":
        cs += [("hybrid_fd", 2, 64, "1", 2), ("hybrid_fd", 3, 12, "1/4", 3), ("as_block_fd", 2, 64, "1", 2),
               ("as_block_fd", 3, 12, "1", 3), ("mbs_fd", 2, 64, "1/16", 2), ("mbs_fd", 3, 12, "1", 3)]
    return ["mr%d mixed %s %d %d %s %d" % (k, c[0], c[1], c[2], c[3], c[4]) for k, c in enumerate(cs)]


def mixed_kernel_cases(tier, seed):
    """float block / hybrid matrices x double scalar vectors, dyadic data (|numerators| <= 8, denominators <= 4, at most 16
    entries per row): every product and every partial sum has < 20 significant bits, exact in binary32 and binary64"""
    out = []
    for l in block_instance_cases(tier, seed + 2, prefix="mx", dyadic=True, N=(60 if tier == "quick" else 400)):
        out.append(l)
        cid, op, rest = l.split(" ", 2)
        # scalar float matrix x vectors of double blocks: same numbers, the model line is the hybrid one (= scalar product)
        t3 = rest.split(" ", 3); divisible = (int(t3[1]) % int(t3[0]) == 0 and int(t3[2]) % int(t3[0]) == 0)
        if op == "hspmv":
            out.append("%sb sbspmv %s" % (cid, rest))
            if divisible: out.append("%sc sspmv %s" % (cid, rest))     # (the model op needs the block view to exist)
        if op == "hresid":
            out.append("%sb sbresid %s" % (cid, rest))
            if divisible: out.append("%sc sresid %s" % (cid, rest))
    # LONG-MANTISSA vectors: the double vectors get entries a + k*2^-30 (33 significant bits: not representable in
    # binary32) while the float matrix keeps its short dyadic entries; every product and partial sum still has < 50
    # bits, so the double computation is exact and must equal the rational model -- unless the kernel accumulates (or
    # views the vectors) in the precision of the MATRIX instead of the vectors
    rl = random.Random(seed * 1000 + 134)
    def longv(tokens):   # tokens of one vector: n v1 .. vn
        n = int(tokens[0])
        return [tokens[0]] + [fmt_q(F(t) + F(rl.randint(-8, 8), 2 ** 30)) for t in tokens[1:1 + n]]
    extra = []
    for l in out:
        cid, op, rest = l.split(" ", 2)
        toks = rest.split(); b = toks[0]; n = int(toks[1]); k = 3
        for _ in range(n):
            cnt = int(toks[k]); k += 1 + 2 * cnt
        head, tail = toks[:k], toks[k:]
        # (block-valued FLOAT matrices multiply block by block in float -- static_matrix<float> * vector block -- so the
        #  long-mantissa variant is for the SCALAR float matrix ops only: sspmv / sresid / sbspmv / sbresid)
        if op in ("sspmv", "sbspmv"):       # x alpha beta y
            nx = int(tail[0]); x = tail[:1 + nx]; ab = tail[1 + nx:3 + nx]; y = tail[3 + nx:]
            extra.append(" ".join([cid + "L", op] + head + longv(x) + ab + longv(y)))
        elif op in ("sresid", "sbresid"):  # f x r
            nf = int(tail[0]); f_ = tail[:1 + nf]; nx = int(tail[1 + nf]); x = tail[1 + nf:2 + nf + nx]; rr = tail[2 + nf + nx:]
            extra.append(" ".join([cid + "L", op] + head + longv(f_) + longv(x) + rr))
    out += extra
    r = random.Random(seed * 1000 + 133)
    for it in range(30 if tier == "quick" else 200):
        b = r.choice([2, 3, 4]); n = r.choice([1, 2, 3, 5])
        X = [vtmodel.rand_block(r, b) for _ in range(n)]
        y = [c17.dy(r) for _ in range(n * b)]; z = [c17.dy(r) for _ in range(n * b)]
        alpha = r.choice([F(1), F(-1), c17.dy(r, True)]); beta = r.choice([F(0), F(1), c17.dy(r, True)])
        out.append("mxv%d bvmul %d %d %s %s %s %s %s" % (it, b, n, " ".join(vtmodel.fmt_blk(v) for v in X), fmt_vec(y), fmt_q(alpha), fmt_q(beta), fmt_vec(z)))
    return out


def cview_cases():
    return ["mxc%d cview %d %d" % (k, b, n) for k, (b, n) in enumerate([(2, 2), (2, 8), (3, 3), (3, 12), (4, 4), (4, 16)])]


def vtok(s):
    xs = s.strip()[1:-1].split()
    return " ".join([str(len(xs))] + xs)


def run(ctx, cases_override=None):
    tier, seed = ctx["tier"], ctx["seed"]
    fails = []
    if cases_override:
        for l in cases_override:
            op = l.split()[1]
            if l.startswith("mx"): fails += run_mixed_kernels(ctx, [l]); continue
            if op == "bsolve": fails += run_wrappers(ctx, [("r0", int(l.split()[2]), l.split(" ", 1)[1], "full" if int(l.split()[4]) > 3 else "trunc", 0, None, None)])
            elif op == "cplx_solve": fails += run_cplx_solve(ctx, [l])
            elif op == "mixed": fails += run_mixed(ctx, [l])
            elif op in ("bspmv", "hspmv", "bresid", "hresid", "eig_block"): fails += run_block_instance(ctx, [l])
            else:
                f, _, _ = diff_run(ctx, "adapters", [l]); fails += f
        return fails
    # ---- B, Z: adapters vs model, spec oracle for the block product
    v = c17.block_cases(tier, seed + 7, prefix="b") + c17.complex_cases(tier, seed + 7, prefix="z")
    # the block adapter on top of the other adapters (row builder, zero-copy, tuple): every square block case again
    comp = []
    for l in v:
        sp = l.split(" ", 3)
        if sp[1] == "block":
            dims_ = sp[3].split(" ", 2)
            if dims_[0] == dims_[1]:
                for u in ("builder", "zero_copy", "tuple"):
                    comp.append("%s%s block_over %s %s %s" % (sp[0], u[0], u, sp[2], sp[3]))
    v = v + comp
    f, impl, model = diff_run(ctx, "adapters", v, theorem="correspondence drv_adapters vs Adapters.v (block_matrix adapter, unblock_matrix, block spmv, complex adapter; theorems C13_unblock_block_dense, C13_complex_adapter_action)")
    fails += f
    ol = []; byid = {}
    for l in v:
        sp = l.split(" ", 3)
        if sp[1] == "block" and impl.get(sp[0], "").startswith(tuple("0123456789")):
            items = split_top(impl[sp[0]])
            ol.append("%s o.spmv_same %s %s" % (sp[0], sp[3], vtok(items[-1]))); byid[sp[0]] = l
    fails += oracle_run(ctx, ol, "C13: block formulation represents the same operator: block spmv = scalar spmv of the source matrix", lambda cid: byid[cid])
    fails += run_block_instance(ctx)
    fails += run_cplx_solve(ctx, complex_solve_cases(tier, seed))
    # ---- W: wrappers (skipped when the adapter stage already failed: with a broken block adapter
    # the exact CG runs do not terminate early and only cost time; the failing input is already found)
    if not fails:
        fails += run_wrappers(ctx, wrapper_cases(tier, seed))
    # ---- M: mixed precision (tested), MK: mixed-precision kernels with re-interpreted vectors (exact)
    fails += run_mixed_kernels(ctx)
    fails += run_mixed(ctx, mixed_cases(tier) + mixed_reinterp_cases(tier))
    return fails


def run_mixed_kernels(ctx, lines=None):
    """float block / hybrid matrix, DOUBLE scalar vectors (drv_mixed.cpp) vs the extracted model at BlockS (model driver
    blockspmv).  The model has ONE Scalar: agreement says the result -- in particular the element type of the vector view
    backend::reinterpret_as_rhs -- does not depend on the precision of the matrix."""
    tier, seed = ctx["tier"], ctx["seed"]
    ctx2 = vtmodel.model_ctx(ctx)
    if lines is None: lines = mixed_kernel_cases(tier, seed) + cview_cases()
    SB = {"sbspmv": "hspmv", "sbresid": "hresid", "sspmv": "hspmv", "sresid": "hresid"}
    mlines = [(lambda sp: " ".join([sp[0], SB.get(sp[1], sp[1])] + sp[2:]))(l.split(" ", 2)) for l in lines]
    f, _, _ = diff_run(ctx2, "mixed", lines, shards=8, timeout=300, model_lines=mlines,
                       theorem="correspondence drv_mixed (float blocks x double vectors, re-interpreted) vs Kernels.spmv / residual / vmul at BlockS on BlockSpmv.block_matrix / as_rhs (C13_hybrid_spmv_is_scalar, C13_block_spmv, C13_mixed_precision_view: the vector view does not depend on the matrix precision)")
    for x in f: x["group"] = "mixed-kernel"
    return f


def classify(fail):
    """the only listed finding: a std::complex vector re-interpreted through COMPLEX blocks comes out as a view of REAL
    b-vectors (one element per complex number: static_matrix::replace_scalar puts the bare real scalar into the rhs type).
    Signature only for exactly that shape; any other difference is a new violation."""
    if fail.get("group") != "mixed-kernel" or fail.get("op") != "cview": return {}
    try:
        toks = fail["case"].split(); b, n = int(toks[2]), int(toks[3])
        want = "elements=%d complex_per_element=%d bytes_per_element=%d" % (n // b, b, 16 * b)
        got = "elements=%d complex_per_element=%d bytes_per_element=%d" % (n * 16 // (8 * b), (8 * b) // 16, 8 * b)
        if fail.get("model") == want and fail.get("impl") == got:
            return dict(group="mixed-kernel", op="cview", site="backend::reinterpret_as_rhs", vector="std::complex",
                        blocks="complex", view="real-b-vectors")
    except Exception:
        pass
    return {}


def block_instance_cases(tier, seed, prefix="bi", dyadic=False, N=None):
    """the objects of theorem C13_block_spmv: block spmv / residual (block vectors and hybrid scalar vectors)"""
    out = []
    for l in c17.block_cases(tier, seed + 11, prefix=prefix, dyadic=dyadic)[:N]:
        cid, _, rest = l.split(" ", 2)
        out.append("%ss bspmv %s" % (cid, rest)); out.append("%sh hspmv %s" % (cid, rest))
        toks = rest.split(); b = toks[0]; n = int(toks[1]); k = 3
        for _ in range(n):
            cnt = int(toks[k]); k += 1 + 2 * cnt
        crs = " ".join(toks[1:k]); rest2 = toks[k:]
        nx = int(rest2[0]); x = rest2[:1 + nx]; y = rest2[3 + nx:]
        out.append("%sr bresid %s %s %s %s %s" % (cid, b, crs, " ".join(y), " ".join(x), " ".join(y)))
        out.append("%sq hresid %s %s %s %s %s" % (cid, b, crs, " ".join(y), " ".join(x), " ".join(y)))
    return out


def run_block_instance(ctx, lines=None):
    """Kernels.spmv / Kernels.residual evaluated AT THE SCALAR INSTANCE BlockS on BlockSpmv.block_matrix / as_rhs (second
    extracted model driver) vs the C++ templates instantiated with static_matrix<Q,b,b> (exact) and with
    Eigen::Matrix<double,b,b> (double, dyadic data)"""
    tier, seed = ctx["tier"], ctx["seed"]
    ctx2 = vtmodel.model_ctx(ctx)
    if lines is None:
        ex = block_instance_cases(tier, seed)
        eg = c17.block_cases(tier, seed + 12, prefix="be", op="eig_block", dyadic=True)
    else:
        ex = [l for l in lines if l.split()[1] != "eig_block"]; eg = [l for l in lines if l.split()[1] == "eig_block"]
    fails = []
    if ex:
        f, _, _ = diff_run(ctx2, "blocks_spmv", ex, theorem="correspondence drv_blocks_spmv vs Kernels.spmv / Kernels.residual at the Scalar instance BlockS on BlockSpmv.block_matrix (theorems C13_block_spmv, C13_block_residual, C13_hybrid_spmv_is_scalar, C13_hybrid_residual_is_scalar)")
        fails += f
    if eg:
        f, _, _ = diff_run(ctx2, "adapters_vteig", eg, theorem="correspondence: block adapter + block spmv with Eigen::Matrix<double,b,b> values vs the model at BlockS (C13_block_spmv)", shards=8)
        fails += f
    return fails


def run_cplx_solve(ctx, lines):
    impl = ctx["run_driver"](ctx["cpp"]["adapters"], lines)
    account(ctx, lines, impl)
    ol = []; byid = {}; fails = []
    for l in lines:
        cid, op, payload = l.split(" ", 2); byid[cid] = l
        o = impl.get(cid, "")
        if not o.startswith("["):
            fails.append(dict(kind="counterexample", case=l, impl=o, model=None, op=op, size=len(l), theorem="complex system through the real-equivalent form: solve failed")); continue
        ol.append("%s o.cplx_solves %s %s" % (cid, payload, vtok(o)))
    fails += oracle_run(ctx, ol, "C13: a complex system and its real-equivalent form (complex adapter) have the same solution", lambda cid: byid[cid])
    return fails


def run_wrappers(ctx, cs):
    fails = []
    by_drv = {2: "blocks", 3: "blocks3", 4: "blocks4"}
    impl = {}
    for b, drv in by_drv.items():
        sub = ["%s %s" % (c[0], c[2]) for c in cs if c[1] == b]
        if sub:
            res = c17.run_all(ctx, ctx["cpp"][drv], sub, timeout=1500)
            account(ctx, sub, res); impl.update(res)
    ol = []; byid = {}
    for c in cs:
        cid = c[0]; line = "%s %s" % (cid, c[2]); byid[cid] = line
        o = impl.get(cid, "")
        toks = c[2].split()           # bsolve b variant maxiter crs f
        payload = " ".join(toks[4:])  # crs f
        items = split_top(o) if o and o[0].isdigit() else None
        if not items or len(items) != 3:
            fails.append(dict(kind="counterexample", case=line, impl=o, model=None, op="bsolve", size=len(line),
                              theorem="C13: %s formulation failed on a block-structured SPD system" % toks[2])); continue
        iters, resid, x = items
        if c[3] == "full":
            ol.append("%s o.solves %s %s" % (cid, payload, vtok(x)))
            if resid != "0":
                fails.append(dict(kind="counterexample", case=line, impl=o, model="reported residual 0", op="bsolve", size=len(line),
                                  theorem="C13: truthful residual (exact convergence reported as non-zero residual), %s" % toks[2]))
        ol.append("%sr o.resid %s %s %s" % (cid, payload, vtok(x), resid)); byid[cid + "r"] = line
    fails += oracle_run(ctx, ol, "C13: every block formulation returns a solution of the scalar system with a truthful residual", lambda cid: byid[cid])
    return fails


def run_mixed(ctx, lines):
    # one process per case (at most 16), 10 minutes at most: a broken tree (NaN / denormal garbage in the vectors)
    # must not stall the run
    impl = ctx["run_driver"](ctx["cpp"]["mixed"], lines, shards=16, timeout=600)
    account(ctx, lines, impl, nontrivial=lambda op, p, o: bool(o) and not o.startswith(("EXC", "CRASH")))
    fails = []
    for l in lines:
        cid = l.split()[0]; o = impl.get(cid, "")
        ctx["stats"]["oracle_checks"] += 1
        if o != "reported<=1e-8:1 true<=1e-7:1 iters<max:1":
            ctx["stats"]["oracle_fail"] += 1
            fails.append(dict(kind="counterexample", case=l, impl=o, model="reported<=1e-8:1 true<=1e-7:1 iters<max:1", op="mixed", size=len(l),
                              theorem="C13 (tested): single-precision preconditioner under a double-precision solver reaches 1e-8 on the model problems"))
    return fails
