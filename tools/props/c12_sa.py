"""c12_sa.py -- C12: distributed smoothed aggregation (amgcl/mpi/coarsening/smoothed_aggregation.hpp) against the Coq model
DistSa.v, and the formula oracle on the operators recorded during `solve` / `bsolve`.

ops of drv_mpi_solve:   sa  <eps_strong=q relax=q esr=0|1 levels=k> -- A parts
                        bsa <eps_strong=q relax=q levels=k> -- 2 A(block crs) parts
    ONE coarsening object, transfer_operators called `levels` times on the same distributed matrix (eps_strong halved inside
    every call, as mpi::amg uses the object level after level); before every call the driver runs pmis<Backend> on a copy of
    the aggregation parameters.  Every rank reports per call  na=<aggregates> T<P_tent strip> S<strength pattern> P<strip> R<strip>.
model op m.dsa (ocaml/distsolve/ops_distsa.ml): the extracted DistSa.dist_sa_level at QcS resp. BlockS QcS 2.

Comparison of the assembled (T, S, P, R) of every call:
    T, S, na  always exactly (integers / identity entries);
    P, R      EXACTLY when the arithmetic of the call is exact at double -- decided here from the case alone by an exact
              replica of the strength test: every filtered diagonal Df_i is +-2^k (blocks: upper triangular with +-2^k on
              the diagonal, so detail::inverse makes no rounding error), omega (the double value of relax * (2.0/3) resp.
              relax * ((4.0/3)/rho)) has <= 8 mantissa bits and the entries of A are short dyadics;
              otherwise to 2^-40 relative (the double run rounds 1/Df_i, omega * .. and the sums).
The exact family is generated on purpose (filtered diagonals fixed up to powers of two, relax = 3/4, 3/2, 3/8 so that omega
= 1/2, 1, 1/4 at double); block cases use upper triangular filtered diagonals whose inverses do NOT commute with the
off-diagonal blocks, so the operand order dia_f * A.val[j] is visible exactly."""
import random, re
from fractions import Fraction as F
from vcheck import fmt_q, fmt_ivec, fmt_crs
import gen
from props import blockvals as bv

C23 = F(2.0 / 3)      # static_cast<double>(2.0/3), exactly
C43 = F(4.0 / 3)
REL_TOL = F(1, 2**40)


# ---------------------------------------------------------------- exact replica of the strength test (case generation and
# the decision "is the double arithmetic of this call exact"; the COMPARISON is against the Coq model, not against this)
def _tr(X): return X if isinstance(X, F) else sum(X[i][i] for i in range(len(X)))
def _mul(X, Y): return X * Y if isinstance(X, F) else bv.bl_mul(X, Y)
def _add(X, Y): return X + Y if isinstance(X, F) else bv.bl_add(X, Y)
def _scal(c, X): return c * X if isinstance(X, F) else bv.bl_scale(c, X)

def strength(rows, eps2):
    """flags per stored entry: col == i or trace(eps2 * D_i * D_c) < trace(v * v); D = first stored diagonal entry"""
    D = {}
    for i, rw in enumerate(rows):
        for c, v in rw:
            if c == i: D[i] = v; break
    out = []
    for i, rw in enumerate(rows):
        fl = []
        for c, v in rw:
            if c == i: fl.append(True); continue
            if i not in D or c not in D: fl.append(None); continue      # uninitialised diagonal: no statement
            fl.append(_tr(_mul(_scal(eps2, D[i]), D[c])) < _tr(_mul(v, v)))
        out.append(fl)
    return out

def filtered_diag(rows, flags):
    out = []
    for i, (rw, fl) in enumerate(zip(rows, flags)):
        d = None
        for (c, v), s in zip(rw, fl):
            if c == i or not s: d = v if d is None else _add(d, v)
        out.append(d)
    return out

def is_pow2(q):
    q = abs(q)
    if q == 0: return False
    n, d = q.numerator, q.denominator
    return (n & (n - 1)) == 0 and (d & (d - 1)) == 0
def short_dyadic(q, bits=16):
    d = q.denominator
    return (d & (d - 1)) == 0 and abs(q.numerator).bit_length() <= bits and d.bit_length() <= bits
def exact_inverse(D):
    """detail::inverse / 1/x makes no rounding error: +-2^k, or upper triangular block with +-2^k on the diagonal"""
    if D is None: return False
    if isinstance(D, F): return is_pow2(D)
    b = len(D)
    return all(is_pow2(D[i][i]) for i in range(b)) and all(D[i][j] == 0 for i in range(b) for j in range(i)) and \
           all(short_dyadic(D[i][j]) for i in range(b) for j in range(b))

def call_is_exact(rows, eps, level, omega_d):
    e = eps / 2**level
    if not short_dyadic(e, 20) or not short_dyadic(F(omega_d), 8): return False
    fl = strength(rows, e * e)
    if any(s is None for f_ in fl for s in f_): return False
    if not all(exact_inverse(d) for d in filtered_diag(rows, fl)): return False
    vals = [x for rw in rows for _, v in rw for x in ([v] if isinstance(v, F) else bv.bl_flat(v))]
    return all(short_dyadic(x) for x in vals)


# ---------------------------------------------------------------- case generation
def _graph(r, n):
    edges = set()
    for i in range(1, n):
        edges.add((r.randrange(max(0, i - 3), i), i))
    for _ in range(r.randint(0, n)):
        i, j = r.randrange(n), r.randrange(n)
        if i != j: edges.add((min(i, j), max(i, j)))
    return sorted(edges)

S_BIG = [F(-4), F(-2), F(-3), F(2), F(-2)]
S_MED = [F(-1), F(-1), F(1), F(-3, 2)]
S_TINY = [F(-1, 4), F(-1, 8), F(1, 8), F(-1, 2)]
S_TARGET = [F(2), F(4), F(4), F(8), F(1)]

B_BIG = [[[F(-2), F(1)], [F(0), F(-3)]], [[F(-4), F(0)], [F(1), F(-2)]], [[F(-2), F(-1)], [F(-1), F(-2)]], [[F(3), F(1)], [F(-1), F(2)]], [[F(-2), F(0)], [F(0), F(-4)]]]
B_MED = [[[F(-1), F(1, 2)], [F(0), F(-1)]], [[F(-1), F(0)], [F(1, 2), F(-1, 2)]], [[F(1), F(0)], [F(0), F(-1)]]]
B_TINY = [[[F(-1, 4), F(1, 8)], [F(0), F(-1, 8)]], [[F(-1, 8), F(0)], [F(1, 8), F(-1, 4)]], [[F(1, 8), F(-1, 8)], [F(0), F(-1, 8)]], [[F(0), F(1, 4)], [F(-1, 4), F(0)]]]
B_TARGET = [[[F(2), F(1)], [F(0), F(4)]], [[F(4), F(-1)], [F(0), F(2)]], [[F(2), F(0)], [F(0), F(4)]], [[F(4), F(1, 2)], [F(0), F(4)]],
            [[F(1), F(1)], [F(0), F(2)]], [[F(8), F(-2)], [F(0), F(2)]], [[F(4), F(0)], [F(0), F(4)]]]

def sa_matrix(r, n, eps, block):
    """matrix whose filtered diagonal at level 0 is a power of two (blocks: upper triangular, powers of two on the diagonal):
    the diagonal entry is target - (sum of the entries INTENDED to be weak); accepted when the strength test agrees with the
    intention (a few retries), else returned as it is (the comparison then runs in tolerance mode)"""
    BIG, MED, TINY, TGT = (B_BIG, B_MED, B_TINY, B_TARGET) if block else (S_BIG, S_MED, S_TINY, S_TARGET)
    zero = bv.bl_zero(2) if block else F(0)
    rows = None
    for attempt in range(40):
        edges = _graph(r, n)
        ent = [dict() for _ in range(n)]
        for (i, j) in edges:
            cls = r.choice(["big", "big", "med", "tiny", "tiny"])
            pool = {"big": BIG, "med": MED, "tiny": TINY}[cls]
            v = r.choice(pool)
            w = v if r.random() < 0.6 else r.choice(pool)                    # values need not be symmetric
            if block and w is v and r.random() < 0.5: w = bv.bl_T(v)
            one_sided = r.random() < 0.08
            ent[i][j] = v
            if not one_sided: ent[j][i] = w
        tgt = [r.choice(TGT) for _ in range(n)]
        diag = list(tgt)
        for _ in range(4):              # fixed point: weak set under the current diagonal -> new diagonal
            rows = [sorted(list(ent[i].items()) + [(i, diag[i])], key=lambda e: e[0]) for i in range(n)]
            fl = strength(rows, eps * eps)
            new = []
            for i in range(n):
                wk = zero
                for (c, v), s in zip(rows[i], fl[i]):
                    if c != i and not s: wk = _add(wk, v)
                new.append(_add(tgt[i], _scal(F(-1), wk)))
            if new == diag: break
            diag = new
        rows = [sorted(list(ent[i].items()) + [(i, diag[i])], key=lambda e: e[0]) for i in range(n)]
        fl = strength(rows, eps * eps)
        if all(exact_inverse(d) for d in filtered_diag(rows, fl)): break
    if r.random() < 0.25:               # storage order is free: shuffle the entries of some rows
        for rw in rows:
            if r.random() < 0.5: r.shuffle(rw)
    return rows

def sa_cases(tier, seed):
    r = random.Random(seed * 1000 + 1271)
    quick = tier == "quick"
    out = []
    for np_ in ([1, 2, 3, 4] if quick else [1, 2, 3, 4, 5, 6, 8]):
        k = 0
        for it in range((30 if np_ == 1 else 80) if quick else 300):
            block = it % 3 == 2
            n = r.randint(max(3, np_), 12 if block else 20)
            eps = r.choice([F(1, 4), F(1, 4), F(1, 2), F(1, 8), F(0), F(2, 25)])
            if eps == F(2, 25): eps = F(0.08)                        # the default, as the double the parser produces
            esr = (not block) and r.random() < 0.2
            relax = r.choice([F(3, 4), F(3, 4), F(3, 2), F(3, 8), F(1)]) if not esr else r.choice([F(1), F(3, 4)])
            levels = r.choice([1, 2, 2, 3])
            # stay on the non-breakdown side: every filtered diagonal of every call is invertible (the C++ divides by it
            # without a guard; x/0 is inf there and 0 in the exact model)
            for attempt in range(20):
                A = sa_matrix(r, n, eps if eps.denominator <= 64 else F(1, 4), block)
                ok = 0
                for l in range(levels):
                    fl = strength(A, (eps / 2**l) ** 2)
                    if all(d is not None and (bv.bl_det(d) if block else d) != 0 for d in filtered_diag(A, fl)): ok += 1
                    else: break
                if ok >= 1: levels = ok; break
            else: continue
            p = gen.rcomposition(r, n, np_, empty_bias=0.12)
            cfg = "eps_strong=%s relax=%s esr=%d levels=%d" % (fmt_q(eps), fmt_q(relax), 1 if esr else 0, levels)
            if block: out.append("p%d.u%d bsa %s -- 2 %s %s" % (np_, k, cfg, bv.fmt_bcrs(n, n, A), fmt_ivec(p)))
            else:     out.append("p%d.s%d sa %s -- %s %s" % (np_, k, cfg, fmt_crs(n, n, A), fmt_ivec(p)))
            k += 1
    return out


# ---------------------------------------------------------------- parsing
LEVEL_RE = re.compile(r"na=(\[[^\]]*\]|\d+) T(\{[^}]*\}) S(\{[^}]*\}) P(\{[^}]*\}) R(\{[^}]*\})")

def parse_mat(s_):
    """'{n m | c:v[,v..] ... | ...}' (pattern rows: 'c' or 'c:1') -> (n, m, rows of (col, tuple of Fractions))"""
    s_ = s_.strip(); assert s_[0] == "{" and s_[-1] == "}", s_[:40]
    parts = s_[1:-1].split("|")
    n, m = [int(x) for x in parts[0].split()]
    rows = []
    for p_ in parts[1:]:
        rw = []
        for e in p_.split():
            if ":" in e:
                c, v = e.split(":"); rw.append((int(c), tuple(F(x) for x in v.split(","))))
            else: rw.append((int(e), (F(1),)))
        rows.append(sorted(rw))
    assert len(rows) == n, (len(rows), n)
    return n, m, rows

def assemble_mats(strs):
    n = 0; m = None; rows = []
    for s_ in strs:
        k, mm, rw = parse_mat(s_)
        if m is None: m = mm
        elif m != mm: raise ValueError("ranks disagree on the global column count")
        n += k; rows += rw
    return n, m, rows

class SaCase:
    def __init__(self, line):
        cid, op, rest = line.split(" ", 2)
        self.cid, self.op = cid, op
        head, tail = rest.split(" -- ", 1)
        self.kv = dict(w.split("=", 1) for w in head.split())
        t = bv.Toks(tail)
        self.b = t.i() if op == "bsa" else 1
        if op == "bsa": self.n, m, self.rows = t.bcrs(self.b)
        else: self.n, m, self.rows = t.crs()
        self.parts = [t.i() for _ in range(t.i())]
        self.eps = F(self.kv["eps_strong"]); self.relax = F(self.kv["relax"])
        self.esr = self.kv.get("esr", "0") != "0"; self.levels = int(self.kv["levels"])
        self.A_tok = tail.rsplit(" ", len(self.parts) + 1)[0]       # "<b> A" resp. "A"

    def omega_d(self):
        """the value of the C++ expression at double (smoothed_aggregation.hpp:117-122)"""
        relax = float(self.relax)
        if not self.esr: return relax * (2.0 / 3)
        rho = 0.0                                            # spectral_radius<true>(A, 0): Gershgorin, scaled by |1/dia|
        for i, rw in enumerate(self.rows):
            s = 0.0; dia = 1.0
            for c, v in rw:
                s += abs(float(v))
                if c == i: dia = float(v)
            rho = max(rho, s * abs(1.0 / dia))
        return relax * ((4.0 / 3) / rho)

    def model_line(self):
        om = F(self.omega_d())
        b_A = self.A_tok if self.op == "bsa" else "1 " + self.A_tok
        return "%s.m m.dsa %s %s %s 1/2 %s %s %d %d %s" % (self.cid, b_A, fmt_ivec(self.parts), fmt_q(self.eps), fmt_q(self.relax),
                fmt_q(C43 if self.esr else C23), 1 if self.esr else 0, self.levels, " ".join([fmt_q(om)] * self.levels))


def check_sa(line, out, np_, fails, ctx):
    c = SaCase(line)
    def fail(what, **kw):
        fails.append(dict(kind="counterexample", case=line, impl=(out or "")[:4000], model=None, op=c.op, size=len(line), np=np_,
                          oracle=dict(op=what, **kw), theorem="C12 distributed smoothed aggregation: %s (%d ranks)" % (what, np_)))
    if out is None or out.startswith("CRASH"): return fail("terminates on all ranks (no hang / crash)", got=out)
    per = out.split(" ; ")
    if len(per) != np_ or any(p.startswith("EXC") for p in per): return fail("no exception on any rank", got=[p[:200] for p in per])
    if any(w in p for p in per for w in ("nan", "inf")): return fail("finite operators", got=[p[:200] for p in per])
    lv = [LEVEL_RE.findall(p) for p in per]
    if any(len(l) != c.levels for l in lv): return fail("well-formed report (one record per call)", got=[len(l) for l in lv])
    impl = []
    try:
        for l in range(c.levels):
            impl.append(dict(na=[int(lv[k][l][0]) for k in range(np_)], T=assemble_mats([lv[k][l][1] for k in range(np_)]),
                             S=assemble_mats([lv[k][l][2] for k in range(np_)]), P=assemble_mats([lv[k][l][3] for k in range(np_)]),
                             R=assemble_mats([lv[k][l][4] for k in range(np_)])))
    except Exception as e: return fail("strips assemble", got=str(e)[:200])
    ctx.setdefault("c12_dsa", []).append((c, c.model_line(), impl, line, out))


def close_mats(X, Y, exact):
    """None if equal (exactly / to REL_TOL), else a description of the first difference"""
    if X[0] != Y[0] or X[1] != Y[1]: return "shape %s vs %s" % (X[:2], Y[:2])
    for i, (rx, ry) in enumerate(zip(X[2], Y[2])):
        if [c for c, _ in rx] != [c for c, _ in ry]: return "row %d: columns %s vs %s" % (i, [c for c, _ in rx], [c for c, _ in ry])
        for (cx, vx), (_, vy) in zip(rx, ry):
            if vx == vy: continue
            if exact or len(vx) != len(vy) or any(abs(a - b) > REL_TOL * max(1, abs(b)) for a, b in zip(vx, vy)):
                return "row %d col %d: %s vs %s" % (i, cx, ",".join(fmt_q(a) for a in vx), ",".join(fmt_q(b) for b in vy))
    return None


def finish_sa(ctx, np_, fails, stat):
    ml = ctx.pop("c12_dsa", [])
    if not ml: return
    res = ctx["run_driver"](ctx["model"], [m[1] for m in ml])
    for c, mline, impl, line, out in ml:
        got = res.get(c.cid + ".m")
        def fail(what, **kw):
            ctx["stats"]["mismatches"] += 1
            fails.append(dict(kind="counterexample", case=line, impl=(out or "")[:3000], model=(got or "")[:3000], op=c.op, size=len(line), np=np_,
                              oracle=dict(op=what, **kw), theorem="C12 distributed smoothed aggregation model (DistSa.v) vs mpi/coarsening/smoothed_aggregation.hpp: %s (%d ranks)" % (what, np_)))
        ctx["stats"]["oracle_checks"] += 1
        if got is None or "OMEGA-MISMATCH" in got or "STUCK" in got or got.startswith("EXC"):
            fail("model run", got=(got or "")[:300]); continue
        try:
            mv = LEVEL_RE.findall(got)
            assert len(mv) == c.levels
            model = [dict(na=[int(x) for x in m[0].strip("[]").split()], T=parse_mat(m[1]), S=parse_mat(m[2]), P=parse_mat(m[3]), R=parse_mat(m[4])) for m in mv]
        except Exception as e:
            fail("model output", got=repr(e)[:200]); continue
        om = c.omega_d()
        for l in range(c.levels):
            I, M = impl[l], model[l]
            exact = call_is_exact(c.rows, c.eps, l, om)
            stat("sa_calls_compared" + ("_block" if c.b > 1 else ""))
            if exact: stat("sa_calls_compared_exactly" + ("_block" if c.b > 1 else ""))
            if l >= 1 and M["S"] != model[0]["S"]: stat("sa_calls_where_halved_eps_changes_the_strength_pattern")
            rank_of = [k for k, w in enumerate(c.parts) for _ in range(w)]
            if any((not any(cc == col for cc, _ in M["S"][2][i])) and rank_of[col] != rank_of[i]
                   for i, rw in enumerate(c.rows) for col, _ in rw):
                stat("sa_calls_with_weak_remote_entries" + ("_block" if c.b > 1 else ""))
            if I["na"] != M["na"]: fail("aggregates per rank", level=l, got=I["na"], want=M["na"]); break
            d = close_mats(I["S"], M["S"], True)
            if d: fail("strength pattern (ghost diagonals exchanged; eps_strong halved per call)", level=l, diff=d); break
            d = close_mats(I["T"], M["T"], True)
            if d: fail("tentative prolongation", level=l, diff=d); break
            d = close_mats(I["P"], M["P"], exact)
            if d: fail("P = (I - omega Df^-1 A_f) P_tent, rank by rank%s" % (" (exact)" if exact else ""), level=l, diff=d, exact=exact); break
            d = close_mats(I["R"], M["R"], exact)
            if d: fail("R = P^T", level=l, diff=d, exact=exact); break


# ---------------------------------------------------------------- formula oracle on the operators recorded during a solve
def gersh_rho(rows):
    """spectral_radius<true>(A, 0) of the gathered level matrix, exactly (scalar values)"""
    rho = F(0)
    for i, rw in enumerate(rows):
        s = sum((abs(v) for _, v in rw), F(0)); dia = F(1)
        for c, v in rw:
            if c == i: dia = v
        if dia != 0: rho = max(rho, s / abs(dia))
    return rho

def level_oracle(olines, base, b, tokA, tokS, tokT, tokP, omega, scale):
    """P of a recorded level = (I - omega Df^-1 A_f) P_tent with the recorded strength pattern and P_tent (block products in the
    order Df^-1 * A), every cell to 1e-9 * scale"""
    olines.append(("smoothed aggregation: P = (I - omega Df^-1 A_f) P_tent on the gathered operators",
                   "%s.sf o.saform %d %s %s %s %s %s %s" % (base, b, tokA, tokS, tokT, tokP, fmt_q(omega), fmt_q(scale / 10**9))))

def strength_check(rows, S_rows, eps):
    """recorded strength pattern vs the strength test with threshold eps (exact arithmetic), entries whose test is decided by
    less than 1e-9 relative are skipped (the double run may round them the other way).  Returns (row, col) of the first
    disagreement or None."""
    fl = strength(rows, eps * eps)
    D = {}
    for i, rw in enumerate(rows):
        for c, v in rw:
            if c == i: D[i] = v; break
    for i, (rw, f_) in enumerate(zip(rows, fl)):
        have = set(c for c, _ in S_rows[i])
        for (c, v), s in zip(rw, f_):
            if s is None or c == i: continue
            lhs = _tr(_mul(_scal(eps * eps, D[i]), D[c])); rhs = _tr(_mul(v, v))
            if abs(lhs - rhs) <= abs(rhs) / 10**9: continue
            if s != (c in have): return (i, c)
    return None
