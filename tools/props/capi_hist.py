"""capi_hist.py -- C20: scripted call HISTORIES on the C interface (lib/amgcl.cpp).

A history is a program of the CALLER: buffers with fixed addresses that are (re)written in place, params /
preconditioner / solver handles kept in slots, calls of the entry points.  Three runs per history:

  1. `hist`  on harness/drv_capi.cpp: the real entry points on real addresses (ASan, poisoned buffer tails);
     prints one item per step; every create prints the class H<k> of the handle value it returned.
  2. `hist`  on the extracted Coq model (Capi2.run): the same program with the real handle classes; the model
     resolves every call to the CONTENTS it sees (buffers at call time, tree of the params handle at creation
     time, index base removed by Capi.build, x in/out) and prints that contents trace.
  3. `rhist` on harness/drv_capi.cpp: the C++ run-time interface replays the contents trace by value
     (persistent objects; and once more with a FRESH object for every call).

The property: item k of run 1 == item k of run 3, bit for bit, for every call of every history.
"""
import random, re
from fractions import Fraction as F
from vcheck import fmt_q

COARSE = ["ruge_stuben", "aggregation", "smoothed_aggregation", "smoothed_aggr_emin"]
RELAX = ["gauss_seidel", "ilu0", "iluk", "ilut", "damped_jacobi", "spai0", "spai1", "chebyshev"]
SOLVERS = ["cg", "bicgstab", "bicgstabl", "gmres", "lgmres", "fgmres", "idrs", "richardson"]

CALLS = ("ac", "sc", "aa", "ss", "sm")          # steps that reach a C++ object (one recorder entry each)


# ---------------------------------------------------------------- data
def grid_rows(r, k):
    """rows (dict col -> value) of a diagonally dominant 5-point operator on a k x k grid, dyadic values"""
    n = k * k; rows = []
    for j in range(k):
        for i in range(k):
            row = {}
            for di, dj in ((0, -1), (-1, 0), (1, 0), (0, 1)):
                ii, jj = i + di, j + dj
                if 0 <= ii < k and 0 <= jj < k: row[jj * k + ii] = -F(r.randint(4, 12), 4)
            row[j * k + i] = -sum(row.values()) + F(r.randint(1, 8), 4)
            rows.append(row)
    return rows

def revalue(r, rows):
    """same pattern, new values"""
    out = []
    for i, row in enumerate(rows):
        nw = {c: -F(r.randint(4, 12), 4) for c in row if c != i}
        nw[i] = -sum(nw.values()) + F(r.randint(1, 8), 4)
        out.append(nw)
    return out

def repattern(r, rows):
    """same number of non-zeros, different sparsity pattern: columns of off-diagonal entries are changed
    (ptr unchanged) and entries are moved between rows (ptr changes too)"""
    n = len(rows); out = [dict(x) for x in rows]; changed = False
    for i in range(n):
        if r.random() < 0.5:
            offs = [c for c in out[i] if c != i]
            free = [c for c in range(n) if c not in out[i]]
            if offs and free:
                c = r.choice(offs); v = out[i].pop(c); out[i][r.choice(free)] = v; changed = True
    for _ in range(r.randint(0, 3)):
        a, b = r.randrange(n), r.randrange(n)
        offs = [c for c in out[a] if c != a]
        free = [c for c in range(n) if c not in out[b]]
        if a != b and offs and free:
            c = r.choice(offs); v = out[a].pop(c); out[b][r.choice(free)] = v; changed = True
    if not changed:
        i = 0; c = [c for c in out[i] if c != i][0]; v = out[i].pop(c); out[i][[c2 for c2 in range(n) if c2 not in out[i] and c2 != c][0]] = v
    assert sum(len(x) for x in out) == sum(len(x) for x in rows)
    return out

def renumber(r, rows):
    """different number of non-zeros: off-diagonal entries dropped / added"""
    n = len(rows); out = [dict(x) for x in rows]
    for i in range(n):
        offs = [c for c in out[i] if c != i]
        if offs and r.random() < 0.4: out[i].pop(r.choice(offs))
        if r.random() < 0.3:
            free = [c for c in range(n) if c not in out[i]]
            if free: out[i][r.choice(free)] = -F(r.randint(1, 4), 8)
    if sum(len(x) for x in out) == sum(len(x) for x in rows):
        out[0][[c for c in range(n) if c not in out[0]][0]] = -F(1, 8)
    return out

def crs_arrays(r, rows, base, shuffle):
    ptr = [base]; col = []; val = []
    for row in rows:
        items = sorted(row.items())
        if shuffle: r.shuffle(items)
        for c, v in items: col.append(c + base); val.append(v)
        ptr.append(len(col) + base)
    return ptr, col, val

def rand_vec(r, n, zero=False):
    return [F(0) if zero else F(r.randint(-16, 16), 8) for _ in range(n)]


def solver_params(r, prec):
    pp = "" if prec else "precond."
    ops = [("i", pp + "coarse_enough", r.choice(["4", "10"]))]
    if r.random() < 0.8: ops.append(("s", pp + "coarsening.type", r.choice(COARSE)))
    if r.random() < 0.8: ops.append(("s", pp + "relax.type", r.choice(RELAX)))
    if r.random() < 0.3: ops.append(("i", pp + "npre", r.choice(["1", "2"])))
    if r.random() < 0.3: ops.append(("f", pp + "coarsening.aggr.eps_strong", r.choice(["0.0625", "0.125"])))
    if not prec:
        ops.append(("s", "solver.type", r.choice(SOLVERS)))
        ops.append(("i", "solver.maxiter", r.choice(["4", "9", "30"])))
        # (float texts that survive amgcl_params_setf: at most 9 significant digits, fixed notation)
        if r.random() < 0.6: ops.append(("f", "solver.tol", r.choice(["0.0009765625", "0.001953125"])))
    r.shuffle(ops)
    return ops


# ---------------------------------------------------------------- the caller program
class Prog:
    def __init__(self, r):
        self.r = r; self.steps = []
        self.nbuf = 0; self.nslot = 0
        self.msets = []        # matrix buffer sets: dict(bp, bc, bv, big, rows, base, k)
        self.vbufs = {}        # vector buffers: id -> current length
        self.objs = {}         # slot -> dict(kind, k, n)
        self.prms = {}         # slot -> True
    # -- buffers
    def newbuf(self): self.nbuf += 1; return self.nbuf
    def write_matrix(self, rows, base, ms=None, big=False, shuffle=False):
        """fresh exactly-sized buffers (ms None) or in-place rewrite of an existing set"""
        r = self.r
        ptr, col, val = crs_arrays(r, rows, base, shuffle)
        if ms is None:
            ms = dict(bp=self.newbuf(), bc=self.newbuf(), bv=self.newbuf(), big=big)
            ms["cp"] = 64 + 2 if big else len(ptr); ms["cc"] = 64 * 8 if big else len(col)
            self.msets.append(ms)
        assert len(ptr) <= ms["cp"] and len(col) <= ms["cc"]
        self.steps.append(("wi", ms["bp"], ms["cp"], ptr))
        self.steps.append(("wi", ms["bc"], ms["cc"], col))
        self.steps.append(("wv", ms["bv"], ms["cc"], val))
        ms["rows"] = rows; ms["base"] = base; ms["n"] = len(rows)
        return ms
    def free_matrix(self, ms):
        self.steps += [("fi", ms["bp"]), ("fi", ms["bc"]), ("fd", ms["bv"])]
        self.msets.remove(ms)
    def write_vec(self, v, b=None, cap=None):
        if b is None: b = self.newbuf(); self.vbufs[b] = dict(cap=cap or len(v))
        assert len(v) <= self.vbufs[b]["cap"]
        self.steps.append(("wx", b, self.vbufs[b]["cap"], v)); self.vbufs[b]["len"] = len(v)
        return b
    def free_vec(self, b): self.steps.append(("fd", b)); del self.vbufs[b]
    # -- handles
    def newslot(self): self.nslot += 1; return self.nslot
    def params(self, ops, json=False, slot=None):
        if slot is None: slot = self.newslot(); self.steps.append(("pc", slot)); self.prms[slot] = True
        if json: self.steps.append(("pj", slot, [("s", n, v) for _, n, v in ops]))
        else:
            for o in ops: self.steps.append(("ps", slot) + tuple(o))
        return slot
    def destroy_params(self, slot): self.steps.append(("pd", slot)); del self.prms[slot]
    def create(self, kind, ms, prm, slot=None):
        if slot is None: slot = self.newslot()
        self.steps.append(("ac" if kind == "a" else "sc", slot, ms["base"], ms["n"], ms["bp"], ms["bc"], ms["bv"], prm))
        self.objs[slot] = dict(kind=kind, n=ms["n"])
        return slot
    def destroy(self, slot): self.steps.append(("ad" if self.objs[slot]["kind"] == "a" else "sd", slot)); del self.objs[slot]
    def apply(self, slot, br, bx): self.steps.append(("aa", slot, br, bx))
    def solve(self, slot, f, br, bx): self.steps.append(("ss", slot, f, br, bx))
    def solve_mtx(self, slot, ms, br, bx): self.steps.append(("sm", slot, ms["base"], ms["bp"], ms["bc"], ms["bv"], br, bx))


def vec_for(P, n, pool, zero=False, keep=False):
    """a vector buffer of length n: an existing one rewritten in place / left as it is (keep), or a fresh one"""
    r = P.r
    cands = [b for b in pool if b in P.vbufs and P.vbufs[b]["cap"] >= n]
    if cands and r.random() < 0.7:
        b = r.choice(cands)
        if keep and P.vbufs[b]["len"] == n: return b          # contents left from the previous call (x: previous solution)
        return P.write_vec(rand_vec(r, n, zero), b)
    b = P.write_vec(rand_vec(r, n, zero), cap=r.choice([n, 64])); pool.append(b)
    return b


def random_history(r, ncalls):
    """a random caller program mixing everything: in-place reuse of matrix / vector buffers (values, pattern at equal
    nnz, nnz, index base), fresh buffers, several live handles of different sizes, destroy + create, params handles
    modified / destroyed after use"""
    P = Prog(r); rhs_pool = []; x_pool = []
    shared = None                                        # a big in-place matrix buffer set shared by everything
    def matrix_for(k=None, rows=None, base=None):
        nonlocal shared
        base = r.choice([0, 1]) if base is None else base
        if rows is None: rows = grid_rows(r, k)
        sh = r.random() < 0.25
        if r.random() < 0.6:
            if shared is None: shared = P.write_matrix(rows, base, big=True, shuffle=sh); return shared
            return P.write_matrix(rows, base, ms=shared, shuffle=sh)
        ms = P.write_matrix(rows, base, shuffle=sh)
        return ms
    def drop(ms):
        if ms is not shared and r.random() < 0.7: P.free_matrix(ms)
    calls = 0
    while calls < ncalls:
        c = r.random()
        if c < 0.22 or not P.objs:                       # create
            kind = r.choice("ass"); k = r.choice([3, 4, 5, 6, 7])
            prm = None
            if r.random() < 0.85:
                if P.prms and r.random() < 0.4:
                    prm = r.choice(sorted(P.prms))
                    if r.random() < 0.5: P.params(solver_params(r, kind == "a"), json=r.random() < 0.3, slot=prm)
                else:
                    prm = P.params(solver_params(r, kind == "a"), json=r.random() < 0.25)
            ms = matrix_for(k)
            slot = P.create(kind, ms, prm)
            P.objs[slot]["rows"] = ms["rows"]
            if prm is not None:
                q = r.random()
                if q < 0.3: P.destroy_params(prm)
                elif q < 0.6: P.params(solver_params(r, r.random() < 0.5), slot=prm)     # set AFTER create
            drop(ms); calls += 1
        elif c < 0.34:                                   # destroy, often followed at once by a create (address reuse)
            slot = r.choice(sorted(P.objs)); P.destroy(slot)
        else:
            slot = r.choice(sorted(P.objs)); o = P.objs[slot]; n = o["n"]
            br = vec_for(P, n, rhs_pool)
            bx = vec_for(P, n, x_pool, zero=r.random() < 0.5, keep=True)
            if o["kind"] == "a": P.apply(slot, br, bx)
            elif r.random() < 0.45: P.solve(slot, r.choice([0, 1]), br, bx)
            else:
                prev = o.get("last", o["rows"])
                q = r.random()
                rows = revalue(r, prev) if q < 0.3 else repattern(r, prev) if q < 0.65 else renumber(r, prev) if q < 0.85 else grid_rows(r, int(round(n ** 0.5)))
                last_ms = o.get("ms")
                if last_ms is not None and last_ms in P.msets and r.random() < 0.75 and last_ms["cc"] >= sum(len(x) for x in rows):
                    base = last_ms["base"] if r.random() < 0.8 else 1 - last_ms["base"]
                    ms = P.write_matrix(rows, base, ms=last_ms, shuffle=r.random() < 0.2)         # reassembled IN PLACE
                else:
                    ms = matrix_for(rows=rows)
                P.solve_mtx(slot, ms, br, bx)
                o["last"] = rows; o["ms"] = ms
            calls += 1
    return P.steps


def directed_history(r, which):
    """the situations the task names, one by one"""
    P = Prog(r)
    k = r.choice([4, 5, 6]); n = k * k
    if which == "inplace":
        # one Fortran (or C) solver handle; the replacement matrix is reassembled in place in ONE set of arrays:
        # values only, pattern at equal nnz (ptr unchanged / changed), nnz changed, other index base
        base = r.choice([0, 1, 1])
        prm = P.params(solver_params(r, False))
        rows = grid_rows(r, k)
        ms = P.write_matrix(rows, base, big=True)
        s = P.create("s", ms, prm)
        rhs = P.write_vec(rand_vec(r, n)); x = P.write_vec(rand_vec(r, n, True))
        seq = ["same", "values", "pattern", "pattern", "nnz", "pattern", "base", "pattern"]
        for w in seq:
            if w == "values": rows = revalue(r, rows)
            elif w == "pattern": rows = repattern(r, rows)
            elif w == "nnz": rows = renumber(r, rows)
            elif w == "base": base = 1 - base
            if w != "same": P.write_matrix(rows, base, ms=ms)
            if r.random() < 0.6: P.write_vec(rand_vec(r, n, r.random() < 0.5), x)     # else: previous solution = initial guess
            if r.random() < 0.5: P.write_vec(rand_vec(r, n), rhs)
            P.solve_mtx(s, ms, rhs, x)
            if r.random() < 0.3: P.solve(s, r.choice([0, 1]), rhs, x)
        P.destroy(s)
    elif which == "reuse":
        # destroy + create: the allocator may return the address of the destroyed handle; interleaved live handles
        rhs = P.write_vec(rand_vec(r, 64), cap=64); x = P.write_vec(rand_vec(r, 64, True), cap=64)
        slots = []
        for it in range(r.randint(4, 6)):
            kk = r.choice([3, 4, 5, 6]); nn = kk * kk
            kind = r.choice("as")
            prm = P.params(solver_params(r, kind == "a")) if r.random() < 0.8 else None
            rows = grid_rows(r, kk); base = r.choice([0, 1])
            ms = P.write_matrix(rows, base)
            s = P.create(kind, ms, prm); P.objs[s]["rows"] = rows
            if prm is not None: P.destroy_params(prm)
            P.free_matrix(ms)
            slots.append(s)
            for s2 in r.sample(slots, min(len(slots), 2)):
                o = P.objs[s2]; m = o["n"]
                P.write_vec(rand_vec(r, m), rhs); P.write_vec(rand_vec(r, m, r.random() < 0.5), x)
                if o["kind"] == "a": P.apply(s2, rhs, x)
                elif r.random() < 0.5: P.solve(s2, r.choice([0, 1]), rhs, x)
                else:
                    b2 = r.choice([0, 1]); ms2 = P.write_matrix(repattern(r, o["rows"]), b2); P.solve_mtx(s2, ms2, rhs, x); P.free_matrix(ms2)
            if r.random() < 0.7:
                d = r.choice(slots); slots.remove(d); P.destroy(d)
    elif which == "recreate":
        # several handles created one after the other from ONE set of arrays that is reassembled in place in between
        # (pattern at equal nnz, values, nnz, index base); older handles stay live and are used after the rewrite
        base = r.choice([0, 1, 1]); rows = grid_rows(r, k)
        ms = P.write_matrix(rows, base, big=True)
        rhs = P.write_vec(rand_vec(r, n)); x = P.write_vec(rand_vec(r, n, True))
        live = []
        for w in ["same", "pattern", "pattern", "values", "nnz", "base", "pattern"][:r.randint(4, 7)]:
            if w == "values": rows = revalue(r, rows)
            elif w == "pattern": rows = repattern(r, rows)
            elif w == "nnz": rows = renumber(r, rows)
            elif w == "base": base = 1 - base
            if w != "same": P.write_matrix(rows, base, ms=ms)
            kind = r.choice("ass")
            prm = P.params(solver_params(r, kind == "a")) if r.random() < 0.8 else None
            live.append(P.create(kind, ms, prm))
            if prm is not None and r.random() < 0.6: P.destroy_params(prm)
            for s2 in r.sample(live, min(len(live), 2)):
                if r.random() < 0.5: P.write_vec(rand_vec(r, n, r.random() < 0.5), x)
                if P.objs[s2]["kind"] == "a": P.apply(s2, rhs, x)
                elif r.random() < 0.6: P.solve(s2, r.choice([0, 1]), rhs, x)
                else: P.solve_mtx(s2, ms, rhs, x)
            if len(live) > 2 and r.random() < 0.5:
                d = r.choice(live); live.remove(d); P.destroy(d)
    elif which == "params":
        # set the same key twice, set after create, destroy before / after create, one params handle for two creates
        rows = grid_rows(r, k); base = r.choice([0, 1]); ms = P.write_matrix(rows, base)
        rhs = P.write_vec(rand_vec(r, n)); x = P.write_vec(rand_vec(r, n, True))
        prm = P.params([("s", "solver.type", r.choice(SOLVERS)), ("s", "solver.type", r.choice(SOLVERS)),
                        ("i", "solver.maxiter", "3"), ("i", "solver.maxiter", r.choice(["5", "12"])),
                        ("s", "precond.relax.type", r.choice(RELAX)), ("i", "precond.coarse_enough", "4")])
        s1 = P.create("s", ms, prm)
        P.params([("s", "solver.type", r.choice(SOLVERS)), ("i", "solver.maxiter", "1"), ("s", "precond.relax.type", r.choice(RELAX))], slot=prm)
        P.solve(s1, 0, rhs, x)
        s2 = P.create("s", ms, prm)                      # sees the modified tree
        P.write_vec(rand_vec(r, n, True), x); P.solve(s2, 1, rhs, x)
        P.destroy_params(prm)
        P.write_vec(rand_vec(r, n, True), x); P.solve(s1, 0, rhs, x)
        P.write_vec(rand_vec(r, n, True), x); P.solve_mtx(s2, ms, rhs, x)
        prm2 = P.params(solver_params(r, True), json=True)
        P.params([("s", "relax.type", r.choice(RELAX))], slot=prm2)
        a = P.create("a", ms, prm2)
        P.params(solver_params(r, True), json=True, slot=prm2)      # read_json after create REPLACES the tree
        P.apply(a, rhs, x)
        a3 = P.create("a", ms, prm2)                     # sees the tree of the second file only
        P.apply(a3, rhs, x)
        a2 = P.create("a", ms, None)                     # NULL params
        P.apply(a2, rhs, x); P.apply(a, rhs, x)
        P.destroy(s1); P.destroy(a)
    return P.steps


# ---------------------------------------------------------------- rendering
def _vec(v): return " ".join([str(len(v))] + [fmt_q(x) for x in v])

def c_line(cid, steps):
    out = [cid, "hist"]
    for s in steps:
        op = s[0]
        if op == "wi": out += ["wi", str(s[1]), str(s[2]), str(len(s[3]))] + [str(x) for x in s[3]]
        elif op in ("wv", "wx"): out += [op, str(s[1]), str(s[2]), _vec(s[3])]
        elif op == "pj": out += ["pj", str(s[1]), str(len(s[2]))] + ["%s %s %s" % o for o in s[2]]
        elif op in ("ac", "sc"): out += [op] + [str(x) for x in s[1:7]] + ["-" if s[7] is None else str(s[7])]
        else: out += [op] + [str(x) for x in s[1:]]
    return " ".join(out + ["end"])

def parse_c_line(line):
    """inverse of c_line (replay files carry the case line only)"""
    t = line.split(); cid = t[0]; assert t[1] == "hist"; i = 2; steps = []
    def q(x): return F(x)
    while t[i] != "end":
        op = t[i]; i += 1
        if op == "wi":
            b, cap, n = int(t[i]), int(t[i + 1]), int(t[i + 2]); i += 3
            steps.append(("wi", b, cap, [int(x) for x in t[i:i + n]])); i += n
        elif op in ("wv", "wx"):
            b, cap, n = int(t[i]), int(t[i + 1]), int(t[i + 2]); i += 3
            steps.append((op, b, cap, [q(x) for x in t[i:i + n]])); i += n
        elif op in ("fi", "fd", "pc", "pd", "ad", "sd"): steps.append((op, int(t[i]))); i += 1
        elif op == "ps": steps.append(("ps", int(t[i]), t[i + 1], t[i + 2], t[i + 3])); i += 4
        elif op == "pj":
            sl, n = int(t[i]), int(t[i + 1]); i += 2
            steps.append(("pj", sl, [(t[i + 3 * k], t[i + 3 * k + 1], t[i + 3 * k + 2]) for k in range(n)])); i += 3 * n
        elif op in ("ac", "sc"):
            steps.append((op,) + tuple(int(x) for x in t[i:i + 6]) + (None if t[i + 6] == "-" else int(t[i + 6]),)); i += 7
        elif op == "aa": steps.append((op,) + tuple(int(x) for x in t[i:i + 3])); i += 3
        elif op == "ss": steps.append((op,) + tuple(int(x) for x in t[i:i + 4])); i += 4
        elif op == "sm": steps.append((op,) + tuple(int(x) for x in t[i:i + 7])); i += 7
        else: raise ValueError("hist: unknown step " + op)
    return cid, steps

def handle_classes(steps, items):
    """slot -> handle value at each step, from the H<k> items the implementation printed.  Returns
    (model steps with slots replaced by handle values, kept (step, item) pairs, slot -> handle of the live slots,
    handle values of creates whose constructor threw), or None when the implementation output cannot be used.

    A create whose C++ constructor throws returns no handle: the exception (kind) is compared with the C++
    constructor on the same contents (the model step gets a fresh handle value that is never used); the later
    steps of the program on that slot are not executed by the driver (item NOHANDLE) and are dropped here."""
    if items is None or len(items) != len(steps): return None
    cur = {}; dead = set(); out = []; kept = []; thrown = []; fresh = 1000
    for s, it in zip(steps, items):
        op = s[0]
        if op in ("fi", "fd"): continue
        if op in ("wi", "wv", "wx"): out.append(s); kept.append((s, it)); continue
        if op in ("pc", "ac", "sc"):
            s2 = list(s); cur.pop(s[1], None); dead.discard(s[1])
            if op != "pc" and s[7] is not None:
                if s[7] in dead:
                    if it != "NOHANDLE": return None
                    dead.add(s[1]); continue
                if s[7] not in cur: return None
                s2[7] = cur[s[7]]
            m = re.match(r"H(\d+)$", it)
            if m: h = int(m.group(1)); cur[s[1]] = h
            elif it.startswith("EXC"): fresh += 1; h = fresh; dead.add(s[1]); thrown.append(h)
            else: return None
            s2[1] = h; out.append(tuple(s2)); kept.append((s, it)); continue
        if s[1] in dead:
            if it != "NOHANDLE": return None
            continue
        if s[1] not in cur: return None
        s2 = list(s); s2[1] = cur[s[1]]; out.append(tuple(s2)); kept.append((s, it))
        if op in ("pd", "ad", "sd"): del cur[s[1]]
    return out, kept, cur, thrown

def split_items(payload):
    """'a ; b ; c | live 1 2 [| LEAK]' -> (items, live list, leak flag)"""
    if payload is None or payload.startswith(("CRASH", "UNSUPPORTED")): return None, None, False
    parts = payload.split(" | ")
    if len(parts) < 2 or not parts[1].startswith("live"): return None, None, False        # (an exception of the driver itself)
    items = parts[0].split(" ; ")
    live = [int(x) for x in parts[1].split()[1:]] if len(parts) > 1 else []
    return items, live, "LEAK" in parts[2:]


def cases(tier, seed):
    r = random.Random(seed * 7919 + 2020)
    thorough = tier != "quick"
    out = []
    tag = "%s%d" % ("t" if thorough else "q", seed)
    nd = 6 if not thorough else 30
    for which in ("inplace", "reuse", "params", "recreate"):
        for it in range(nd):
            out.append(c_line("h%s_%s%d" % (tag, {"inplace": "i", "reuse": "r", "params": "p", "recreate": "c"}[which], it), directed_history(r, which)))
    for it in range(60 if not thorough else 400):
        out.append(c_line("h%s_x%d" % (tag, it), random_history(r, r.randint(6, 16))))
    # the witness of C20_H3_address_keyed_cache_refuted (Capi2Proofs.ac_hist) on the implementation: a 2 x 2 matrix with
    # another pattern and the same nnz reassembled in place (1, 2) / written to fresh arrays (11, 12)
    for name, (p2, c2) in (("inplace", (1, 2)), ("fresh", (11, 12))):
        V = [F(4), F(1), F(3)]
        steps = [("wi", 1, 4, [1, 3, 4]), ("wi", 2, 4, [1, 2, 2]), ("wv", 3, 3, V), ("wx", 4, 2, [F(1), F(2)]), ("wx", 5, 2, [F(0), F(0)]),
                 ("sc", 1, 1, 2, 1, 2, 3, None), ("sm", 1, 1, 1, 2, 3, 4, 5),
                 ("wi", p2, 4, [1, 2, 4]), ("wi", c2, 4, [1, 1, 2]), ("wx", 5, 2, [F(0), F(0)]), ("sm", 1, 1, p2, c2, 3, 4, 5), ("sd", 1)]
        out.append(c_line("h%s_w%s" % (tag, name), steps))
    assert len(set(l.split(" ", 1)[0] for l in out)) == len(out)
    return out


# ---------------------------------------------------------------- the check
THEOREM = ("C20_H: every call of a history on the C handle API = the C++ run-time interface on the contents trace "
           "computed by Capi2.run (bitwise; buffers reused in place, several live handles, destroy + create, both index bases)")

def run(ctx, lines, env):
    """returns (fails, stats dict)"""
    fails = []; st = ctx["stats"]
    info = dict(histories=len(lines), calls=0, addr_reuse=0, ctor_exc=0)
    def fail(l, impl, model, why):
        st["mismatches"] += 1
        # (a history that merely shared a shard with a crashed one has no output of its own: reported last)
        fails.append(dict(kind="counterexample", case=l, impl=impl, model=model, op="hist", size=len(l) if impl is not None else 10 ** 9,
                          theorem=THEOREM + " -- " + why))
    drv = ctx["cpp"]["capi"]
    # run twice: default ASan (quarantine: use-after-free detection) and without quarantine (the allocator
    # hands freed handle addresses out again at once)
    for tag, e in (("", env), ("@noquarantine", dict(env, ASAN_OPTIONS=env["ASAN_OPTIONS"] + ":quarantine_size_mb=0:thread_local_quarantine_size_kb=0"))):
        outc = ctx["run_driver"](drv, lines, env_extra=e, shards=12, timeout=900)
        mlines = []; keep = {}
        for l in lines:
            cid, steps = parse_c_line(l)
            pc = outc.get(cid)
            items, live, leak = split_items(pc)
            if items is None: fail(l, pc, None, "the C interface run did not complete" + tag); continue
            if leak: fail(l, pc, None, "memory lost by the C interface (LeakSanitizer)" + tag); continue
            hc = handle_classes(steps, items)
            if hc is None: fail(l, pc, None, "malformed implementation output" + tag); continue
            msteps, kept, cur, thrown = hc
            seen = [s[1] for s in msteps if s[0] in ("pc", "ac", "sc")]
            info["addr_reuse"] += len(seen) - len(set(seen)); info["ctor_exc"] += len(thrown)
            keep[cid] = (l, kept, thrown, live, cur, pc)
            mlines.append(c_line(cid, msteps))
        outm = ctx["run_driver"](ctx["model"], mlines, timeout=900)
        rlines = []
        for cid in list(keep):
            pm = outm.get(cid)
            if pm is None or " || " not in pm: fail(keep[cid][0], keep[cid][5], pm, "model run failed" + tag); del keep[cid]; continue
            trace, status = pm.split(" || ")
            keep[cid] += (trace, status)
            rlines.append("%s rhist 0 %s" % (cid, trace))
            rlines.append("%s~f rhist 1 %s" % (cid, trace))
        outr = ctx["run_driver"](drv, rlines, env_extra=e, shards=12, timeout=900)
        for cid, (l, kept, thrown, live, cur, pc, trace, status) in keep.items():
            st["evaluations"] += 1; st["by_op"]["hist" + tag] = st["by_op"].get("hist" + tag, 0) + 1
            # life cycle: live handles at the end
            want = "OK" + "".join(" %d" % h for h in sorted([cur[s] for s in live if s in cur] + thrown))
            if status != want or sorted(live) != sorted(cur): fail(l, "live " + want, status, "live handles at the end (Capi2.run vs implementation)" + tag); continue
            citems = [(s[0], it) for s, it in kept if s[0] in CALLS]
            other = [it for s, it in kept if s[0] not in CALLS and it != "." and not re.match(r"H\d+$", it)]
            if other: fail(l, pc, None, "a non-call step failed: %s%s" % (other[0], tag)); continue
            ok = True
            for mode, rid in (("persistent C++ objects", cid), ("a FRESH C++ object for every call (statelessness)", cid + "~f")):
                pr = outr.get(rid)
                ritems = pr.split(" ; ") if pr and not pr.startswith(("CRASH", "UNSUPPORTED")) else None
                st["oracle_checks"] += 1
                if ritems is None or len(ritems) != len(citems): fail(l, pc, pr, "reference run failed, %s%s" % (mode, tag)); ok = False; break
                for k, ((op, ci), ri) in enumerate(zip(citems, ritems)):
                    same = (ri == "H") if (op in ("ac", "sc") and ci.startswith("H")) else ci == ri
                    if not same:
                        fail(l, "call %d (%s): %s" % (k, op, ci), "call %d: %s" % (k, ri), "%s%s" % (mode, tag)); ok = False; break
                if not ok: break
            if ok and not tag:
                info["calls"] += len(citems)
                if any(it.startswith("it=") for _, it in citems): st["nontrivial"] += 1
                st["traces"] += 1
    return fails, info
