"""C15 -- solver and preconditioner objects are reusable; calls do not leak state.

Stages
  1. scripted call sequences on ONE solver object (different right-hand sides / initial guesses /
     matrices / preconditioners, a zero right-hand side, calls that hit maxiter, a call that breaks
     down and throws) vs a fresh object per call: identical outputs required, all eight solvers,
     exact (vq::Q) and double (bit patterns, including calls that produce NaN/Inf);
     the sequence is also compared with the Coq model object of each solver (all eight), whose
     state is threaded through the calls and which starts from a junk-filled workspace (junk
     independence is theorem C15_*_junk_independent); IDR(s): the constructor's std::mt19937
     draws are an explicit input of the model (krylov_cases.with_idrs_raw).
  1b. binary64 sequences: the same scripts style with dyadic data, long solves (up to 300 iterations, dozens of
     restarts), run on ONE double-build object (d.seq), on fresh objects (d.seqfresh) and on the extracted model
     object evaluated at a binary64 Scalar instance with its state threaded through the calls (f.seq): all three
     must agree bit for bit (LGMRES always_reset=false: object vs model only).
  2. inputs unchanged: the harness compares matrix and right-hand side before/after every call.
  3. zero right-hand side => (0 iterations, x = 0); initial guess that already satisfies the
     tolerance => 0 iterations and x unchanged.
  4. LGMRES with always_reset = false is the documented exception: differences are counted as
     information (evidence), not failures.
  5. objects other than a bare Krylov solver (props/reuse_cases.py, harness/drv_reuse*.cpp, protocol in
     harness/reuse_common.hh): scripted histories on ONE object vs a FRESH object per command, exact (vq::Q) and
     double (printed exactly, nan/inf as tokens), for amg<builtin, C, R> (4 coarsenings x {damped_jacobi, spai0,
     gauss_seidel, ilu0, chebyshev}; configurations that leave the coarsest level RELAXED although direct_coarse is
     requested (max_levels reached / coarse_enough not met) or not requested, direct coarse solve, ncycle 2,
     pre_cycles 0/1/2; commands apply / cycle / rebuild (allow_rebuild on: ok; off or wrong size: throws) / dump),
     make_solver<amg, S> for the 8 solvers (solve, solve with another system matrix, a skew system that makes BiCGStab
     throw, zero right-hand side, NaN-containing right-hand side in the double build, make_solver::apply),
     relaxation::as_preconditioner<R> for 9 relaxations (bare and inside make_solver), solver::skyline_lu,
     deflated_solver (solve / apply / project), preconditioner::cpr and cpr_drs (+ partial_update),
     schur_pressure_correction (two inner-solver variants, types 1 and 2, inside fgmres/bicgstab/gmres or bare),
     make_block_solver (block size 2).  "Fresh object for command k" = constructed from the same arguments and
     brought up to date with the LAST successful rebuild / partial_update before k.  Constructor matrix,
     per-command matrices and right-hand sides are compared before/after every command.
  5b. the exact amg / make_solver<amg, S> histories (S in none, cg, richardson, bicgstab, gmres, fgmres) are also compared
     with the extracted STATE-PASSING model object (second model driver: coq/Extract_reuse.v + ocaml/reuse/ops_reuse.ml,
     op msm): ReuseProofs2.cg_sp .. ReuseProofs3.fgmres_sp with the preconditioner = Amg.apply on the scratch list,
     amg scratch and solver workspace (junk-filled at construction) threaded through the whole script; transfer
     operators taken from the implementation's dump (C04).  Likewise make_solver<as_preconditioner<chebyshev>, S>
     (op rpm: Chebyshev object state (p, r) junk-filled and threaded by the extracted ReuseProofs4.cheby_sp).
"""
import random
from fractions import Fraction as F
import gen
from props.common import account
import props.krylov_cases as kc
from vcheck import fmt_q, fmt_vec, fmt_crs
import props.reuse_cases as rc

DRIVERS = ["krylov"] + rc.DRIVERS
EXTRA_FLAGS = rc.extra_flags()
TMO = 300   # seconds per driver shard: a diverging (mutated) solver makes the exact rationals explode
MODEL = "krylov"
TRUSTED_BASE = [
    "Extract_krylov.v via ExtractCommon.v (Z.ggcd realised by zarith gcd)",
    "operator abstraction: A and P enter the Coq model as functions vec -> vec; P.apply is assumed to overwrite its output",
    "binary64 scripts: the Scalar instance Float64 of ocaml/krylov/ops_krylov.ml (OCaml floats, hand-written, not extracted)",
    "the workspace record of each model lists the mutable members of the C++ class by reading the class (cg: r,s,p,q; "
    "bicgstab: r,p,v,s,t,rh,T; richardson: r,s; gmres/fgmres: H,s,cs,sn,r,v[],z[]; lgmres: the same + outer_v (ring of slot "
    "indices) and outer_v_data[]; bicgstabl: Rt,X,B,T,R[],U[] (MZa,MZb,Y0,YL,qr scratch are written completely before "
    "they are read in every polynomial part and are local in the model); idrs: M,f,c,r,v,t,x_s,r_s,G[],U[] + constant shadow space P[])",
    "objects (stage 5): harness/reuse_common.hh, reuse_amg.hh, drv_reuse*.cpp; the reuse comparison is implementation (one object) vs "
    "implementation (fresh objects); stage 5b: Extract_reuse.v + ocaml/reuse/ops_reuse.ml (hand-written driver: parses the script, holds the "
    "object state in OCaml references between commands, Chebyshev smoother work vectors in OCaml references as in ocaml/amg/ops_amg.ml); "
    "for the objects without a model run (as_preconditioner, skyline_lu, deflated_solver, cpr, schur, make_block_solver, make_solver with "
    "lgmres/bicgstabl/idrs) the link to the models is C02, C16, C06, C18 and stages 1-1b",
]
ASSUMPTIONS = [
    "C15-A1 (junk independence) is proved for every Scalar record whose zero satisfies is_zero 0 = true (IEEE floats do); "
    "bicgstabl / idrs additionally assume that the workspace vectors cleared at the start of a call (X, U[0]; G[i], U[i]) have "
    "the allocated length n in both objects (the constructor allocates them so)",
    "object theorems (C15_skyline_reuse, C15_chebyshev_*, C15_amg_reuse_*, C15_make_solver_reuse*): the allocated lengths of the "
    "scratch members (skyline y; chebyshev p, r; amg f, u, t per level; solver workspaces) are hypotheses (the constructors "
    "allocate them so); make_solver theorems cover amg x {cg, richardson, bicgstab, gmres, fgmres} for the modelled smoothers "
    "(hier_wf); lgmres / bicgstabl / idrs with a STATEFUL preconditioner, ILU / Chebyshev smoothers inside the hierarchy of the "
    "make_solver theorems, deflated_solver, cpr, schur_pressure_correction and make_block_solver are covered by the tie only",
    "a rebuild that throws half way (e.g. the new coarse matrix is singular for skyline_lu) leaves a mixed hierarchy: not exercised "
    "(rebuild commands either succeed or throw in the precondition checks before anything is modified)",
]
TOL10 = F(1, 1024)


def breakdown_sys(n):
    """skew system: BiCGStab breaks down (omega = 0 -> precondition throws), others stagnate"""
    rows = [[] for _ in range(n)]
    for i in range(0, n - 1, 2):
        rows[i].append((i + 1, F(1))); rows[i + 1].append((i, F(-1)))
    if n % 2: rows[n - 1].append((n - 1, F(1)))
    f = [F(1) if i % 2 == 0 else F(0) for i in range(n)]
    return kc.Sys(n, rows, "id", None, f, [F(0)] * n, False)


class PoisonSys(kc.Sys):
    """a call whose DIAGONAL PRECONDITIONER has one infinite entry (double build only): non-finite values then
    appear INSIDE the iteration (not only in the right-hand side), e.g. in IDR(s)'s small matrix M, BiCGStab(L)'s
    tau, the GMRES Hessenberg -- members that survive the call and must not influence the next one"""
    def __init__(self, S, j):
        kc.Sys.__init__(self, S.n, S.rows, "diag", None, S.f, S.x0, S.sym)
        D = kc.dense(S.rows, S.n)
        self.ptoks = [("inf" if i == j else fmt_q(F(1) / D[i][i] if D[i][i] != 0 else F(1))) for i in range(S.n)]
    def call_tokens(self):
        return " ".join([fmt_crs(self.n, self.n, self.rows), str(self.n) + " " + " ".join(self.ptoks), fmt_vec(self.f), fmt_vec(self.x0)])


def script(r, solver, n, dbl=False):
    sym = kc.sym_needed(solver)
    calls = []
    nc = r.choice([3, 4, 5])
    for c in range(nc):
        kind = r.choice(["plain", "plain", "plain", "zero", "break", "conv"] + (["nan", "pinf", "pinf"] if dbl else []))
        S = kc.make_sys(r, n, sym or r.random() < 0.4, r.choice(kc.pkinds_for(solver, sym)[:4]))
        if kind == "zero": S.f = [F(0)] * n
        elif kind == "break": S = breakdown_sys(n)
        elif kind == "conv": S.f = kc.matvec(kc.dense(S.rows, n), S.x0)
        elif kind == "nan":
            S.rows = [[] if i == 0 else rw for i, rw in enumerate(S.rows)]   # singular: empty first row
            S.pk, S.pdata = "id", None
        elif kind == "pinf":
            S = PoisonSys(S, r.randrange(n))
        calls.append(S)
    if dbl and not any(isinstance(S, PoisonSys) for S in calls):
        # every double-build history contains at least one call that goes non-finite INSIDE the iteration
        k = r.randrange(len(calls))
        base = kc.make_sys(r, n, sym or r.random() < 0.4, "id")
        calls[k] = PoisonSys(base, r.randrange(n))
    # the last call is always a plain one (it must not be influenced by what came before)
    calls.append(kc.make_sys(r, n, sym or r.random() < 0.4, r.choice(kc.pkinds_for(solver, sym)[:4])))
    return calls


def cases(tier, seed):
    r = random.Random(seed * 1000 + 15)
    out = []   # (line, kind, meta)
    nscr = 8 if tier == "quick" else 30
    for solver in kc.SOLVERS:
        heavy = solver not in kc.SQRT_FREE
        for si in range(nscr):
            n = r.choice([2, 3, 4]) if heavy else r.choice([2, 3, 4, 5, 6])
            calls = script(r, solver, n)
            side = kc.side_for(r, solver)
            prm = dict(maxiter=r.choice([1, 2, 3] if heavy else [1, 2, 3, 4, 6]), tol=r.choice([F(0), TOL10]), abstol=kc.ABSTOL_MIN,
                       M=r.choice([1, 2, 4]), K=r.choice([1, 2]), L=r.choice([1, 2]), s=r.choice([1, 2, 3]),
                       damping=r.choice([F(1), F(1, 2)]), smoothing=int(r.random() < 0.3), replacement=int(r.random() < 0.3),
                       ca=int(r.random() < 0.3), areset=1, convex=int(r.random() < 0.5))
            out.append((kc.seq_line("q%d" % len(out), "seq", solver, side, n, calls, **prm), "seq", dict(solver=solver)))
            if solver == "lgmres" and si < 4:
                prm2 = dict(prm, areset=0, K=2, M=2, maxiter=3)
                out.append((kc.seq_line("q%d" % len(out), "seq", solver, side, n, calls, **prm2), "lgmres-noreset", dict(solver=solver)))
        # double build, larger, with NaN producing calls
        for si in range(nscr // 2):
            n = r.choice([5, 12, 30])
            calls = script(r, solver, n, dbl=True)
            prm = dict(maxiter=r.choice([3, 10, 40]), tol=F(1, 10 ** 8), M=r.choice([2, 5, 30]), K=r.choice([1, 3]), L=r.choice([1, 2, 3]),
                       s=r.choice([1, 2, 4]), damping=F(3, 4), smoothing=int(r.random() < 0.3), replacement=int(r.random() < 0.3), areset=1,
                       convex=int(r.random() < 0.4))      # bicgstabl: the non-convex branch keeps Y0 / YL between sweeps (seeded C15-5)
            out.append((kc.seq_line("q%d" % len(out), "d.seq", solver, kc.side_for(r, solver), n, calls, **prm), "dseq", dict(solver=solver)))
    # 2a'. bicgstabl without the convex combination (convex = false): the coefficients of the MinRes / OR polynomials (Y0, YL) are members
    #      that survive a call; L = 2, 3, both sides, a call that goes non-finite inside the polynomial part in the middle
    for L in (2, 3):
        for side in ("left", "right"):
            for rep in range(1 if tier == "quick" else 4):
                n = r.choice([5, 12, 30])
                calls = script(r, "bicgstabl", n, dbl=True)
                prm = dict(maxiter=r.choice([10, 40]), tol=F(1, 10 ** 8), M=2, K=1, L=L, s=2, damping=F(3, 4), smoothing=0, replacement=0, areset=1, convex=0)
                out.append((kc.seq_line("q%d" % len(out), "d.seq", "bicgstabl", side, n, calls, **prm), "dseq", dict(solver="bicgstabl")))
    # 2b. long multi-restart solves on one object (double build, bit patterns): restarted methods with short
    #     restart lengths on convection-diffusion systems that need dozens of restarts; 3-5 calls per object with a
    #     zero right-hand side in between (state that survives a call -- ring buffers, bases, counters -- must not
    #     influence the next call)
    for solver in ["lgmres", "lgmres", "lgmres", "gmres", "fgmres", "bicgstabl", "idrs", "bicgstab", "cg", "richardson"]:
        for si in range(4 if tier == "quick" else 12):
            n = r.choice([36, 48, 64])
            sym = kc.sym_needed(solver)
            rows = gen.spd_mmatrix(r, n, kind="grid") if sym else gen.convdiff(r, n)
            D = {i: dict(rw)[i] for i, rw in enumerate(rows)}
            pk = r.choice(["id", "diag"]) if solver != "richardson" else "diag"
            pdata = [F(1) / D[i] for i in range(n)] if pk == "diag" else None
            def rv(): return [F(r.randint(-8, 8), 4) for _ in range(n)]
            f1, f2 = rv(), rv()
            if all(v == 0 for v in f1): f1[0] = F(1)
            if all(v == 0 for v in f2): f2[0] = F(1)
            z = [F(0)] * n
            order = r.choice([[f1, f2, z, f2], [f1, z, f2, f1, f2], [f1, f2, f1], [f2, f1, z, f1]])
            calls = [kc.Sys(n, rows, pk, pdata, ff, list(z), sym) for ff in order]
            prm = dict(maxiter=r.choice([300, 600]), tol=F(1, 10 ** 10), M=r.choice([2, 3, 4, 6, 8]), K=r.choice([1, 2, 3, 4]),
                       L=r.choice([1, 2, 3]), s=r.choice([1, 2, 4]), damping=F(3, 4), smoothing=int(r.random() < 0.3),
                       replacement=int(r.random() < 0.3), areset=1, convex=int(r.random() < 0.4))
            out.append((kc.seq_line("q%d" % len(out), "d.seq", solver, kc.side_for(r, solver), n, calls, **prm), "dseq",
                        dict(solver=solver, long=True, M=prm["M"], K=prm["K"])))
    # 2c. binary64 sequences compared with the model object (state threaded through the calls)
    for solver in kc.SOLVERS + ["lgmres", "lgmres"]:
        for si in range(3 if tier == "quick" else 10):
            n = r.choice([8, 16, 36, 48])
            base = kc.dyadic_sys(r, n, solver)
            calls = []
            for c in range(r.choice([3, 4, 5])):
                kind = r.choice(["plain", "plain", "plain", "zero", "break", "nan", "same"])
                S = kc.dyadic_sys(r, n, solver, pk=base.pk)
                if kind == "same": S.rows = base.rows                      # same matrix, other right-hand side
                if kind == "zero": S.f = [F(0)] * n
                elif kind == "break" and solver != "cg": S = breakdown_sys(n)
                elif kind == "nan": S.rows = [[] if i == 0 else rw for i, rw in enumerate(S.rows)]; S.pk, S.pdata = "id", None
                calls.append(S)
            calls.append(kc.dyadic_sys(r, n, solver, pk=base.pk))
            prm = kc.dyadic_prm(r, maxiter=r.choice([10, 40, 300]))
            if solver == "lgmres": prm["M"] = r.choice([1, 2, 3]); prm["areset"] = r.choice([1, 1, 0])
            out.append((kc.seq_line("q%d" % len(out), "fseq", solver, kc.side_for(r, solver), n, calls, **prm), "fseq",
                        dict(solver=solver, areset=prm["areset"])))
    # 3. zero rhs / converged guess through make_solver
    for solver in kc.SOLVERS:
        for si in range(3 if tier == "quick" else 8):
            n = r.choice([2, 3, 4])
            sym = kc.sym_needed(solver) or r.random() < 0.5
            S = kc.make_sys(r, n, sym, r.choice(["id", "diag"]), x0zero=False)
            S.f = [F(0)] * n
            out.append((kc.solve_line("q%d" % len(out), solver, kc.side_for(r, solver), S, maxiter=3, tol=TOL10, M=2, L=1, s=2),
                        "zero", dict(solver=solver, n=n)))
            S2 = kc.make_sys(r, n, sym, r.choice(["id", "diag"]), x0zero=False)
            S2.f = kc.matvec(kc.dense(S2.rows, n), S2.x0)
            if all(v == 0 for v in S2.f): S2.x0[0] += 1; S2.f = kc.matvec(kc.dense(S2.rows, n), S2.x0)
            out.append((kc.solve_line("q%d" % len(out), solver, kc.side_for(r, solver), S2, maxiter=3, tol=TOL10, M=2, L=1, s=2),
                        "conv", dict(solver=solver, n=n, x0=S2.x0)))
    return out


def run(ctx, cases_override=None):
    # 5. objects other than bare Krylov solvers (props/reuse_cases.py): one object vs fresh objects
    if cases_override and all(rc.is_reuse_line(l) for l in cases_override):
        return rc.run(ctx, cases_override)
    obj_fails = [] if cases_override else rc.run(ctx)
    if cases_override:
        cs = []
        for l in cases_override:
            tk = l.split(" ", 3)
            cs.append((l, {"seq": "seq", "d.seq": "dseq", "solve": "zero", "fseq": "fseq"}.get(tk[1], "seq"), dict(solver=tk[2], n=0)))
    else:
        cs = cases(ctx["tier"], ctx["seed"])
    fseq = [c for c in cs if c[1] == "fseq"]
    cs = [c for c in cs if c[1] != "fseq"]
    lines = [c[0] for c in cs]
    fails = []
    impl = ctx["run_driver"](ctx["cpp"]["krylov"], lines, timeout=TMO)
    account(ctx, lines, impl)
    # binary64 sequences: one object / fresh objects / model object
    if fseq:
        fl0 = [c[0].replace(" fseq ", " seq ", 1) for c in fseq]
        il, ml = kc.float_pair(ctx, fl0)
        fi = ctx["run_driver"](ctx["cpp"]["krylov"], il, timeout=TMO)
        ff = ctx["run_driver"](ctx["cpp"]["krylov"], [l.replace(" d.seq ", " d.seqfresh ", 1) for l in il], timeout=TMO)
        fm = ctx["run_driver"](ctx["model"], ml, timeout=TMO)
        account(ctx, il, fi)
        for (l, kind, meta), li in zip(fseq, il):
            cid = l.split(" ", 1)[0]
            a, b, m = fi.get(cid), ff.get(cid), fm.get(cid)
            ctx["stats"]["oracle_checks"] += 2
            if a is None or a.startswith(("CRASH", "UNSUPPORTED")) or "INPUT-MODIFIED" in (a or ""):
                fails.append(dict(kind="counterexample", case=l, impl=(a or "")[:2000], model=None, op="fseq:" + meta["solver"], size=len(l),
                                  theorem="C15: implementation run (crash / matrix or right-hand side modified by the call)"))
                continue
            if a != m:
                ctx["stats"]["mismatches"] += 1
                fails.append(dict(kind="counterexample", case=l, impl=a[:3000], model=(m or "")[:3000], op="fseq-model:" + meta["solver"], size=len(l),
                                  theorem="C15 binary64 correspondence: call sequence on one %s object (double build) vs the extracted model object at the binary64 Scalar instance, state threaded through the calls" % meta["solver"]))
            if a != b and meta.get("areset", 1):
                ctx["stats"]["mismatches"] += 1
                pa, pb = a.split(" ; "), (b or "").split(" ; ")
                first = next((i for i in range(len(pa)) if i >= len(pb) or pa[i] != pb[i]), -1)
                fails.append(dict(kind="counterexample", case=l, impl=a[:3000], model=(b or "")[:3000], op="fseq:" + meta["solver"], size=len(l),
                                  oracle=dict(op="reuse", first_differing_call=first),
                                  theorem="C15 reuse: call sequence on one %s object vs a fresh object per call (double, bit patterns)" % meta["solver"]))
    # fresh-object runs of the same scripts
    fl = []
    for l, kind, meta in cs:
        if kind in ("seq", "lgmres-noreset"): fl.append(l.replace(" seq ", " seqfresh ", 1))
        elif kind == "dseq": fl.append(l.replace(" d.seq ", " d.seqfresh ", 1))
    fresh = ctx["run_driver"](ctx["cpp"]["krylov"], fl, timeout=TMO)
    ml = [l for l, kind, meta in cs if kind in ("seq", "lgmres-noreset") and meta["solver"] in kc.MODELLED]
    model = ctx["run_driver"](ctx["model"], kc.with_idrs_raw(ctx, ml), timeout=TMO)
    info = dict(lgmres_noreset_differs=0, lgmres_noreset_total=0, calls_with_exception=0, calls_with_nan=0,
                long_calls=0, long_calls_with_10plus_restarts=0, lgmres_calls_more_than_K_restarts=0,
                lgmres_calls_ring_phase_nonzero=0)
    for l, kind, meta in cs:
        cid = l.split(" ", 1)[0]
        a = impl.get(cid)
        if a is None or a.startswith(("CRASH", "UNSUPPORTED")) or "INPUT-MODIFIED" in (a or ""):
            fails.append(dict(kind="counterexample", case=l, impl=(a or "")[:2000], model=None, op=kind + ":" + meta["solver"], size=len(l),
                              theorem="C15: implementation run (crash / matrix or right-hand side modified by the call)"))
            continue
        if kind in ("seq", "dseq", "lgmres-noreset"):
            b = fresh.get(cid)
            ctx["stats"]["oracle_checks"] += 1
            if meta.get("long"):
                for part in a.split(" ; "):
                    pr = kc.parse_result(part)
                    if pr is None: continue
                    info["long_calls"] += 1
                    per = (meta["M"] + meta["K"]) if meta["solver"] == "lgmres" else meta["M"]
                    cycles = -(-pr[0] // per)
                    if meta["solver"] in ("lgmres", "gmres", "fgmres") and cycles >= 10: info["long_calls_with_10plus_restarts"] += 1
                    if meta["solver"] == "lgmres" and cycles > meta["K"]:
                        info["lgmres_calls_more_than_K_restarts"] += 1
                        if meta["K"] >= 2 and (cycles - meta["K"]) % meta["K"] != 0: info["lgmres_calls_ring_phase_nonzero"] += 1
            info["calls_with_exception"] += a.count("EXC")
            info["calls_with_nan"] += a.count("nan")
            if kind == "lgmres-noreset":
                # documented exception: the object may differ from fresh objects; but it must still equal the
                # model object whose state (buffer of augmentation vectors) is threaded through the calls
                info["lgmres_noreset_total"] += 1
                if a != b: info["lgmres_noreset_differs"] += 1
                m = model.get(cid)
                ctx["stats"]["oracle_checks"] += 1
                if a != m:
                    ctx["stats"]["mismatches"] += 1
                    fails.append(dict(kind="counterexample", case=l, impl=a[:3000], model=(m or "")[:3000], op="seq-model:lgmres-noreset", size=len(l),
                                      theorem="C15 correspondence: LGMRES always_reset=false, call sequence on one object vs the Coq model with threaded state"))
                continue
            if a != b:
                ctx["stats"]["mismatches"] += 1
                pa, pb = a.split(" ; "), (b or "").split(" ; ")
                first = next((i for i in range(len(pa)) if i >= len(pb) or pa[i] != pb[i]), -1)
                fails.append(dict(kind="counterexample", case=l, impl=a[:3000], model=(b or "")[:3000], op=kind + ":" + meta["solver"], size=len(l),
                                  oracle=dict(op="reuse", first_differing_call=first),
                                  theorem="C15 reuse: call sequence on one %s object vs a fresh object per call (%s)" % (meta["solver"], "exact" if kind == "seq" else "double, bit patterns")))
            if kind == "seq" and meta["solver"] in kc.MODELLED:
                m = model.get(cid)
                ctx["stats"]["oracle_checks"] += 1
                if a != m:
                    ctx["stats"]["mismatches"] += 1
                    fails.append(dict(kind="counterexample", case=l, impl=a[:3000], model=(m or "")[:3000], op="seq-model:" + meta["solver"], size=len(l),
                                      theorem="C15 correspondence: call sequence on one %s object vs the Coq model object (state threaded through the calls, junk-filled at construction)" % meta["solver"]))
        elif kind in ("zero", "conv"):
            pr = kc.parse_result(a)
            ctx["stats"]["oracle_checks"] += 1
            if kind == "zero":
                ok = pr is not None and pr[0] == 0 and all(F(v) == 0 for v in pr[2]) and F(pr[1]) == 0
                thm = "C15 zero right-hand side: 0 iterations, x = 0"
            else:
                ok = pr is not None and pr[0] == 0 and [F(v) for v in pr[2]] == meta.get("x0", [F(v) for v in pr[2]])
                thm = "C15 converged initial guess: 0 iterations, x unchanged"
            if not ok:
                fails.append(dict(kind="counterexample", case=l, impl=(a or "")[:2000], model=None, op=kind + ":" + meta["solver"], size=len(l), theorem=thm))
    ctx["stats"]["samples"].append(dict(info=info))
    return fails + obj_fails
