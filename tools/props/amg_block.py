"""amg_block.py -- C03 for BLOCK value types and the coarsening wrappers.

amg<builtin<static_matrix<vq::Q,b,b>>, C, R> with C in
    agg     coarsening::aggregation                      (block route)
    sa      coarsening::smoothed_aggregation             (block route)
    as_agg  coarsening::as_scalar<aggregation>::type     (scalar route)
    as_sa   coarsening::as_scalar<smoothed_aggregation>::type
    rt      runtime::coarsening::wrapper, type in {aggregation, smoothed_aggregation,
            smoothed_aggr_emin, ruge_stuben}; nullspace.cols > 0 selects the scalar route
(harness/amgb_driver.hpp).  Every level is dumped EXPANDED to scalar CRS.  Checks:
  1. correspondence: the hierarchy model (coq/Amg.v amg_init / amg_rebuild at the exact rationals,
     op amgbm of ocaml/amgb) fed with the implementation's transfer operators predicts every dump
     (matrices, stored order, level kinds) and the dense inverse of the coarsest direct solver;
  2. the property's own statement (coq/AmgBlock.v dump_ok, same_transfers, coarse_inverse_ok --
     extracted, exact) on every dump of the implementation: A_next = s R A P with s = 1/over_interp
     (float) for plain aggregation through every route and s = 1 otherwise, R = adjoint P, sizes
     strictly decrease, stored rows sorted/distinct, last-level rule, max_levels; rebuild keeps the
     transfer operators; the direct solver inverts s R A P;
  3. implementation against implementation: after rebuild(A') dump and action equal those of a NEW
     amg object built for A' whose coarsening replays the stored transfer operators; rebuilding
     with the original matrix restores the original dump and action.
"""
import random, struct
from fractions import Fraction as F
from vcheck import fmt_q, fmt_vec, fmt_crs, split_top
import gen
from props.common import account

VARIANTS = ["agg", "as_agg", "sa", "as_sa", "rt"]
RT_TYPES = ["aggregation", "smoothed_aggregation", "smoothed_aggr_emin", "ruge_stuben"]
RELAX = ["spai0", "damped_jacobi", "gauss_seidel", "ilu0"]
DRIVERS = ["amgb_agg", "amgb_sa", "amgb_rt", "amgb_b1", "amgb_b3"]
CFG_KEYS = ("coarse_enough", "direct_coarse", "max_levels", "npre", "npost", "ncycle", "pre_cycles", "allow_rebuild")

def f32(x): return F(struct.unpack("f", struct.pack("f", float(x)))[0])

C23 = F(2.0 / 3)          # static_cast<scalar_type>(2.0/3) of smoothed_aggregation.hpp, scalar_type = vq::Q
NEPS = 64                 # per-level eps_strong^2 values handed to the policy (more than any hierarchy has levels)

def policy_tokens(kind, eps_strong, relax, scale, bs, do_trunc="-", eps_trunc="-"):
    """tokens of the coarsening policy of Coarsen.coarsen_step (op amgfull); float parameters are converted
    with the C++ expressions of the code.  eps_strong: a float value (rational string)"""
    eps = F(eps_strong)
    def eps2_list():
        out = []; e = eps
        for _ in range(NEPS):
            out.append(gen.f32_mul(e, e)); e = gen.f32(e / 2)     # prm.aggr.eps_strong *= 0.5 (float)
        return "%d %s" % (NEPS, " ".join(fmt_q(x) for x in out))
    if kind == "aggregation":
        return "%s %d %s" % (fmt_q(gen.f32_mul(eps, eps)), bs, scale)
    if kind == "smoothed_aggregation":
        rl = F(1) if relax == "-" else f32(F(relax))
        return "%s %d %s %s" % (eps2_list(), bs, fmt_q(rl), fmt_q(C23))
    if kind == "smoothed_aggr_emin":
        return "%s %d" % (eps2_list(), bs)
    if kind == "ruge_stuben":
        et = f32(F(1, 5)) if eps_trunc == "-" else f32(F(eps_trunc))
        dt = 1 if do_trunc in ("-", "1") else 0
        return "%s %s %d" % (fmt_q(eps), fmt_q(et), dt)
    raise ValueError(kind)

def driver_of(variant, b):
    if b == 3: return "amgb_b3"
    if b == 1: return "amgb_b1"
    return {"agg": "amgb_agg", "as_agg": "amgb_agg", "sa": "amgb_sa", "as_sa": "amgb_sa", "rt": "amgb_rt"}[variant]

def to_blocks(rows, b):
    """sorted scalar rows of an (nb*b) x (nb*b) matrix -> block rows [(col, [b*b values row-major])]"""
    nb = len(rows) // b
    out = []
    for I in range(nb):
        blk = {}
        for r in range(b):
            for c, v in rows[I * b + r]:
                blk.setdefault(c // b, [F(0)] * (b * b))[r * b + c % b] = v
        out.append(sorted(blk.items()))
    return out

def expand(brows, b):
    out = []
    for rw in brows:
        for r in range(b):
            out.append([(c * b + s, v[r * b + s]) for c, v in rw for s in range(b)])
    return out

def fmt_bcrs(n, m, brows):
    out = [str(n), str(m)]
    for rw in brows:
        out.append(str(len(rw)))
        for c, v in rw: out += [str(c)] + [fmt_q(x) for x in v]
    return " ".join(out)

def out_crs_tokens(s):
    """'{n m | c:v c:v | ...}' (output format) -> crs tokens (case format), without rational parsing"""
    s = s.strip(); assert s[0] == "{" and s[-1] == "}", s[:60]
    parts = s[1:-1].split("|")
    out = [parts[0].strip()]
    for p in parts[1:]:
        es = p.split()
        out.append(str(len(es)))
        out += [e.replace(":", " ", 1) for e in es]
    return " ".join(out)

def out_dense_tokens(s):
    """'{N N | 0:v 1:v ... | ...}' dense inverse -> 'N (N v*N)*N'"""
    s = s.strip(); parts = s[1:-1].split("|")
    n = int(parts[0].split()[0]); out = [str(n)]
    for p in parts[1:]:
        es = p.split(); out.append(str(len(es))); out += [e.split(":", 1)[1] for e in es]
    return " ".join(out)

class BCase:
    def __init__(self, cid, variant, rt_type, b, relax, ctor, cfg, cprm, damping, ncols, B, n, brows, script):
        self.cid, self.variant, self.rt_type, self.b, self.relax, self.ctor = cid, variant, rt_type, b, relax, ctor
        self.cfg, self.cprm, self.damping, self.ncols, self.B, self.n, self.brows, self.script = cfg, cprm, damping, ncols, B, n, brows, script
    def kind(self):
        return self.rt_type if self.variant == "rt" else {"agg": "aggregation", "as_agg": "aggregation", "sa": "smoothed_aggregation", "as_sa": "smoothed_aggregation"}[self.variant]
    def scalar_route(self):
        if self.b == 1: return False      # scalar value type: as_scalar forwards to the base class, the wrapper never selects it
        return self.variant in ("as_agg", "as_sa") or (self.variant == "rt" and self.ncols > 0 and self.rt_type != "ruge_stuben")
    def scale(self):
        """s of 'A_next = s R A P': (float)(1 / over_interp) for plain aggregation through EVERY route"""
        if self.kind() != "aggregation": return "-"
        # aggregation::params(): over_interp = 1.5f for scalar value types, 2.0f for block value types; on the
        # scalar route the base coarsening is instantiated for the scalar backend (default 1.5f)
        oi = self.cprm["over_interp"]; oi = (F(3, 2) if (self.scalar_route() or self.b == 1) else F(2)) if oi == "-" else F(oi)
        f = struct.unpack("f", struct.pack("f", float(oi)))[0]
        return fmt_q(F(struct.unpack("f", struct.pack("f", 1.0 / f))[0]))
    def adj(self): return 0 if self.kind() == "smoothed_aggr_emin" else 1
    def script_tokens(self):
        out = [str(len(self.script))]
        for c in self.script:
            if c[0] in ("dump", "cinv"): out.append(c[0])
            elif c[0] in ("apply", "cycle"): out += [c[0], fmt_vec(c[1]), fmt_vec(c[2])]
            elif c[0] in ("rebuild", "rebuildp"): out += [c[0], fmt_bcrs(self.n, self.n, c[1])]
            elif c[0] == "fresh": out += ["fresh", fmt_bcrs(self.n, self.n, c[1]), fmt_vec(c[2]), fmt_vec(c[3])]
        return " ".join(out)
    def impl_line(self):
        cf, cp = self.cfg, self.cprm
        ns = "0" if self.ncols == 0 else "%d %d %s" % (self.ncols, len(self.B), " ".join(fmt_q(x) for x in self.B))
        return " ".join([self.cid, "amgb." + self.variant, str(self.b), self.relax, self.ctor,
                         " ".join(str(cf[k]) for k in CFG_KEYS),
                         self.rt_type if self.variant == "rt" else "-", cp["eps_strong"], cp["relax"], cp["over_interp"], str(cp["block_size"]),
                         self.damping, ns, fmt_bcrs(self.n, self.n, self.brows), self.script_tokens()])
    def full_eligible(self):
        """hierarchies the coarsening MODEL can build by itself (op amgfull): no near-null space;
        scalar value type through any class / wrapper, or block values through coarsening::as_scalar"""
        if self.ncols != 0 or self.kind() == "ruge_stuben": return False
        if self.b == 1: return True
        return self.variant in ("as_agg", "as_sa")
    def full_line(self):
        cf = self.cfg; N = self.n * self.b
        sc = []
        for c in self.script:
            if c[0] == "dump": sc.append("dump")
            elif c[0] in ("rebuild", "rebuildp"): sc.append("rebuild " + fmt_crs(N, N, expand(c[1], self.b)))
        return " ".join([self.cid + ".full", "amgfull", self.kind(), str(self.b), str(cf["coarse_enough"] * self.b), str(cf["direct_coarse"]), str(cf["max_levels"]),
                         policy_tokens(self.kind(), self.cprm["eps_strong"], self.cprm["relax"], self.scale(), self.cprm["block_size"]),
                         fmt_crs(N, N, expand(self.brows, self.b)), str(len(sc)), " ".join(sc)])
    def model_line(self, ts):
        cf = self.cfg; N = self.n * self.b
        toks = [str(len(ts))]
        for t in ts:
            toks.append("0" if t is None else "1 " + t[0] + " " + t[1])
        sc = []
        for c in self.script:
            if c[0] in ("dump", "cinv"): sc.append(c[0])
            elif c[0] in ("rebuild", "rebuildp"): sc.append("rebuild " + fmt_crs(N, N, expand(c[1], self.b)))
        return " ".join([self.cid, "amgbm", str(cf["coarse_enough"] * self.b), str(cf["direct_coarse"]), str(cf["max_levels"]), self.scale(),
                         fmt_crs(N, N, expand(self.brows, self.b)), " ".join(toks), str(len(sc)), " ".join(sc)])

def parse_dump_raw(seg):
    """'D n M {A} {P} {R} ... L {A} | S {A}|-' -> list of (kind, A, P, R) with matrices as output strings"""
    items = split_top(seg)
    assert items[0] == "D", seg[:50]
    n = int(items[1]); i = 2; out = []
    for _ in range(n):
        k = items[i]; i += 1
        if k == "M": out.append(("M", items[i], items[i + 1], items[i + 2])); i += 3
        elif k == "L": out.append(("L", items[i], None, None)); i += 1
        else: out.append(("S", None if items[i] == "-" else items[i], None, None)); i += 1
    return out, i

def dump_tokens(lv):
    out = [str(len(lv))]
    for k, A, P, R in lv:
        if k == "M": out += ["M", out_crs_tokens(A), out_crs_tokens(P), out_crs_tokens(R)]
        elif k == "L": out += ["L", out_crs_tokens(A)]
        else: out += ["S 0"] if A is None else ["S 1", out_crs_tokens(A)]
    return " ".join(out)

def perturb(r, brows, b, pure_scale=False):
    """same pattern, values scaled (and the diagonal of the diagonal blocks shifted): stays diagonally dominant"""
    s = r.choice([F(2), F(1, 2), F(3), F(5, 4)])
    sh = F(0) if pure_scale else r.choice([F(0), F(1), F(1, 2)])
    out = []
    for i, rw in enumerate(brows):
        nr = []
        for c, v in rw:
            w = [x * s for x in v]
            if c == i:
                for d in range(b): w[d * b + d] += sh
            nr.append((c, w))
        out.append(nr)
    return out

def make_cases(tier, seed):
    r = random.Random(seed * 1000 + 303)
    N = 64 if tier == "quick" else 320
    cases = []
    combos = [("agg", "-"), ("as_agg", "-"), ("sa", "-"), ("as_sa", "-"),
              ("rt", "aggregation"), ("rt", "smoothed_aggregation"), ("rt", "smoothed_aggr_emin"), ("rt", "aggregation")]
    for k in range(N):
        b = r.choice([2, 2, 2, 2, 1]) if tier == "quick" else r.choice([2, 2, 2, 3, 3, 1])
        variant, rt_type = combos[k % len(combos)]
        if variant == "rt" and k % 41 == 40: rt_type = "ruge_stuben"
        n = r.choice([2, 3, 4, 5, 6, 8, 10] if tier == "quick" else ([2, 3, 4, 5, 6, 8] if b == 3 else [2, 3, 4, 6, 8, 10, 12, 16]))
        rows = gen.spd_block(r, b, n, incomplete=(r.random() < 0.6), kron=(r.random() < 0.2))
        brows = to_blocks(rows, b)
        ctor = "copy"
        if r.random() < 0.25: ctor = "ptr"                       # amg(shared_ptr): no copy, no sort; rows given sorted
        elif r.random() < 0.4: brows = [r.sample(rw, len(rw)) for rw in brows]   # amg(Matrix) copies and sorts
        cfg = dict(coarse_enough=r.choice([0, 1, 1, 2, 3, max(1, n // 2), n, n + 2]),
                   direct_coarse=r.choice([1, 1, 0]), max_levels=r.choice([4294967295, 4294967295, 4294967295, 1, 2, 3]),
                   npre=r.choice([1, 1, 2, 0]), npost=r.choice([1, 1, 2, 0]), ncycle=r.choice([1, 1, 2]), pre_cycles=r.choice([1, 1, 2, 0]),
                   allow_rebuild=1)
        if n > 6: cfg.update(npre=min(cfg["npre"], 1), npost=min(cfg["npost"], 1), ncycle=1, pre_cycles=min(cfg["pre_cycles"], 1))
        eps = fmt_q(f32(F(r.choice(["1/4", "2/25", "1/8", "0", "1/2", "1/16"]))))
        cprm = dict(eps_strong=eps, relax="-", over_interp="-", block_size=1)
        kind = rt_type if variant == "rt" else ("aggregation" if "agg" in variant else "smoothed_aggregation")
        if kind == "aggregation": cprm["over_interp"] = r.choice(["2", "5/4", "-", "3/2", "1", "3"])   # non-default values: a lost scaling cannot hide
        if kind == "smoothed_aggregation": cprm["relax"] = r.choice(["-", "1", "1/2", "3/4", "3/2"])
        ncols = 0; B = []
        scalar_route = b > 1 and variant in ("as_agg", "as_sa")
        if b == 1:
            # scalar value type: the aggregation classes themselves take the near-null space and block_size
            if rt_type != "ruge_stuben" and r.random() < 0.6: ncols = r.choice([1, 2])
            if n % 2 == 0 and r.random() < 0.4: cprm["block_size"] = 2
        else:
            if variant == "rt" and rt_type != "ruge_stuben" and (k // len(combos)) % 2 == 0:
                ncols = b; scalar_route = True
            elif scalar_route and r.random() < 0.5:
                ncols = b
            if scalar_route:
                # pointwise aggregation of the unblocked matrix keeps the unknowns of a node together;
                # block_size = 1 with a null space (as in the bundled null-space examples) aggregates scalar unknowns
                cprm["block_size"] = b if (ncols == 0 or r.random() < 0.6) else 1
                if ncols == 0 and r.random() < 0.1: cprm["block_size"] = 1     # P need not be divisible into blocks: EXC or a hierarchy
        if ncols > 0:
            # near null space: the "translations" plus a dyadic perturbation (exact in double)
            for i in range(n * b):
                for c in range(ncols):
                    B.append(F(1 if i % max(b, ncols) == c % max(b, ncols) or ncols == 1 else 0) + r.choice([F(0), F(0), F(0), F(1, 2), F(-1, 4), F(1, 8)]))
            # an aggregate of m unknowns becomes nullspace.cols coarse unknowns: with cols > block_size the hierarchy
            # can stall at a fixed size (finding C03-nullspace-level-size-stall): bound the depth
            if ncols > cprm["block_size"] and cfg["max_levels"] > 4: cfg["max_levels"] = r.choice([2, 3, 4])
            # QR<double> puts 53-bit mantissas into P: keep the exact cycles affordable
            cfg.update(npre=min(cfg["npre"], 1), npost=min(cfg["npost"], 1), ncycle=1, pre_cycles=min(cfg["pre_cycles"], 1))
            if n * b > 12: cfg.update(max_levels=min(cfg["max_levels"], 2), npre=0)
        relax = RELAX[(k // 3) % len(RELAX)]
        if b != 2 and relax in ("gauss_seidel", "ilu0"): relax = "spai0"    # the b = 1, 3 drivers instantiate two relaxations
        damping = r.choice(["-", "1/2", "3/4", "5/8"]) if relax in ("damped_jacobi", "ilu0") else "-"
        f1 = gen.rvec(r, n * b); x0 = gen.rvec(r, n * b)
        script = [("dump",), ("cinv",), ("apply", f1, x0)]
        if r.random() < 0.85:
            A1 = perturb(r, brows, b)
            reb = "rebuildp" if (ctor == "ptr" or (r.random() < 0.2 and all(rw == sorted(rw) for rw in A1))) else "rebuild"
            if reb == "rebuildp": A1 = [sorted(rw) for rw in A1]
            script += [(reb, A1), ("dump",), ("cinv",), ("apply", f1, x0), ("fresh", A1, f1, x0)]
            if r.random() < 0.7:
                A0 = [sorted(rw) for rw in brows] if reb == "rebuildp" else brows
                script += [(reb, A0), ("dump",), ("apply", f1, x0)]
            if r.random() < 0.3:
                A2 = perturb(r, A1, b); f2 = gen.rvec(r, n * b)
                script += [("rebuild", A2), ("dump",), ("apply", f2, x0), ("fresh", A2, f2, x0)]
        if r.random() < 0.08:
            # rebuild needs prm.allow_rebuild: without it the hierarchy is the same and rebuild() must refuse
            cfg["allow_rebuild"] = 0
            script = [("dump",), ("cinv",), ("apply", f1, x0)]
            if r.random() < 0.5: script.append(("rebuild", perturb(r, brows, b)))
        if ctor == "ptr": brows = [sorted(rw) for rw in brows]
        cases.append(BCase("b%d" % k, variant, rt_type, b, relax, ctor, cfg, cprm, damping, ncols, B, n, brows, script))
    return cases

def fail(c, theorem, impl=None, model=None, **kw):
    d = dict(kind="counterexample", case=c.impl_line(), impl=(impl or "")[:3000], model=(model or "")[:3000] if model is not None else None,
             op="amgb." + c.variant, size=len(c.impl_line()), theorem=theorem, block=dict(variant=c.variant, rt_type=c.rt_type, b=c.b,
             scalar_route=c.scalar_route(), nullspace_cols=c.ncols, block_size=c.cprm["block_size"], kind=c.kind()))
    d.update(kw); return d

def malformed(c, segs):
    """None if every script result of the implementation has the documented shape, else a description
    (BADCRS verdicts of the structural validation, truncated lines, ...)"""
    try:
        if len(segs) != len(c.script): return "wrong number of script results"
        for cmd, sg in zip(c.script, segs):
            if cmd[0] == "dump":
                dump_tokens(parse_dump_raw(sg)[0])
            elif cmd[0] == "cinv":
                if sg != "I -":
                    if not sg.startswith("I {"): return "bad cinv result"
                    out_dense_tokens(sg[2:])
            elif cmd[0] in ("apply", "cycle"):
                if not (sg.startswith("[") and sg.endswith("]")): return "bad vector result"
            elif cmd[0] in ("rebuild", "rebuildp"):
                if sg != "ok": return "bad rebuild result"
            elif cmd[0] == "fresh":
                if not sg.startswith("F D ") or " [" not in sg: return "bad fresh result"
                dump_tokens(parse_dump_raw(sg[2:sg.rindex(" [")])[0])
        return None
    except Exception as e:
        return "unparsable (%s: %s)" % (type(e).__name__, str(e)[:80])

def run_impl(ctx, cases, env=None):
    """implementation outputs; a crashing case kills its shard (the runner marks the first unanswered case
    CRASH): the unanswered rest is run again until every case has an answer of its own"""
    impl = {}; pending = list(cases)
    for _ in range(8):
        by_drv = {}
        for c in pending: by_drv.setdefault(driver_of(c.variant, c.b), []).append(c)
        for d, cs in by_drv.items():
            impl.update(ctx["run_driver"](ctx["cpp"][d], [c.impl_line() for c in cs], env_extra=env, timeout=1500))
        pending = [c for c in pending if impl.get(c.cid) is None]
        if not pending: break
    return impl

def diagnose_crash(ctx, c, env=None):
    """why did the constructor crash?  Same case with direct_coarse = 0 and a lone dump: a level with 0 rows
    means every aggregate was removed (remove_small_aggregates) and the direct solver was built for a
    0 x 0 matrix (finding C03-empty-coarse-level-direct-solver-crash)"""
    import copy
    c2 = copy.copy(c); c2.cfg = dict(c.cfg, direct_coarse=0); c2.script = [("dump",)]; c2.cid = c.cid + ".diag"
    o = ctx["run_driver"](ctx["cpp"][driver_of(c.variant, c.b)], [c2.impl_line()], env_extra=env, timeout=600).get(c2.cid)
    if not o or not o.startswith("D "): return dict(diagnosis="unknown", rerun=(o or "")[:200])
    lv = parse_dump_raw(o)[0]
    sizes = [int(l[1][1:].split()[0]) for l in lv if l[1] is not None]
    return dict(diagnosis="empty-coarse-level" if 0 in sizes else "unknown", level_sizes=sizes)

def run_cases(ctx, cases, model_exe, env=None):
    """returns the list of failure records"""
    fails = []
    impl = run_impl(ctx, cases, env)
    account(ctx, [c.impl_line() for c in cases], impl)
    st = ctx["stats"]
    mlines = []; olines = []; owhat = {}; segs_of = {}; flines = []
    for c in cases:
        o = impl.get(c.cid)
        if c.full_eligible() and o is not None and not o.startswith(("CRASH", "UNSUPPORTED")):
            flines.append(c.full_line())
        if o is not None and o.startswith("CRASH") and "inverse.hpp" in o and "is_zero(d)" in o:
            # assert(!math::is_zero(d)) in detail::inverse: a smoother / coarse solver was set up on a SINGULAR
            # diagonal block (e.g. smoothed_aggr_emin producing a zero prolongation column, see the finding
            # C02-emin-zero-prolongation).  For block value types this assertion is the counterpart of the
            # "zero pivot" exception of the scalar code: construction is refused, which C03 admits (the
            # property is about hierarchies that were constructed).  Counted, never silently dropped.
            st.setdefault("impl_singular_block_asserts", 0); st["impl_singular_block_asserts"] += 1
            st["by_op"]["singular-block-assert(out of domain)"] = st["by_op"].get("singular-block-assert(out of domain)", 0) + 1
            continue
        if o is None or o.startswith("CRASH"):
            f = fail(c, "implementation crashed or gave no answer (amgb driver)", impl=o)
            if o is not None and c.cfg["direct_coarse"]: f["block"].update(diagnose_crash(ctx, c, env))
            fails.append(f); continue
        if c.variant == "rt" and c.rt_type == "ruge_stuben":
            # coarsening_is_supported<block backend, ruge_stuben> = false: the wrapper must refuse
            st["oracle_checks"] += 1
            if o != "EXC logic_error":
                fails.append(fail(c, "runtime wrapper: ruge_stuben on a block backend must raise logic_error", impl=o))
            continue
        if not c.cfg["allow_rebuild"] and any(cmd[0] in ("rebuild", "rebuildp") for cmd in c.script):
            # amg::rebuild: precondition(prm.allow_rebuild, "allow_rebuild is not set!")
            st["oracle_checks"] += 1
            if o != "EXC runtime_error":
                fails.append(fail(c, "rebuild() on a hierarchy built with allow_rebuild = false must raise", impl=o))
            continue
        if o.startswith(("EXC", "UNSUPPORTED")):
            # construction failed with an exception (zero pivot of the coarse solver, P not divisible into
            # blocks with block_size = 1, ...): an admissible outcome; nothing to compare
            st.setdefault("impl_exceptions", 0); st["impl_exceptions"] += 1
            continue
        segs = o.split(" ; ")
        bad = malformed(c, segs)
        if bad:
            fails.append(fail(c, "amgb driver: malformed hierarchy dump of the implementation: " + bad, impl=o)); continue
        segs_of[c.cid] = segs
        dumps = {}                       # script index -> parsed dump
        for i, cmd in enumerate(c.script):
            if cmd[0] == "dump": dumps[i] = parse_dump_raw(segs[i])[0]
        first = dumps[0]
        ts = [(out_crs_tokens(l[2]), out_crs_tokens(l[3])) if l[0] == "M" else None for l in first]
        mlines.append(c.model_line(ts))
        # the statement itself on every dump of the implementation
        head = "%d %d %d %d %s" % (c.cfg["coarse_enough"] * c.b, c.cfg["direct_coarse"], c.cfg["max_levels"], c.adj(), c.scale())
        last_dump = None; last_dump_i = None
        for i, cmd in enumerate(c.script):
            if cmd[0] == "dump":
                oid = "%s.d%d" % (c.cid, i); olines.append("%s amgb.oracle %s %s" % (oid, head, dump_tokens(dumps[i])))
                owhat[oid] = (c, "C03 statement on the implementation's hierarchy (dump at script step %d)" % i, segs[i])
                if last_dump is not None:
                    oid = "%s.t%d" % (c.cid, i); olines.append("%s amgb.same %s %s" % (oid, dump_tokens(last_dump), dump_tokens(dumps[i])))
                    owhat[oid] = (c, "rebuild changed the transfer operators (dumps at script steps %d and %d)" % (last_dump_i, i), segs[i])
                last_dump, last_dump_i = dumps[i], i
            elif cmd[0] == "cinv" and segs[i] != "I -" and last_dump is not None and len(last_dump) >= 2 and last_dump[-2][0] == "M":
                _, A, P, R = last_dump[-2]
                oid = "%s.i%d" % (c.cid, i)
                olines.append("%s amgb.cinv %s %s %s %s %s" % (oid, c.scale(), out_crs_tokens(A), out_crs_tokens(P), out_crs_tokens(R), out_dense_tokens(segs[i][2:])))
                owhat[oid] = (c, "the direct coarse solver does not invert s*R*A*P of the level above (script step %d)" % i, segs[i])
            elif cmd[0] == "fresh":
                # F <dump> [x] of a new amg object with replayed transfer operators = rebuilt hierarchy
                st["oracle_checks"] += 1
                body = segs[i]
                if not body.startswith("F D "):
                    fails.append(fail(c, "amgb driver: malformed fresh result", impl=body)); continue
                cut = body.rindex(" [")
                fdump, fx = body[2:cut], body[cut + 1:]
                # the dump and the apply that follow the last rebuild
                j = max(t for t in range(i) if c.script[t][0] in ("rebuild", "rebuildp"))
                rd = next((segs[t] for t in range(j, i) if c.script[t][0] == "dump"), None)
                ra = next((segs[t] for t in range(j, i) if c.script[t][0] == "apply" and c.script[t][1:] == cmd[2:]), None)
                if rd is not None and rd != fdump:
                    fails.append(fail(c, "C03: hierarchy after rebuild(A') differs from a fresh hierarchy assembled from A' with the same transfer operators", impl=rd, model=fdump, segment=i))
                if ra is not None and ra != fx:
                    fails.append(fail(c, "C03: after rebuild(A') the preconditioner does not act like a fresh hierarchy assembled from A' with the same transfer operators", impl=ra, model=fx, segment=i))
                oid = "%s.f%d" % (c.cid, i); olines.append("%s amgb.oracle %s %s" % (oid, head, dump_tokens(parse_dump_raw(fdump)[0])))
                owhat[oid] = (c, "C03 statement on a freshly built hierarchy (script step %d)" % i, fdump)
        # rebuild with the original matrix restores the original dump and action
        rb = [i for i, cmd in enumerate(c.script) if cmd[0] in ("rebuild", "rebuildp")]
        orig = [sorted(rw) for rw in c.brows]
        for j in rb:
            if [sorted(rw) for rw in c.script[j][1]] != orig: continue
            nxt = min([t for t in rb if t > j] + [len(c.script)])
            for t in range(j, nxt):
                if c.script[t][0] == "dump":
                    st["oracle_checks"] += 1
                    if segs[t] != segs[0]:
                        fails.append(fail(c, "C03: rebuild with the original matrix does not restore the original hierarchy", impl=segs[t], model=segs[0], segment=t))
                if c.script[t][0] == "apply" and c.script[t] == c.script[2]:
                    st["oracle_checks"] += 1
                    if segs[t] != segs[2]:
                        fails.append(fail(c, "C03: rebuild with the original matrix does not restore the original action", impl=segs[t], model=segs[2], segment=t))
    # 1. correspondence with the hierarchy model
    model = ctx["run_driver"](model_exe, mlines, timeout=1500)
    for c in cases:
        if c.cid not in segs_of or not any(l.startswith(c.cid + " ") for l in mlines): continue
        segs = segs_of[c.cid]
        want = [segs[i] for i, cmd in enumerate(c.script) if cmd[0] in ("dump", "cinv", "rebuild", "rebuildp")]
        what = [(i, cmd[0]) for i, cmd in enumerate(c.script) if cmd[0] in ("dump", "cinv", "rebuild", "rebuildp")]
        m = model.get(c.cid)
        got = (m or "").split(" ; ")
        if m is not None and m.startswith("EXC") and any(s.startswith("I {") for s in want):
            # singular coarse matrix in the model although the implementation factorised it
            fails.append(fail(c, "correspondence amgb(%s): model finds the coarsest matrix singular" % c.variant, impl=" ; ".join(want), model=m)); continue
        if want != got:
            st["mismatches"] += 1
            k = next((i for i in range(max(len(want), len(got))) if i >= len(want) or i >= len(got) or want[i] != got[i]), 0)
            step, cmd = what[k] if k < len(what) else (-1, "?")
            fails.append(fail(c, "correspondence amgb(%s,%s) script step %d (%s): implementation vs Amg.v hierarchy model on the expanded matrices" % (c.variant, c.kind(), step, cmd),
                              impl=want[k] if k < len(want) else None, model=got[k] if k < len(got) else None, segment=step, command=cmd))
    # 1b. hierarchies built entirely inside the model (AmgFull.amg_init_full; block values: through as_scalar_prep)
    fres = ctx["run_driver"](model_exe, flines, timeout=1500)
    for c in cases:
        fid = c.cid + ".full"
        if not any(l.startswith(fid + " ") for l in flines): continue
        st["oracle_checks"] += 1
        st.setdefault("full_model_hierarchies", 0); st["full_model_hierarchies"] += 1
        o = impl.get(c.cid); m = fres.get(fid)
        if o.startswith("EXC"):
            # the constructor threw (as_scalar: P not divisible into blocks; or a later stage the hierarchy
            # model does not cover): only the converse is an error
            if m is not None and m.startswith("EXC"): st.setdefault("full_model_exc_agree", 0); st["full_model_exc_agree"] += 1
            continue
        segs = segs_of.get(c.cid)
        if segs is None: continue
        want = [segs[i] for i, cmd in enumerate(c.script) if cmd[0] in ("dump", "rebuild", "rebuildp")]
        got = (m or "").split(" ; ")
        if want != got:
            st["mismatches"] += 1
            k = next((i for i in range(max(len(want), len(got))) if i >= len(want) or i >= len(got) or want[i] != got[i]), 0)
            fails.append(fail(c, "correspondence amgb(%s,%s): implementation's hierarchy vs the hierarchy built entirely inside the model (AmgFull.amg_init_full%s), dump/rebuild step %d" % (c.variant, c.kind(), ", as_scalar_prep" if c.b > 1 else "", k),
                              impl=want[k] if k < len(want) else None, model=got[k] if k < len(got) else None, segment=k))
    # 2. the extracted statement on the implementation's dumps
    res = ctx["run_driver"](model_exe, olines, timeout=1500)
    for l in olines:
        oid = l.split(" ", 1)[0]
        st["oracle_checks"] += 1
        rr = res.get(oid)
        if rr is None or not rr.startswith("OK"):
            st["oracle_fail"] += 1
            c, what, seg = owhat[oid]
            fails.append(fail(c, "%s: %s" % (what, rr), impl=seg, oracle=dict(op=l.split(" ", 2)[1], result=rr, line=l[:2000])))
    return fails
