"""C07 -- backend vector and matrix-vector primitives equal their algebraic definitions."""
import random
from fractions import Fraction as F
from vcheck import fmt_q, fmt_vec, fmt_crs
import gen
from props.common import diff_run

DRIVERS = ["kernels"]
ASSUMPTIONS = [
    "the builtin backend instantiated with the exact rational vq::Q executes the same template code as with double",
    "block_crs/Eigen/hybrid backends and block/complex value types: see DESIGN.md (compared against the scalar model only)",
]

def cases(tier, seed):
    r = random.Random(seed * 1000 + 7)
    N = 400 if tier == "quick" else 4000
    out = []
    k = 0
    def add(op, payload):
        nonlocal k
        out.append("c%d %s %s" % (k, op, payload)); k += 1
    for it in range(N):
        n = r.choice([0, 1, 1, 2, 3, 4, 5, 7, 9, 12]) if it % 10 else r.randint(10, 40 if tier == "quick" else 120)
        m = r.choice([n, n, max(1, n + r.randint(-2, 3))])
        rows = gen.rcrs(r, n, m, dups=(r.random() < 0.3))
        A = fmt_crs(n, m, rows)
        x = gen.rvec(r, m); y = gen.rvec(r, n); f = gen.rvec(r, n)
        add("spmv", " ".join([fmt_q(gen.coef(r)), A, fmt_vec(x), fmt_q(gen.coef(r)), fmt_vec(y)]))
        add("residual", " ".join([fmt_vec(f), A, fmt_vec(x), fmt_vec(y)]))
        a, b, c = gen.coef(r), gen.coef(r), gen.coef(r)
        u, v, w = gen.rvec(r, n), gen.rvec(r, n), gen.rvec(r, n)
        add("axpby", " ".join([fmt_q(a), fmt_vec(u), fmt_q(b), fmt_vec(v)]))
        add("axpbypcz", " ".join([fmt_q(a), fmt_vec(u), fmt_q(b), fmt_vec(v), fmt_q(c), fmt_vec(w)]))
        add("vmul", " ".join([fmt_q(a), fmt_vec(u), fmt_vec(v), fmt_q(b), fmt_vec(w)]))
        add("copy", " ".join([fmt_vec(u), fmt_vec(v)]))
        add("clear", fmt_vec(u))
        add("inner", " ".join([fmt_vec(u), fmt_vec(v)]))
        add("norm", fmt_vec(u))
        nv = r.choice([1, 2, 3, 4, 5, 6, 7])
        parts = [str(nv)]
        for _ in range(nv): parts += [fmt_q(gen.coef(r)), fmt_vec(gen.rvec(r, n))]
        parts += [fmt_q(gen.coef(r)), fmt_vec(w)]
        add("lin_comb", " ".join(parts))
    # --- double-instantiated runs: exact dyadic inputs, NaN/Inf junk in overwritten outputs ---
    DY = [F(k, d) for k in range(-8, 9) for d in (1, 2, 4)]
    def dq(nz=False):
        v = r.choice(DY)
        return F(1) if (nz and v == 0) else v
    def dvec(n): return [dq() for _ in range(n)]
    def junk(n): return " ".join([str(n)] + [r.choice(["nan", "inf", "-inf", "nan", "1", "-3"]) for _ in range(n)])
    def dcoef(): return r.choice([F(0), F(0), F(1), F(-1), dq(True)])
    for it in range(N // 2):
        n = r.choice([1, 2, 3, 4, 5, 8, 13]); m = r.choice([n, n + 1, max(1, n - 1)])
        rows = [[(c, dq(True)) for c in sorted(r.sample(range(m), r.randint(0, min(m, 4))))] for _ in range(n)]
        A = fmt_crs(n, m, rows)
        x = dvec(m); y = dvec(n); f = dvec(n)
        al, be_ = dcoef(), dcoef()
        add("d.spmv", " ".join([fmt_q(al), A, fmt_vec(x), fmt_q(be_), junk(n) if be_ == 0 else fmt_vec(y)]))
        add("d.residual", " ".join([fmt_vec(f), A, fmt_vec(x), junk(n)]))
        a, b, c = dcoef(), dcoef(), dcoef()
        u, v, w = dvec(n), dvec(n), dvec(n)
        add("d.axpby", " ".join([fmt_q(a), fmt_vec(u), fmt_q(b), junk(n) if b == 0 else fmt_vec(v)]))
        add("d.axpbypcz", " ".join([fmt_q(a), fmt_vec(u), fmt_q(b), fmt_vec(v), fmt_q(c), junk(n) if c == 0 else fmt_vec(w)]))
        add("d.vmul", " ".join([fmt_q(a), fmt_vec(u), fmt_vec(v), fmt_q(b), junk(n) if b == 0 else fmt_vec(w)]))
        add("d.copy", " ".join([fmt_vec(u), junk(n)]))
        add("d.clear", junk(n))
        nv = r.choice([1, 2, 3, 4, 5])
        parts = [str(nv)]
        for _ in range(nv): parts += [fmt_q(dcoef()), fmt_vec(dvec(n))]
        al = dcoef()
        parts += [fmt_q(al), junk(n) if al == 0 else fmt_vec(w)]
        add("d.lin_comb", " ".join(parts))
        add("d.inner", " ".join([fmt_vec(u), fmt_vec(v)]))
    # --- other backends: block_crs (any block size, sizes not divisible), hybrid (block-valued
    #     matrix, scalar vectors), Eigen; all must equal the scalar model.  Rows have distinct
    #     columns (the block converters overwrite duplicates) ---
    def drows(n, m, mx=4):
        return [[(c, dq(True)) for c in sorted(r.sample(range(m), r.randint(0, min(m, mx))))] for _ in range(n)]
    for it in range(N // 2):
        b = r.choice([1, 2, 3, 4, 5])
        n = r.choice([1, 2, 3, 4, 5, 6, 7, 9, 10, 13]); m = r.choice([n, n, n + 1, max(1, n - 1), n + 3])
        rows = drows(n, m)
        A = fmt_crs(n, m, rows); x = dvec(m); y = dvec(n); f = dvec(n)
        al, be_ = dcoef(), dcoef()
        yy = junk(n) if be_ == 0 else fmt_vec(y)
        for pfx in ("", "d."):
            yq = fmt_vec(y) if (pfx == "" and be_ == 0) else yy     # junk tokens only in the double build
            add(pfx + "bcrs.spmv", " ".join([str(b), fmt_q(al), A, fmt_vec(x), fmt_q(be_), yq]))
            add(pfx + "bcrs.residual", " ".join([str(b), fmt_vec(f), A, fmt_vec(x), fmt_vec(y) if pfx == "" else junk(n)]))
        add("eig_spmv", " ".join([fmt_q(al), A, fmt_vec(x), fmt_q(be_), yy]))
        add("eig_residual", " ".join([fmt_vec(f), A, fmt_vec(x), junk(n)]))
        a, bq, c = dcoef(), dcoef(), dcoef()
        u, v, w = dvec(n), dvec(n), dvec(n)
        add("eig_vec", " ".join(["axpby", fmt_q(a), fmt_vec(u), fmt_q(bq), junk(n) if bq == 0 else fmt_vec(v)]))
        add("eig_vec", " ".join(["axpbypcz", fmt_q(a), fmt_vec(u), fmt_q(bq), fmt_vec(v), fmt_q(c), junk(n) if c == 0 else fmt_vec(w)]))
        add("eig_vec", " ".join(["vmul", fmt_q(a), fmt_vec(u), fmt_vec(v), fmt_q(bq), junk(n) if bq == 0 else fmt_vec(w)]))
        add("eig_vec", " ".join(["inner", fmt_vec(u), fmt_vec(v)]))
        # hybrid: dimensions divisible by the block size
        bh = r.choice([2, 3, 4]); nb = r.choice([1, 2, 3]); nh = bh * nb
        rows = drows(nh, nh, mx=5); Ah = fmt_crs(nh, nh, rows); xh = dvec(nh); yh = dvec(nh)
        add("hyb_spmv", " ".join([str(bh), fmt_q(al), Ah, fmt_vec(xh), fmt_q(be_), junk(nh) if be_ == 0 else fmt_vec(yh)]))
        add("hyb_residual", " ".join([str(bh), fmt_vec(dvec(nh)), Ah, fmt_vec(xh), junk(nh)]))
    return out

def run(ctx, cases_override=None):
    lines = cases_override or cases(ctx["tier"], ctx["seed"])
    fails = []
    # exact runs at several thread counts: serial/parallel inner product, omp-for kernels
    nts = ["1", "3"] if ctx["tier"] == "quick" else ["1", "2", "3", "4", "5", "8", "17"]
    for k, nt in enumerate(nts):
        f, impl, model = diff_run(ctx, "kernels", lines if k == 0 else lines[::3], env={"OMP_NUM_THREADS": nt},
                                  shards=(16 if nt == "1" else 4))
        for x in f: x["theorem"] = "correspondence drv_kernels (%s, OMP_NUM_THREADS=%s) vs Kernels.v; spec theorems C07" % (x["op"], nt)
        fails += f
    return fails
MODEL = "kernels"
