"""C07 -- backend vector and matrix-vector primitives equal their algebraic definitions.

Scalar cases (driver kernels): exact rationals, doubles with NaN junk, block_crs / hybrid / Eigen backends.
Block and complex value types (driver kernels_block, ops bk.* / bkd.* / cx.*): the same extracted model functions at
BlockS QcS b / ComplexS QcS; stage 2 re-evaluates every block case with base-scalar coefficients by the proved SCALAR
model on the expanded (unblocked) matrix and flattened vectors (scalar_twin) and recomputes complex inner products as
sum x_i conj(y_i)."""
import random
from fractions import Fraction as F
from vcheck import fmt_q, fmt_vec, fmt_crs
import gen
from props.common import diff_run
from props import blockvals as bv

DRIVERS = ["kernels", "kernels_block", "kernels_ecx"]
ASSUMPTIONS = [
    "the builtin backend instantiated with the exact rational vq::Q executes the same template code as with double",
    "block_crs/Eigen/hybrid backends: compared against the scalar model only (see DESIGN.md)",
    "block values: static_matrix<vq::Q,b,b>, b = 2, 3, builtin backend; vector entries static_matrix<vq::Q,b,1> are carried in the model as column-0 blocks (BlockInst.blk_col; closure under the operations used is proved in NcRingBlock.v and re-checked on every output)",
    "complex values: std::complex<double> on small dyadic Gaussian rationals (every + - * exact in binary64) vs the Coq instance ComplexS QcS; no division, abs or sqrt of complex numbers is exercised",
]
TRUSTED_BASE = [
    "block/complex cases: harness/drv_kernels_block.cpp, ocaml/kernels/ops_kernels_block.ml, tools/props/blockvals.py (python expansion of block matrices to scalar matrices for the scalar-twin oracle)",
]

def cases(tier, seed):
    r = random.Random(seed * 1000 + 7)
    N = 400 if tier == "quick" else 4000
    out = []
    k = 0
    def add(op, payload):
        nonlocal k
        out.append("c%d %s %s" % (k, op, payload)); k += 1
    for it in range(N):
        n = r.choice([0, 1, 1, 2, 3, 4, 5, 7, 9, 12]) if it % 10 else r.randint(10, 40 if tier == "quick" else 120)
        m = r.choice([n, n, max(1, n + r.randint(-2, 3))])
        rows = gen.rcrs(r, n, m, dups=(r.random() < 0.3))
        A = fmt_crs(n, m, rows)
        x = gen.rvec(r, m); y = gen.rvec(r, n); f = gen.rvec(r, n)
        add("spmv", " ".join([fmt_q(gen.coef(r)), A, fmt_vec(x), fmt_q(gen.coef(r)), fmt_vec(y)]))
        add("residual", " ".join([fmt_vec(f), A, fmt_vec(x), fmt_vec(y)]))
        a, b, c = gen.coef(r), gen.coef(r), gen.coef(r)
        u, v, w = gen.rvec(r, n), gen.rvec(r, n), gen.rvec(r, n)
        add("axpby", " ".join([fmt_q(a), fmt_vec(u), fmt_q(b), fmt_vec(v)]))
        add("axpbypcz", " ".join([fmt_q(a), fmt_vec(u), fmt_q(b), fmt_vec(v), fmt_q(c), fmt_vec(w)]))
        add("vmul", " ".join([fmt_q(a), fmt_vec(u), fmt_vec(v), fmt_q(b), fmt_vec(w)]))
        add("copy", " ".join([fmt_vec(u), fmt_vec(v)]))
        add("clear", fmt_vec(u))
        add("inner", " ".join([fmt_vec(u), fmt_vec(v)]))
        add("norm", fmt_vec(u))
        nv = r.choice([1, 2, 3, 4, 5, 6, 7])
        parts = [str(nv)]
        for _ in range(nv): parts += [fmt_q(gen.coef(r)), fmt_vec(gen.rvec(r, n))]
        parts += [fmt_q(gen.coef(r)), fmt_vec(w)]
        add("lin_comb", " ".join(parts))
    # --- double-instantiated runs: exact dyadic inputs, NaN/Inf junk in overwritten outputs ---
    DY = [F(k, d) for k in range(-8, 9) for d in (1, 2, 4)]
    def dq(nz=False):
        v = r.choice(DY)
        return F(1) if (nz and v == 0) else v
    def dvec(n): return [dq() for _ in range(n)]
    def junk(n): return " ".join([str(n)] + [r.choice(["nan", "inf", "-inf", "nan", "1", "-3"]) for _ in range(n)])
    def dcoef(): return r.choice([F(0), F(0), F(1), F(-1), dq(True)])
    for it in range(N // 2):
        n = r.choice([1, 2, 3, 4, 5, 8, 13]); m = r.choice([n, n + 1, max(1, n - 1)])
        rows = [[(c, dq(True)) for c in sorted(r.sample(range(m), r.randint(0, min(m, 4))))] for _ in range(n)]
        A = fmt_crs(n, m, rows)
        x = dvec(m); y = dvec(n); f = dvec(n)
        al, be_ = dcoef(), dcoef()
        add("d.spmv", " ".join([fmt_q(al), A, fmt_vec(x), fmt_q(be_), junk(n) if be_ == 0 else fmt_vec(y)]))
        add("d.residual", " ".join([fmt_vec(f), A, fmt_vec(x), junk(n)]))
        a, b, c = dcoef(), dcoef(), dcoef()
        u, v, w = dvec(n), dvec(n), dvec(n)
        add("d.axpby", " ".join([fmt_q(a), fmt_vec(u), fmt_q(b), junk(n) if b == 0 else fmt_vec(v)]))
        add("d.axpbypcz", " ".join([fmt_q(a), fmt_vec(u), fmt_q(b), fmt_vec(v), fmt_q(c), junk(n) if c == 0 else fmt_vec(w)]))
        add("d.vmul", " ".join([fmt_q(a), fmt_vec(u), fmt_vec(v), fmt_q(b), junk(n) if b == 0 else fmt_vec(w)]))
        add("d.copy", " ".join([fmt_vec(u), junk(n)]))
        add("d.clear", junk(n))
        nv = r.choice([1, 2, 3, 4, 5])
        parts = [str(nv)]
        for _ in range(nv): parts += [fmt_q(dcoef()), fmt_vec(dvec(n))]
        al = dcoef()
        parts += [fmt_q(al), junk(n) if al == 0 else fmt_vec(w)]
        add("d.lin_comb", " ".join(parts))
        add("d.inner", " ".join([fmt_vec(u), fmt_vec(v)]))
    # --- other backends: block_crs (any block size, sizes not divisible), hybrid (block-valued
    #     matrix, scalar vectors), Eigen; all must equal the scalar model.  Rows have distinct
    #     columns (the block converters overwrite duplicates) ---
    def drows(n, m, mx=4):
        return [[(c, dq(True)) for c in sorted(r.sample(range(m), r.randint(0, min(m, mx))))] for _ in range(n)]
    for it in range(N // 2):
        b = r.choice([1, 2, 3, 4, 5])
        n = r.choice([1, 2, 3, 4, 5, 6, 7, 9, 10, 13]); m = r.choice([n, n, n + 1, max(1, n - 1), n + 3])
        rows = drows(n, m)
        A = fmt_crs(n, m, rows); x = dvec(m); y = dvec(n); f = dvec(n)
        al, be_ = dcoef(), dcoef()
        yy = junk(n) if be_ == 0 else fmt_vec(y)
        for pfx in ("", "d."):
            yq = fmt_vec(y) if (pfx == "" and be_ == 0) else yy     # junk tokens only in the double build
            add(pfx + "bcrs.spmv", " ".join([str(b), fmt_q(al), A, fmt_vec(x), fmt_q(be_), yq]))
            add(pfx + "bcrs.residual", " ".join([str(b), fmt_vec(f), A, fmt_vec(x), fmt_vec(y) if pfx == "" else junk(n)]))
        add("eig_spmv", " ".join([fmt_q(al), A, fmt_vec(x), fmt_q(be_), yy]))
        add("eig_residual", " ".join([fmt_vec(f), A, fmt_vec(x), junk(n)]))
        a, bq, c = dcoef(), dcoef(), dcoef()
        u, v, w = dvec(n), dvec(n), dvec(n)
        add("eig_vec", " ".join(["axpby", fmt_q(a), fmt_vec(u), fmt_q(bq), junk(n) if bq == 0 else fmt_vec(v)]))
        add("eig_vec", " ".join(["axpbypcz", fmt_q(a), fmt_vec(u), fmt_q(bq), fmt_vec(v), fmt_q(c), junk(n) if c == 0 else fmt_vec(w)]))
        add("eig_vec", " ".join(["vmul", fmt_q(a), fmt_vec(u), fmt_vec(v), fmt_q(bq), junk(n) if bq == 0 else fmt_vec(w)]))
        add("eig_vec", " ".join(["inner", fmt_vec(u), fmt_vec(v)]))
        # hybrid: dimensions divisible by the block size
        bh = r.choice([2, 3, 4]); nb = r.choice([1, 2, 3]); nh = bh * nb
        rows = drows(nh, nh, mx=5); Ah = fmt_crs(nh, nh, rows); xh = dvec(nh); yh = dvec(nh)
        add("hyb_spmv", " ".join([str(bh), fmt_q(al), Ah, fmt_vec(xh), fmt_q(be_), junk(nh) if be_ == 0 else fmt_vec(yh)]))
        add("hyb_residual", " ".join([str(bh), fmt_vec(dvec(nh)), Ah, fmt_vec(xh), junk(nh)]))
    # --- block and complex value types (harness/drv_kernels_block.cpp) ---
    for op, payload in block_cases(tier, seed):
        add(op, payload)
    return out

# ------------------------------------------------------------------ block / complex value types
BSTAT = {}

def block_cases(tier, seed):
    """(op, payload) for the ops of harness/drv_kernels_block.cpp"""
    r = random.Random(seed * 1000 + 707)
    N = 140 if tier == "quick" else 1400
    out = []; mats = []
    def add(op, *parts): out.append((op, " ".join(str(p_) for p_ in parts)))
    def kinds(*kcs): return "".join(k for k, _ in kcs)
    for it in range(N):
        b = r.choice([2, 2, 3])
        n = r.choice([0, 1, 1, 2, 3, 4, 5]) if it % 9 else r.randint(6, 14 if tier == "quick" else 40)
        m = r.choice([n, n, max(1, n + r.randint(-2, 3))])
        rows = bv.rbcrs(r, b, n, m, dups=(r.random() < 0.3)); mats.append((rows, b))
        A = bv.fmt_bcrs(n, m, rows)
        V = lambda k: bv.fmt_bvec(gen.rvec(r, k * b), b)
        x, y, f = V(m), V(n), V(n)
        al, be_ = bv.bcoef(r, b), bv.bcoef(r, b)
        # spmv: every coefficient-kind pair; block vectors, and scalar vectors passed in their place
        add("bk.spmv", b, kinds(al, be_), "bb", bv.fmt_coef(al), A, x, bv.fmt_coef(be_), y)
        add("bk.spmv", b, kinds(al, be_), r.choice(["ss", "ss", "sb", "bs"]), bv.fmt_coef(al), A, x, bv.fmt_coef(be_), y)
        add("bk.residual", b, "bbb", f, A, x, y)
        add("bk.residual", b, r.choice(["sss", "sss", "sbb", "bsb", "bbs"]), f, A, x, y)
        a, bq, c = bv.bcoef(r, b), bv.bcoef(r, b), bv.bcoef(r, b)
        u, v, w = V(n), V(n), V(n)
        add("bk.axpby", b, kinds(a, bq), bv.fmt_coef(a), u, bv.fmt_coef(bq), v)
        add("bk.axpbypcz", b, kinds(a, bq, c), bv.fmt_coef(a), u, bv.fmt_coef(bq), v, bv.fmt_coef(c), w)
        X = [bv.rblock(r, b) for _ in range(n)]; mats.append(([[(0, B) for B in X]], b))
        add("bk.vmul", b, kinds(a, bq), "bb", bv.fmt_coef(a), bv.fmt_blocks(X), v, bv.fmt_coef(bq), w)
        if it % 2 == 0:
            add("bk.vmul", b, kinds(a, bq), "ss", bv.fmt_coef(a), bv.fmt_blocks(X), v, bv.fmt_coef(bq), w)
        if it % 3 == 0:
            Y = [bv.rblock(r, b) for _ in range(n)]; Z = [bv.rblock(r, b) for _ in range(n)]
            add("bk.vmul_mm", b, kinds(a, bq), bv.fmt_coef(a), bv.fmt_blocks(X), bv.fmt_blocks(Y), bv.fmt_coef(bq), bv.fmt_blocks(Z))
            add("bk.inner_mm", b, bv.fmt_blocks(X), bv.fmt_blocks(Y))
        add("bk.copy", b, u, v); add("bk.clear", b, u)
        add("bk.inner", b, u, v)
        nv = r.choice([1, 2, 3, 4, 5, 6, 7])
        kc = r.choice(["s", "m"]); alc = bv.bcoef(r, b)
        parts = [str(nv)]
        for _ in range(nv):
            cj = bv.bcoef(r, b)
            while cj[0] != kc: cj = bv.bcoef(r, b)
            parts += [bv.fmt_coef(cj), V(n)]
        add("bk.lin_comb", b, kc + alc[0], " ".join(parts), bv.fmt_coef(alc), w)
        if it % 4 == 0:
            B1, B2 = bv.rblock(r, b), bv.rblock(r, b)
            add("bk.mul", b, bv.fmt_blk(B1), bv.fmt_blk(B2)); add("bk.adjoint", b, bv.fmt_blk(B1)); add("bk.norm", b, bv.fmt_blk(B1))
    BSTAT.clear(); BSTAT.update(bv.noncommuting_fraction(r, mats))
    # ---- static_matrix<double,b,b>: exact dyadic inputs, NaN/Inf junk in outputs that must be overwritten
    DY = [F(k, d) for k in range(-8, 9) for d in (1, 2, 4)]
    def dq(nz=False):
        v = r.choice(DY)
        return F(1) if (nz and v == 0) else v
    def dblock(b):
        kind = r.choice(["gen", "gen", "upper", "lower", "diag", "sparse"])
        return [[(dq(True) if (kind == "gen" or (kind == "upper" and j >= i) or (kind == "lower" and j <= i) or (kind == "diag" and i == j)
                  or (kind == "sparse" and r.random() < 0.5)) else F(0)) for j in range(b)] for i in range(b)]
    def dcoef(b):
        if r.random() < 0.5: return ("s", r.choice([F(0), F(0), F(1), F(-1), dq(True)]))
        k = r.random()
        if k < 0.35: return ("m", bv.bl_zero(b))
        if k < 0.45: return ("m", bv.bl_id(b))
        return ("m", dblock(b))
    def czero(kc): return (kc[1] == 0) if kc[0] == "s" else bv.bl_is_zero(kc[1])
    def junkv(n, b): return " ".join([str(n)] + [r.choice(["nan", "inf", "-inf", "nan", "1", "-3"]) for _ in range(n * b)])
    for it in range(N // 2):
        b = r.choice([2, 2, 3])
        n = r.choice([1, 2, 3, 4, 5]); m = r.choice([n, n + 1, max(1, n - 1)])
        rows = [[(c, dblock(b)) for c in sorted(r.sample(range(m), r.randint(0, min(m, 3))))] for _ in range(n)]
        A = bv.fmt_bcrs(n, m, rows)
        DV = lambda k: bv.fmt_bvec([dq() for _ in range(k * b)], b)
        al, be_ = dcoef(b), dcoef(b)
        add("bkd.spmv", b, kinds(al, be_), r.choice(["bb", "bb", "ss"]), bv.fmt_coef(al), A, DV(m), bv.fmt_coef(be_), junkv(n, b) if czero(be_) else DV(n))
        add("bkd.residual", b, r.choice(["bbb", "bbb", "sss"]), DV(n), A, DV(m), junkv(n, b))
        a, bq, c = dcoef(b), dcoef(b), dcoef(b)
        add("bkd.axpby", b, kinds(a, bq), bv.fmt_coef(a), DV(n), bv.fmt_coef(bq), junkv(n, b) if czero(bq) else DV(n))
        add("bkd.axpbypcz", b, kinds(a, bq, c), bv.fmt_coef(a), DV(n), bv.fmt_coef(bq), DV(n), bv.fmt_coef(c), junkv(n, b) if czero(c) else DV(n))
        X = [dblock(b) for _ in range(n)]
        add("bkd.vmul", b, kinds(a, bq), r.choice(["bb", "ss"]), bv.fmt_coef(a), bv.fmt_blocks(X), DV(n), bv.fmt_coef(bq), junkv(n, b) if czero(bq) else DV(n))
        add("bkd.copy", b, DV(n), junkv(n, b)); add("bkd.clear", b, junkv(n, b))
        add("bkd.inner", b, DV(n), DV(n))
        nv = r.choice([1, 2, 3, 4, 5]); kc = r.choice(["s", "m"]); alc = dcoef(b)
        parts = [str(nv)]
        for _ in range(nv):
            cj = dcoef(b)
            while cj[0] != kc: cj = dcoef(b)
            parts += [bv.fmt_coef(cj), DV(n)]
        add("bkd.lin_comb", b, kc + alc[0], " ".join(parts), bv.fmt_coef(alc), junkv(n, b) if czero(alc) else DV(n))
    # ---- complex
    for it in range(N):
        n = r.choice([0, 1, 1, 2, 3, 4, 5, 7]); m = r.choice([n, n, max(1, n + r.randint(-2, 3))])
        rows = bv.rccrs(r, n, m, dups=(r.random() < 0.3)); A = bv.fmt_ccrs(n, m, rows)
        CV = lambda k: bv.fmt_cvec([bv.rcx(r) for _ in range(k)])
        al, be_ = bv.ccoef(r), bv.ccoef(r)
        cz0 = lambda kc: (kc[1] == 0) if kc[0] == "r" else (kc[1] == (0, 0))
        CJ = lambda k: " ".join([str(k)] + [r.choice(["nan", "inf", "-inf", "nan", "1", "-3"]) for _ in range(2 * k)])   # NaN/Inf junk (binary64)
        add("cx.spmv", kinds(al, be_), bv.fmt_ccoef(al), A, CV(m), bv.fmt_ccoef(be_), CJ(n) if cz0(be_) else CV(n))
        add("cx.residual", CV(n), A, CV(m), CJ(n))
        a, bq = bv.ccoef(r), bv.ccoef(r)
        add("cx.axpby", kinds(a, bq), bv.fmt_ccoef(a), CV(n), bv.fmt_ccoef(bq), CJ(n) if cz0(bq) else CV(n))
        add("cx.vmul", kinds(a, bq), bv.fmt_ccoef(a), CV(n), CV(n), bv.fmt_ccoef(bq), CJ(n) if cz0(bq) else CV(n))
        k3 = r.choice(["ccc", "ccc", "rrr", "crc", "rcr"])
        def ck(kind):
            z = bv.ccoef(r)
            while z[0] != kind: z = bv.ccoef(r)
            return bv.fmt_ccoef(z)
        add("cx.axpbypcz", k3, ck(k3[0]), CV(n), ck(k3[1]), CV(n), ck(k3[2]), CV(n))
        add("cx.copy", CV(n), CJ(n)); add("cx.clear", CJ(n))
        add("cx.inner", CV(n), CV(n))
        nv = r.choice([1, 2, 3, 4, 5]); kc = r.choice(["c", "c", "r"]); ka = r.choice(["c", "c", "r"])
        parts = [str(nv)]
        for _ in range(nv): parts += [ck(kc), CV(n)]
        add("cx.lin_comb", kc + ka, " ".join(parts), ck(ka), CV(n))
    return out


def scalar_twin(op, payload):
    """block case with base-scalar coefficients -> the SCALAR case (ops of drv_kernels / ops_kernels.ml) on the
    expanded (unblocked) matrix and the flattened vectors; the outputs must be identical (C07 A4)"""
    t = bv.Toks(payload)
    try:
        b = t.i()
        if op == "bk.spmv":
            k = t.s(); t.s()
            if k != "ss": return None
            al = t.q(); n, m, rows = t.bcrs(b); x = t.bvec(b); be_ = t.q(); y = t.bvec(b)
            return "spmv", " ".join([fmt_q(al), fmt_crs(n * b, m * b, bv.b_expand(rows, b)), fmt_vec(x), fmt_q(be_), fmt_vec(y)])
        if op == "bk.residual":
            t.s(); f = t.bvec(b); n, m, rows = t.bcrs(b); x = t.bvec(b); rr = t.bvec(b)
            return "residual", " ".join([fmt_vec(f), fmt_crs(n * b, m * b, bv.b_expand(rows, b)), fmt_vec(x), fmt_vec(rr)])
        if op == "bk.axpby":
            if t.s() != "ss": return None
            a = t.q(); x = t.bvec(b); c = t.q(); y = t.bvec(b)
            return "axpby", " ".join([fmt_q(a), fmt_vec(x), fmt_q(c), fmt_vec(y)])
        if op == "bk.axpbypcz":
            if t.s() != "sss": return None
            a = t.q(); x = t.bvec(b); c = t.q(); y = t.bvec(b); d = t.q(); z = t.bvec(b)
            return "axpbypcz", " ".join([fmt_q(a), fmt_vec(x), fmt_q(c), fmt_vec(y), fmt_q(d), fmt_vec(z)])
        if op == "bk.vmul":
            k = t.s(); t.s()
            if k != "ss": return None
            a = t.q(); X = t.blocks(b); y = t.bvec(b); c = t.q(); z = t.bvec(b)
            n = len(X); rows = [[(i, B)] for i, B in enumerate(X)]       # block-diagonal matrix
            return "spmv", " ".join([fmt_q(a), fmt_crs(n * b, n * b, bv.b_expand(rows, b)), fmt_vec(y), fmt_q(c), fmt_vec(z)])
        if op == "bk.copy":
            x = t.bvec(b); y = t.bvec(b); return "copy", fmt_vec(x) + " " + fmt_vec(y)
        if op == "bk.clear":
            x = t.bvec(b); return "clear", fmt_vec(x)
        if op == "bk.inner":
            x = t.bvec(b); y = t.bvec(b); return "inner", fmt_vec(x) + " " + fmt_vec(y)
        if op == "bk.lin_comb":
            if t.s() != "ss": return None
            nv = t.i(); parts = [str(nv)]
            for _ in range(nv): c = t.q(); v = t.bvec(b); parts += [fmt_q(c), fmt_vec(v)]
            al = t.q(); y = t.bvec(b)
            return "lin_comb", " ".join(parts + [fmt_q(al), fmt_vec(y)])
    except Exception:
        return None
    return None


def cx_inner_ref(payload):
    """sum_i x_i * conj(y_i), computed here with exact fractions (conjugate-linear in the SECOND argument)"""
    t = payload.split(); p_ = 0
    def cvec():
        nonlocal p_
        n = int(t[p_]); p_ += 1; v = []
        for _ in range(n): v.append((F(t[p_]), F(t[p_ + 1]))); p_ += 2
        return v
    x = cvec(); y = cvec(); acc = (F(0), F(0))
    for a, c in zip(x, y): acc = bv.cx_add(acc, bv.cx_mul(a, bv.cx_conj(c)))
    return "%s,%s" % (fmt_q(acc[0]), fmt_q(acc[1]))


def block_run(ctx, blines):
    """block / complex cases: correspondence at two thread counts + scalar-twin oracle + sesquilinearity reference"""
    fails = []
    nts = ["1", "3"] if ctx["tier"] == "quick" else ["1", "2", "3", "5", "8"]
    impl1 = {}
    for k, nt in enumerate(nts):
        ls = blines if k == 0 else blines[::2]
        f, impl, model = diff_run(ctx, "kernels_block", ls, env={"OMP_NUM_THREADS": nt}, shards=(16 if nt == "1" else 4))
        for x in f: x["theorem"] = "correspondence drv_kernels_block (%s, OMP_NUM_THREADS=%s) vs Kernels.v at BlockS QcS b / ComplexS QcS; spec theorems C07_nc_*, C07_complex_*" % (x["op"], nt)
        fails += f
        if k == 0: impl1 = impl
    # scalar twins: the proved scalar model on the expanded matrix must give the block implementation's numbers
    twins = []; of = {}
    for l in blines:
        cid, op, payload = l.split(" ", 2)
        tw = scalar_twin(op, payload)
        if tw and impl1.get(cid) is not None and not impl1[cid].startswith(("EXC", "CRASH", "UNSUPPORTED", "BAD")):
            twins.append("%s %s %s" % (cid, tw[0], tw[1])); of[cid] = l
    if twins:
        res = ctx["run_driver"](ctx["model"], twins)
        for tl in twins:
            cid = tl.split(" ", 1)[0]
            ctx["stats"]["oracle_checks"] += 1
            if res.get(cid) != impl1.get(cid):
                ctx["stats"]["oracle_fail"] += 1
                fails.append(dict(kind="counterexample", case=of[cid], impl=impl1.get(cid), model=res.get(cid), op=of[cid].split(" ", 2)[1],
                                  oracle=dict(op="scalar-twin " + tl.split(" ", 2)[1], result=res.get(cid), line=tl[:2000]), size=len(of[cid]),
                                  theorem="C07 A4: block-valued primitive = scalar primitive on the expanded matrix / flattened vectors (scalar model, theorems C07_*_formula)"))
    # the Eigen backend with a complex value type: the same "cx.*" lines (complex coefficients only) through
    # harness/drv_kernels_ecx.cpp must give the same model outputs (inner_product conjugate-linear in the SECOND
    # argument on every backend)
    elines = [l for l in blines if l.split(" ", 2)[1] in ("cx.inner", "cx.copy", "cx.clear", "cx.residual", "cx.axpby",
                                                          "cx.axpbypcz", "cx.vmul", "cx.spmv")]
    if elines:
        eimpl = ctx["run_driver"](ctx["cpp"]["kernels_ecx"], elines, env_extra={"OMP_NUM_THREADS": "1"})
        emodel = ctx["run_driver"](ctx["model"], elines)
        for l in elines:
            cid, op, payload = l.split(" ", 2)
            o = eimpl.get(cid)
            if o == "SKIP": continue
            ctx["stats"]["evaluations"] += 1; ctx["stats"]["by_op"]["eigen." + op] = ctx["stats"]["by_op"].get("eigen." + op, 0) + 1
            if o is not None and not o.startswith(("EXC", "CRASH")): ctx["stats"]["nontrivial"] += 1
            if o != emodel.get(cid):
                ctx["stats"]["mismatches"] += 1
                fails.append(dict(kind="counterexample", case=l, impl=o, model=emodel.get(cid), op=op, size=len(l),
                                  theorem="correspondence drv_kernels_ecx (Eigen backend, complex values, %s) vs Kernels.v at ComplexS QcS (C07_complex_*)" % op))
    for l in blines:
        cid, op, payload = l.split(" ", 2)
        if op == "cx.inner" and impl1.get(cid) is not None:
            ctx["stats"]["oracle_checks"] += 1
            ref = cx_inner_ref(payload)
            if impl1[cid] != ref:
                ctx["stats"]["oracle_fail"] += 1
                fails.append(dict(kind="counterexample", case=l, impl=impl1[cid], model=ref, op=op, size=len(l),
                                  oracle=dict(op="sum x_i conj(y_i)", result=ref, line=l[:2000]),
                                  theorem="C07 inner_product is conjugate-linear in the second argument (C07_complex_inner_product_sesquilinear)"))
    # blocks of complex numbers (static_matrix<complex,b,1> vectors): the inner product of the same numbers grouped into b x 1 blocks
    # must be the scalar complex inner product (element-wise math::inner_product conjugates its second argument too); seeded C07-7
    cbl = []
    for l in blines:
        cid, op, payload = l.split(" ", 2)
        if op != "cx.inner": continue
        n = int(payload.split()[0])
        for b in (2, 3, 4):
            if n and n % b == 0: cbl.append(("%s.b%d cxb.inner %d %s" % (cid, b, b, payload), payload, b))
    if cbl:
        cimpl = ctx["run_driver"](ctx["cpp"]["kernels_block"], [c[0] for c in cbl], env_extra={"OMP_NUM_THREADS": "1"})
        for line, payload, b in cbl:
            cid = line.split(" ", 1)[0]; o = cimpl.get(cid)
            ctx["stats"]["oracle_checks"] += 1; ctx["stats"]["evaluations"] += 1
            ctx["stats"]["by_op"]["cxb.inner"] = ctx["stats"]["by_op"].get("cxb.inner", 0) + 1
            ref = cx_inner_ref(payload)
            t = payload.split(); first = " ".join([str(b)] + t[1:1 + 2 * b] + [str(b)] + t[2 + 2 * int(t[0]):2 + 2 * int(t[0]) + 2 * b])
            want = "%s %s" % (ref, cx_inner_ref(first))
            if o != want:
                ctx["stats"]["oracle_fail"] += 1
                fails.append(dict(kind="counterexample", case=line, impl=o, model=want, op="cxb.inner", size=len(line),
                                  oracle=dict(op="sum x_i conj(y_i) over the flattened complex blocks; first block alone", result=want, line=line[:2000]),
                                  theorem="C07 inner_product of vectors of complex b x 1 blocks = scalar complex inner product of the same numbers (C07_complex_inner_product_sesquilinear)"))
    if BSTAT:
        ctx["log"].append(("C07 block generators: stored blocks / scalar / diagonal / symmetric; sampled pairs / non-commuting",
                           "%(blocks)d / %(scalar)d / %(diagonal)d / %(symmetric)d; %(pairs)d / %(noncommuting)d" % BSTAT))
    return fails


def is_block_line(l):
    return l.split(" ", 2)[1].startswith(("bk.", "bkd.", "cx."))


def run(ctx, cases_override=None):
    lines = cases_override or cases(ctx["tier"], ctx["seed"])
    fails = []
    blines = [l for l in lines if is_block_line(l)]
    lines = [l for l in lines if not is_block_line(l)]
    if blines: fails += block_run(ctx, blines)
    if not lines: return fails
    # exact runs at several thread counts: serial/parallel inner product, omp-for kernels
    nts = ["1", "3"] if ctx["tier"] == "quick" else ["1", "2", "3", "4", "5", "8", "17"]
    for k, nt in enumerate(nts):
        f, impl, model = diff_run(ctx, "kernels", lines if k == 0 else lines[::3], env={"OMP_NUM_THREADS": nt},
                                  shards=(16 if nt == "1" else 4))
        for x in f: x["theorem"] = "correspondence drv_kernels (%s, OMP_NUM_THREADS=%s) vs Kernels.v; spec theorems C07" % (x["op"], nt)
        fails += f
    return fails
MODEL = "kernels"
