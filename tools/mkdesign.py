#!/usr/bin/env python3
"""mkdesign.py -- regenerate the two machine-kept tables of DESIGN.md (between HTML comment markers):
the seeded-changes table (from seeded/*/meta.json) and the findings lists (from known_findings.d/*.json)."""
import json, glob, os, re, sys
V = os.path.dirname(os.path.dirname(os.path.abspath(__file__)))
def esc(s): return " ".join(str(s).replace("|", "\\|").split())
def seeded_tally():
    import collections
    c = collections.Counter()
    for d in sorted(glob.glob(os.path.join(V, "seeded", "*"))):
        m = json.load(open(os.path.join(d, "meta.json"))); ca = str(m.get("verif_result", {}).get("caught"))
        prop = os.path.basename(d).split("-")[0]
        if ca.startswith("True") or ca == "yes" or ca.startswith(prop + ": True") or ca.startswith(prop + ": yes"): k = "caught at once by the property's own check"
        elif ca.startswith("NO at first"): k = "missed at first, caught after the tie was widened (or, for the newest ones, being widened)"
        elif (prop + ": NO at first") in ca: k = "caught at once by a sibling property's check, by the own check after widening"
        elif (prop + ": NO") in ca: k = "caught by a sibling property's check only"
        else: k = "other"
        c[k] += 1
    tot = sum(c.values())
    return "Tally of the %d kept changes: " % tot + "; ".join("%d %s" % (n, k) for k, n in c.most_common()) + "."

def seeded_table():
    rows = [seeded_tally(), "", "| id | change (what it needs to manifest) | caught by |", "|---|---|---|"]
    for d in sorted(glob.glob(os.path.join(V, "seeded", "*"))):
        m = json.load(open(os.path.join(d, "meta.json")))
        vr = m.get("verif_result", {})
        caught = vr.get("caught"); note = vr.get("note") or ""
        if caught is True or caught == "True": c = "yes" + (": " + note if note else "")
        else: c = str(caught) + ((" — " + note) if note and str(caught).startswith("NO") else "")
        summ = m.get("summary", ""); needs = m.get("needs", "")
        rows.append("| %s | %s **Needs:** %s | %s |" % (os.path.basename(d), esc(summ)[:330], esc(needs)[:260], esc(c)[:520]))
    return "\n".join(rows)
def findings():
    fs = [json.load(open(f)) for f in sorted(glob.glob(os.path.join(V, "known_findings.d", "*.json")))]
    out = ["**Repaired** (`fixed`; the check reports the violation again if it returns):", ""]
    for f in sorted(fs, key=lambda f: (f["property"], f["id"])):
        if f["status"] == "fixed":
            w = re.sub(r"^fixed: property=\S+ [0-9a-f, ]+", "", f["what"]).strip()
            out.append("* `%s` (%s, commit %s, %s): %s" % (f["id"], f["property"], f.get("commit", "?"), esc(f.get("site", ""))[:120], esc(w)[:420]))
    out += ["", "**Known, not repaired** (each printed as `KNOWN-FINDING:` by its check, matched by a specific signature):", ""]
    for f in sorted(fs, key=lambda f: (f["property"], f["id"])):
        if f["status"] == "known":
            out.append("* `%s` (%s, %s): %s" % (f["id"], f["property"], esc(f.get("site", ""))[:120], esc(f["what"])[:520]))
    return "\n".join(out)
p = os.path.join(V, "DESIGN.md"); s = open(p).read()
for tag, txt in (("SEEDED-TABLE", seeded_table()), ("FINDINGS-LIST", findings())):
    b, e = "<!-- %s-BEGIN -->" % tag, "<!-- %s-END -->" % tag
    if b in s and e in s:
        s = s[:s.index(b) + len(b)] + "\n" + txt + "\n" + s[s.index(e):]
    else:
        print("marker missing:", tag)
open(p, "w").write(s)
print("DESIGN.md tables regenerated")
