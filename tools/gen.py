"""gen.py -- seeded input generators (all randomness from one random.Random)."""
from fractions import Fraction as F
import itertools

SMALL = [F(1), F(-1), F(2), F(-2), F(3), F(1, 2), F(-1, 2), F(3, 2), F(-3, 4), F(5), F(-7, 3), F(1, 4)]

def rq(r, nz=False):
    k = r.random()
    if k < 0.08 and not nz: return F(0)
    if k < 0.7: return r.choice(SMALL)
    v = F(r.randint(-9, 9), r.choice([1, 1, 2, 3, 4, 8]))
    if nz and v == 0: v = F(1)
    return v

def rvec(r, n, nz=False): return [rq(r, nz) for _ in range(n)]

def coef(r):
    """coefficient classes {0, 1, -1, generic}"""
    k = r.random()
    if k < 0.3: return F(0)
    if k < 0.45: return F(1)
    if k < 0.55: return F(-1)
    return rq(r, nz=True)

def rcrs(r, n, m, density=None, sorted_rows=None, dups=False, empty_rows=True):
    """random CRS rows: list of list of (col, val)"""
    if density is None: density = r.choice([0.15, 0.3, 0.5, 0.8])
    if sorted_rows is None: sorted_rows = r.random() < 0.5
    rows = []
    for i in range(n):
        if m == 0: rows.append([]); continue
        if empty_rows and r.random() < 0.1: rows.append([]); continue
        cols = [j for j in range(m) if r.random() < density]
        if dups and cols and r.random() < 0.3: cols.append(r.choice(cols))
        if not sorted_rows: r.shuffle(cols)
        else: cols.sort()
        rows.append([(c, rq(r, nz=(r.random() < 0.9))) for c in cols])
    return rows

def spd_mmatrix(r, n, kind=None, extra_diag=None):
    """symmetric, weakly diagonally dominant M-matrix on a random connected graph / 1D / 2D grid;
    returns sorted rows. Strictly dominant in at least one row (nonsingular)."""
    kind = kind or r.choice(["path", "grid", "graph", "graph"])
    edges = {}
    def add(i, j, w):
        if i == j: return
        a, b = min(i, j), max(i, j)
        edges[(a, b)] = w
    if kind == "path":
        for i in range(n - 1): add(i, i + 1, F(r.choice([1, 1, 2, 3]), r.choice([1, 1, 2])))
    elif kind == "grid":
        nx = max(1, int(n ** 0.5)); 
        for i in range(n):
            if (i + 1) % nx != 0 and i + 1 < n: add(i, i + 1, F(r.choice([1, 1, 2]), 1))
            if i + nx < n: add(i, i + nx, F(r.choice([1, 1, 4]), r.choice([1, 1, 2])))
    else:
        for i in range(1, n): add(i, r.randrange(i), F(r.choice([1, 2, 3]), r.choice([1, 2])))
        for _ in range(r.randint(0, n)):
            add(r.randrange(n), r.randrange(n), F(r.choice([1, 1, 2]), r.choice([1, 2, 4])))
    diag = [F(0)] * n
    rows = [dict() for _ in range(n)]
    for (a, b), w in edges.items():
        rows[a][b] = -w; rows[b][a] = -w; diag[a] += w; diag[b] += w
    for i in range(n):
        ex = extra_diag if extra_diag is not None else (F(r.choice([0, 0, 1, 1, 2]), r.choice([1, 2])))
        if i == 0 and ex == 0: ex = F(1)
        rows[i][i] = diag[i] + ex
        if rows[i][i] == 0: rows[i][i] = F(1)
    return [sorted(rw.items()) for rw in rows]

def nonsym_dd(r, n, density=0.4):
    """structurally non-symmetric, strictly row diagonally dominant matrix (sorted rows)"""
    rows = []
    for i in range(n):
        rw = {}
        for j in range(n):
            if j != i and r.random() < density: rw[j] = rq(r, nz=True)
        rw[i] = sum(abs(v) for v in rw.values()) + F(r.choice([1, 2, 3]), r.choice([1, 2]))
        rows.append(sorted(rw.items()))
    return rows

def dense_of(n, m, rows):
    D = [[F(0)] * m for _ in range(n)]
    for i, rw in enumerate(rows):
        for c, v in rw: D[i][c] += v
    return D

def shuffle_rows(r, rows):
    out = []
    for rw in rows:
        rw = list(rw); r.shuffle(rw); out.append(rw)
    return out
