"""gen.py -- seeded input generators (all randomness from one random.Random)."""
from fractions import Fraction as F
import itertools

SMALL = [F(1), F(-1), F(2), F(-2), F(3), F(1, 2), F(-1, 2), F(3, 2), F(-3, 4), F(5), F(-7, 3), F(1, 4)]

def rq(r, nz=False):
    k = r.random()
    if k < 0.08 and not nz: return F(0)
    if k < 0.7: return r.choice(SMALL)
    v = F(r.randint(-9, 9), r.choice([1, 1, 2, 3, 4, 8]))
    if nz and v == 0: v = F(1)
    return v

def rvec(r, n, nz=False): return [rq(r, nz) for _ in range(n)]

def coef(r):
    """coefficient classes {0, 1, -1, generic}"""
    k = r.random()
    if k < 0.3: return F(0)
    if k < 0.45: return F(1)
    if k < 0.55: return F(-1)
    return rq(r, nz=True)

def rcrs(r, n, m, density=None, sorted_rows=None, dups=False, empty_rows=True):
    """random CRS rows: list of list of (col, val)"""
    if density is None: density = r.choice([0.15, 0.3, 0.5, 0.8])
    if sorted_rows is None: sorted_rows = r.random() < 0.5
    rows = []
    for i in range(n):
        if m == 0: rows.append([]); continue
        if empty_rows and r.random() < 0.1: rows.append([]); continue
        cols = [j for j in range(m) if r.random() < density]
        if dups and cols and r.random() < 0.3: cols.append(r.choice(cols))
        if not sorted_rows: r.shuffle(cols)
        else: cols.sort()
        rows.append([(c, rq(r, nz=(r.random() < 0.9))) for c in cols])
    return rows

def spd_mmatrix(r, n, kind=None, extra_diag=None):
    """symmetric, weakly diagonally dominant M-matrix on a random connected graph / 1D / 2D grid;
    returns sorted rows. Strictly dominant in at least one row (nonsingular)."""
    kind = kind or r.choice(["path", "grid", "graph", "graph"])
    edges = {}
    def add(i, j, w):
        if i == j: return
        a, b = min(i, j), max(i, j)
        edges[(a, b)] = w
    if kind == "path":
        for i in range(n - 1): add(i, i + 1, F(r.choice([1, 1, 2, 3]), r.choice([1, 1, 2])))
    elif kind == "grid":
        nx = max(1, int(n ** 0.5)); 
        for i in range(n):
            if (i + 1) % nx != 0 and i + 1 < n: add(i, i + 1, F(r.choice([1, 1, 2]), 1))
            if i + nx < n: add(i, i + nx, F(r.choice([1, 1, 4]), r.choice([1, 1, 2])))
    else:
        for i in range(1, n): add(i, r.randrange(i), F(r.choice([1, 2, 3]), r.choice([1, 2])))
        for _ in range(r.randint(0, n)):
            add(r.randrange(n), r.randrange(n), F(r.choice([1, 1, 2]), r.choice([1, 2, 4])))
    diag = [F(0)] * n
    rows = [dict() for _ in range(n)]
    for (a, b), w in edges.items():
        rows[a][b] = -w; rows[b][a] = -w; diag[a] += w; diag[b] += w
    for i in range(n):
        ex = extra_diag if extra_diag is not None else (F(r.choice([0, 0, 1, 1, 2]), r.choice([1, 2])))
        if i == 0 and ex == 0: ex = F(1)
        rows[i][i] = diag[i] + ex
        if rows[i][i] == 0: rows[i][i] = F(1)
    return [sorted(rw.items()) for rw in rows]

def nonsym_dd(r, n, density=0.4):
    """structurally non-symmetric, strictly row diagonally dominant matrix (sorted rows)"""
    rows = []
    for i in range(n):
        rw = {}
        for j in range(n):
            if j != i and r.random() < density: rw[j] = rq(r, nz=True)
        rw[i] = sum(abs(v) for v in rw.values()) + F(r.choice([1, 2, 3]), r.choice([1, 2]))
        rows.append(sorted(rw.items()))
    return rows

def dense_of(n, m, rows):
    D = [[F(0)] * m for _ in range(n)]
    for i, rw in enumerate(rows):
        for c, v in rw: D[i][c] += v
    return D

def shuffle_rows(r, rows):
    out = []
    for rw in rows:
        rw = list(rw); r.shuffle(rw); out.append(rw)
    return out

# ---------------------------------------------------------------- C08 (sparse matrix kernels)
def c08_pattern_rows(bits, n, m, vals, order="sorted"):
    """rows of the n x m pattern whose bit (i*m+j) of `bits` is set; values from the cyclic
    palette `vals` (offset by position); order: sorted | reversed"""
    rows = []
    for i in range(n):
        rw = [(j, vals[(i * m + j) % len(vals)]) for j in range(m) if (bits >> (i * m + j)) & 1]
        if order == "reversed": rw.reverse()
        rows.append(rw)
    return rows

def c08_sorted_distinct(rows):
    """sort rows by column and merge duplicate columns (values add)"""
    out = []
    for rw in rows:
        d = {}
        for c, v in rw: d[c] = d.get(c, F(0)) + v
        out.append(sorted(d.items()))
    return out

def c08_with_diag(r, rows, n, zero_ok=False):
    """make sure every row i < n has at least one (i, nonzero) entry; keeps storage order"""
    out = []
    for i, rw in enumerate(rows):
        rw = list(rw)
        if i < n and not any(c == i for c, _ in rw):
            rw.insert(r.randint(0, len(rw)), (i, rq(r, nz=True)))
        if not zero_ok:
            rw = [(c, (v if (c != i or v != 0) else F(1))) for c, v in rw]
        out.append(rw)
    return out

def c08_kron_identity(rows, b):
    """A (x) I_b for scalar rows (sorted rows stay sorted)"""
    out = []
    for rw in rows:
        for k in range(b):
            out.append([(c * b + k, v) for c, v in rw])
    return out

def c08_block_matrix(r, np_, mp_, b, density=0.4, fill=1.0, sorted_rows=True):
    """np_ x mp_ blocks of size b; each present block stores each of its b*b entries with
    probability `fill` (fill < 1: structurally incomplete blocks)"""
    rows = [[] for _ in range(np_ * b)]
    for I in range(np_):
        for J in range(mp_):
            if r.random() >= density: continue
            any_ = False
            for k in range(b):
                for l in range(b):
                    if r.random() < fill:
                        rows[I * b + k].append((J * b + l, rq(r, nz=(r.random() < 0.9)))); any_ = True
            if not any_:
                rows[I * b + r.randrange(b)].append((J * b + r.randrange(b), rq(r, nz=True)))
    for rw in rows:
        if sorted_rows: rw.sort(key=lambda e: e[0])
        else: r.shuffle(rw)
    return rows

# ---- C06 (relaxation) generators -------------------------------------------------
def tridiag(r, n, dominant=True):
    """tridiagonal matrix, sorted rows, non-zero diagonal (exact-ILU case: no fill-in)"""
    rows = []
    for i in range(n):
        rw = {}
        if i > 0: rw[i - 1] = rq(r, nz=True)
        if i + 1 < n: rw[i + 1] = rq(r, nz=True)
        off = sum(abs(v) for v in rw.values())
        rw[i] = (off + F(r.choice([1, 2, 3]), r.choice([1, 2]))) if dominant else rq(r, nz=True)
        rows.append(sorted(rw.items()))
    return rows

def arrow(r, n, dominant=True):
    """arrow matrix with dense LAST row and column (elimination creates no fill-in)"""
    rows = []
    for i in range(n):
        rw = {}
        if i < n - 1:
            if r.random() < 0.85: rw[n - 1] = rq(r, nz=True)
        else:
            for j in range(n - 1):
                if r.random() < 0.85: rw[j] = rq(r, nz=True)
        off = sum(abs(v) for v in rw.values())
        rw[i] = (off + F(r.choice([1, 2, 3]), r.choice([1, 2]))) if dominant else rq(r, nz=True)
        rows.append(sorted(rw.items()))
    return rows

def full_diag_pattern(r, n, density=0.35, dominant=True, sym_pattern=False):
    """random sparse matrix with a full non-zero diagonal, sorted rows; optionally not dominant"""
    pat = [set([i]) for i in range(n)]
    for i in range(n):
        for j in range(n):
            if i != j and r.random() < density:
                pat[i].add(j)
                if sym_pattern: pat[j].add(i)
    rows = []
    for i in range(n):
        rw = {j: rq(r, nz=True) for j in pat[i] if j != i}
        off = sum(abs(v) for v in rw.values())
        rw[i] = (off + F(r.choice([1, 2, 3]), r.choice([1, 2]))) if dominant else rq(r, nz=True)
        rows.append(sorted(rw.items()))
    return rows

def matvec(rows, x):
    return [sum((v * x[c] for c, v in rw), F(0)) for rw in rows]

def strict_tri(r, n, lower, density=0.4):
    """strictly lower / strictly upper triangular CRS rows (sorted)"""
    rows = []
    for i in range(n):
        cols = [j for j in (range(i) if lower else range(i + 1, n)) if r.random() < density]
        rows.append([(c, rq(r, nz=True)) for c in cols])
    return rows

# ---- C11/C12 (distributed layer) generators ----------------------------------------
DYADIC = [F(k, d) for k in range(-8, 9) for d in (1, 2, 4)]

def dyq(r, nz=False):
    """small dyadic rational: sums/products of a few of them are exact in binary64"""
    v = r.choice(DYADIC)
    return F(1) if (nz and v == 0) else v

def dyvec(r, n): return [dyq(r) for _ in range(n)]

def dycrs(r, n, m, density=None, dups=False, sorted_rows=None, empty_rows=True):
    """random CRS rows with dyadic values (some explicit zeros), optionally duplicate columns"""
    if density is None: density = r.choice([0.2, 0.4, 0.6, 0.9])
    if sorted_rows is None: sorted_rows = r.random() < 0.5
    rows = []
    for i in range(n):
        if m == 0 or (empty_rows and r.random() < 0.08): rows.append([]); continue
        cols = [j for j in range(m) if r.random() < density]
        if dups and cols and r.random() < 0.4: cols.append(r.choice(cols))
        if sorted_rows: cols.sort()
        else: r.shuffle(cols)
        rows.append([(c, dyq(r, nz=(r.random() < 0.9))) for c in cols])
    return rows

def compositions(n, k):
    """all lists of k non-negative integers with sum n (contiguous partitions incl. empty ranks)"""
    if k == 1:
        yield [n]; return
    for first in range(n + 1):
        for rest in compositions(n - first, k - 1):
            yield [first] + rest

def rcomposition(r, n, k, empty_bias=0.25):
    """random composition of n into k parts; with probability empty_bias per rank force it empty"""
    if k == 1: return [n]
    alive = [i for i in range(k) if r.random() >= empty_bias] or [r.randrange(k)]
    cuts = sorted(r.randint(0, n) for _ in range(len(alive) - 1))
    sizes = [b - a for a, b in zip([0] + cuts, cuts + [n])]
    out = [0] * k
    for i, s in zip(alive, sizes): out[i] = s
    return out

def dyadic_spd(r, n, kind=None):
    """SPD M-matrix with dyadic entries (weights from {1, 2, 1/2, 4}), sorted rows, strictly
    dominant in row 0"""
    kind = kind or r.choice(["path", "grid", "graph"])
    W = [F(1), F(1), F(2), F(1, 2), F(4)]
    edges = {}
    def add(i, j, w):
        if i != j: edges[(min(i, j), max(i, j))] = w
    if kind == "path":
        for i in range(n - 1): add(i, i + 1, r.choice(W))
    elif kind == "grid":
        nx = max(1, int(n ** 0.5))
        for i in range(n):
            if (i + 1) % nx != 0 and i + 1 < n: add(i, i + 1, r.choice(W))
            if i + nx < n: add(i, i + nx, r.choice(W))
    else:
        for i in range(1, n): add(i, r.randrange(i), r.choice(W))
        for _ in range(r.randint(0, n)): add(r.randrange(n), r.randrange(n), r.choice(W))
    rows = [dict() for _ in range(n)]
    diag = [F(0)] * n
    for (a, b), w in edges.items():
        rows[a][b] = -w; rows[b][a] = -w; diag[a] += w; diag[b] += w
    for i in range(n):
        ex = r.choice([F(0), F(0), F(1, 2), F(1)])
        if i == 0 and ex == 0: ex = F(1)
        rows[i][i] = diag[i] + ex
        if rows[i][i] == 0: rows[i][i] = F(1)
    return [sorted(rw.items()) for rw in rows]

# ---------------------------------------------------------------- C04 (coarsening) generators
import struct as _struct

def _f32_bits(x):  return _struct.unpack("<I", _struct.pack("<f", x))[0]
def _bits_f32(b):  return _struct.unpack("<f", _struct.pack("<I", b & 0xffffffff))[0]

def f32(x):
    """exact Fraction of the binary32 value nearest to the rational x (ties to even)"""
    x = F(x)
    if x == 0: return F(0)
    c = _struct.unpack("<f", _struct.pack("<f", float(x)))[0]
    b = _f32_bits(c)
    cands = [F(_bits_f32(bb)) for bb in (b - 1, b, b + 1) if _bits_f32(bb) == _bits_f32(bb)]
    best = min(cands, key=lambda v: (abs(v - x), _f32_bits(float(v)) & 1))
    return best

def f32_mul(a, b): return f32(F(a) * F(b))
def f32_div(a, b): return f32(F(a) / F(b))
def f64(x):
    """exact Fraction of the binary64 value nearest to x (python float conversion is correctly rounded)"""
    return F(float(F(x)))

def digraph_matrices(n, palette, diag):
    """all n x n matrices whose off-diagonal entries range over {absent} + palette;
    diag(i, offdiag_row_dict) -> value or None (no stored diagonal). Sorted rows."""
    pos = [(i, j) for i in range(n) for j in range(n) if i != j]
    for choice in itertools.product([None] + list(palette), repeat=len(pos)):
        rows = [dict() for _ in range(n)]
        for (i, j), v in zip(pos, choice):
            if v is not None: rows[i][j] = v
        out = []
        for i in range(n):
            d = diag(i, rows[i])
            rw = dict(rows[i])
            if d is not None: rw[i] = d
            out.append(sorted(rw.items()))
        yield out

def digraph_patterns(n):
    """all directed graphs on n nodes as lists of successor lists"""
    pos = [(i, j) for i in range(n) for j in range(n) if i != j]
    for mask in range(1 << len(pos)):
        adj = [[] for _ in range(n)]
        for k, (i, j) in enumerate(pos):
            if mask >> k & 1: adj[i].append(j)
        yield adj

def kron_id(rows, b):
    """A (x) I_b : row i*b+k has entries (j*b+k, v)"""
    out = []
    for rw in rows:
        for k in range(b):
            out.append([(c * b + k, v) for c, v in rw])
    return out

def block_matrix(r, np_, b, density=0.4, full=0.5):
    """block matrix with (possibly structurally incomplete) b x b blocks, sorted rows, diagonal present"""
    rows = [dict() for _ in range(np_ * b)]
    for I in range(np_):
        for J in range(np_):
            if I != J and r.random() >= density: continue
            for k in range(b):
                for l in range(b):
                    if I == J and k == l:
                        rows[I * b + k][J * b + l] = F(r.choice([2, 3, 4, 5]))
                    elif r.random() < full:
                        rows[I * b + k][J * b + l] = rq(r, nz=True)
    return [sorted(rw.items()) for rw in rows]

def sym_zero_rowsum(r, n, positive=0.0, weights=None, extra=0.2):
    """symmetric matrix with zero row sums (graph Laplacian, optionally some positive off-diagonals;
    weights of very different size exercise the Ruge-Stuben truncation)"""
    rows = [dict() for _ in range(n)]
    for i in range(1, n):
        for j in ([r.randrange(i)] + [k for k in range(i) if r.random() < extra]):
            w = r.choice(weights) if weights else F(r.choice([1, 1, 2, 3, 4]), r.choice([1, 1, 2, 4]))
            if r.random() < positive: w = -w / 4
            rows[i][j] = -w; rows[j][i] = -w
    for i in range(n):
        rows[i][i] = -sum(rows[i].values())
        if rows[i][i] == 0: rows[i][i] = F(0)
    return [sorted(rw.items()) for rw in rows]


def spd_block(r, b, nb, incomplete=True, kron=False):
    """symmetric, strictly diagonally dominant (hence SPD) matrix with b x b block structure on a
    random connected graph of nb nodes; off-diagonal blocks are structurally incomplete when
    `incomplete` (entries omitted, symmetric pattern); kron: A (x) I_b style (scaled identities).
    Returns sorted rows of the (nb*b) x (nb*b) scalar matrix."""
    n = nb * b
    rows = [dict() for _ in range(n)]
    edges = set()
    for I in range(1, nb): edges.add((r.randrange(I), I))
    for _ in range(r.randint(0, nb)):
        I, J = r.randrange(nb), r.randrange(nb)
        if I != J: edges.add((min(I, J), max(I, J)))
    for (I, J) in sorted(edges):
        for i in range(b):
            for j in range(b):
                if kron and i != j: continue
                if not kron and incomplete and r.random() < 0.45: continue
                w = -F(r.choice([1, 1, 2, 3]), r.choice([1, 2, 4])) if r.random() < 0.8 else F(1, r.choice([2, 4]))
                rows[I * b + i][J * b + j] = w
                rows[J * b + j][I * b + i] = w
    for I in range(nb):   # diagonal block: symmetric coupling between the unknowns of a node
        for i in range(b):
            for j in range(i + 1, b):
                if kron: continue
                if incomplete and r.random() < 0.4: continue
                w = F(r.choice([-1, 1, -2]), r.choice([1, 2, 4]))
                rows[I * b + i][I * b + j] = w; rows[I * b + j][I * b + i] = w
    for i in range(n):
        rows[i][i] = sum(abs(v) for c, v in rows[i].items() if c != i) + F(r.choice([1, 2, 3]), r.choice([1, 2]))
    return [sorted(rw.items()) for rw in rows]

def convdiff(r, n, peclet=None, two_d=None):
    """non-symmetric convection-diffusion stencil (upwind-free central differences), 1D or 2D grid of n points;
    needs many restarts with short-recurrence restarted Krylov methods.  Sorted rows, exact dyadic entries."""
    if peclet is None: peclet = F(r.choice([1, 2, 3, 5, 7]), 8)
    if two_d is None: two_d = r.random() < 0.5
    rows = []
    if not two_d:
        for i in range(n):
            rw = {i: F(2) + F(r.choice([0, 0, 1]), 16)}
            if i > 0: rw[i - 1] = -1 - peclet
            if i + 1 < n: rw[i + 1] = -1 + peclet
            rows.append(sorted(rw.items()))
    else:
        nx = max(2, int(n ** 0.5))
        for i in range(n):
            rw = {i: F(4) + F(r.choice([0, 0, 1]), 16)}
            if i % nx != 0: rw[i - 1] = -1 - peclet
            if (i + 1) % nx != 0 and i + 1 < n: rw[i + 1] = -1 + peclet
            if i - nx >= 0: rw[i - nx] = -1 - peclet / 2
            if i + nx < n: rw[i + nx] = -1 + peclet / 2
            rows.append(sorted(rw.items()))
    return rows
