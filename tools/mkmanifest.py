#!/usr/bin/env python3
"""mkmanifest.py -- regenerate MANIFEST.json from tools/props/*.py (claimed properties) and
tools/manifest_meta.json (level texts, not_applicable reasons)."""
import json, os, glob
V = os.path.dirname(os.path.dirname(os.path.abspath(__file__)))
meta = json.load(open(os.path.join(V, "tools", "manifest_meta.json")))
props = [json.loads(l)["id"] for l in open(os.path.join(V, "properties.jsonl"))]
for mf in glob.glob(os.path.join(V, "tools", "props", "C*.meta.json")):
    meta["checks"][os.path.basename(mf).split(".")[0]] = json.load(open(mf))
claimed = sorted(os.path.basename(p)[:-3] for p in glob.glob(os.path.join(V, "tools", "props", "C*.py")))
claimed = [c for c in claimed if c in meta["checks"] and os.path.exists(os.path.join(V, "coq", "Properties_%s.v" % c))]
checks = []
for c in claimed:
    m = meta["checks"][c]
    checks.append(dict(property_id=c, quick_cmd="bin/check %s --tier quick" % c, thorough_cmd="bin/check %s --tier thorough" % c,
                       evidence_file="evidence/%s.json" % c, replay_cmd_template="bin/check %s --replay {path}" % c,
                       engine="coq-proof+correspondence",
                       level_claimed=dict(category="proof", text=m["text"], design_ref=m.get("design_ref", "DESIGN.md section 5 " + c)),
                       level_note=m["note"], technique=m.get("technique", "Coq 8.16 theorems about a Gallina model + exact-arithmetic correspondence check against the C++ templates")))
na = [dict(property_id=p, reason=meta["not_applicable"].get(p, "no check built yet for this property (work in progress; see DESIGN.md section 9)")) for p in props if p not in claimed]
man = dict(version=1,
           setup_cmd="sh bin/setup",
           hooks=meta["hooks"],
           engines=[dict(name="coq-proof+correspondence", path="bin/check", serves_properties=claimed,
                         kind_free_text="Coq 8.16.1 development in coq/ (model + theorems), extracted to OCaml and compared in exact rational arithmetic with the amgcl templates instantiated at a bignum rational type (harness/), orchestrated by tools/vcheck.py")],
           checks=checks, notes=meta.get("notes", ""), not_applicable=na)
json.dump(man, open(os.path.join(V, "MANIFEST.json"), "w"), indent=1)
print("claimed:", claimed)
