#!/usr/bin/env python3
"""gen_params.py -- translator for C14: reads the amgcl headers of the CURRENT tree and
emits coq/ParamsGen.v (finite tables the decision theorem C14-A2 computes on).

What is read (nothing is executed, nothing is preprocessed: every #if branch is kept, so
optional enumerators such as pastix/parmetis are checked as well):

  * every `struct params` / `struct <x>_params` below <repo>/amgcl:
      - declared data members (name, type text, kind value/child, scalar or not),
      - the property-tree constructor: AMGCL_PARAMS_IMPORT_VALUE/CHILD list in order,
        manual imports of the form `name(p.get("name", ...))`, base-class constructor
        calls, ad-hoc keys read with p.get/p.count/p.get_child, check_params name sets,
      - get(): AMGCL_PARAMS_EXPORT_VALUE/CHILD list in order, base-class get() calls,
        ad-hoc p.put(path + "key", ...),
      - inheritance between params structs (base's lists are prepended when the derived
        constructor / get() calls the base's; the derived names are legal in the base's
        check_params set because the base constructor sees the same tree);
  * every enum with a stream operator>> (the run-time `type`/`class` enums and
    preconditioner::side): enumerators, operator<< table, operator>> table, whether the
    final else throws; every `switch` whose case labels are enumerators of that enum
    (macro-generated cases are expanded first), with the component class each case names.

    python3 tools/gen_params.py [--repo DIR] [--out coq/ParamsGen.v] [--json FILE]
"""
import json, os, re, sys

# --------------------------------------------------------------------------- lexical helpers
def strip_comments(src):
    """Remove // and /* */ comments, keep string literals and every newline."""
    out = []; i = 0; n = len(src)
    while i < n:
        c = src[i]
        if c == '"' or c == "'":
            q = c; j = i + 1
            while j < n and src[j] != q:
                if src[j] == "\\": j += 1
                j += 1
            out.append(src[i:j + 1]); i = j + 1
        elif src.startswith("//", i):
            j = src.find("\n", i); j = n if j < 0 else j
            # a line comment ending in backslash continues: not used in amgcl
            i = j
        elif src.startswith("/*", i):
            j = src.find("*/", i + 2); j = n - 2 if j < 0 else j
            out.append("".join(ch if ch == "\n" else " " for ch in src[i:j + 2])); i = j + 2
        else:
            out.append(c); i += 1
    return "".join(out)


def expand_macros(src):
    """Expand the single-argument function-like macros a header defines for itself
    (#define NAME(arg) body ... #undef NAME), as used to generate switch cases.  All other
    preprocessor lines are blanked (both branches of every #if are kept).  Line structure
    is preserved (expansions are put on the invocation line)."""
    lines = src.split("\n")
    out = []; macros = {}
    i = 0
    while i < len(lines):
        l = lines[i]
        if re.match(r"\s*#", l):
            full = l; k = i
            while full.rstrip().endswith("\\") and k + 1 < len(lines):
                k += 1; full = full.rstrip()[:-1] + " " + lines[k]
            m = re.match(r"\s*#\s*define\s+(\w+)\((\w+)\)\s*(.*)$", full, flags=re.S)
            if m and re.search(r"\bcase\b", m.group(3)):      # only the macros that generate switch cases
                macros[m.group(1)] = (m.group(2), m.group(3))
            m = re.match(r"\s*#\s*undef\s+(\w+)", full)
            if m: macros.pop(m.group(1), None)
            out += [""] * (k - i + 1); i = k + 1
            continue
        if macros:
            for name, (arg, body) in macros.items():
                def rep(mm, arg=arg, body=body):
                    return re.sub(r"\b%s\b" % re.escape(arg), mm.group(1).strip(), body)
                l = re.sub(r"\b%s\s*\(\s*([^()]*?)\s*\)" % re.escape(name), rep, l)
        out.append(l); i += 1
    return "\n".join(out)


def match_brace(s, i, open_="{", close="}"):
    """s[i] == open_; return index of the matching close (string literals skipped)."""
    depth = 0; n = len(s)
    while i < n:
        c = s[i]
        if c == '"' or c == "'":
            q = c; i += 1
            while i < n and s[i] != q:
                if s[i] == "\\": i += 1
                i += 1
        elif c == open_: depth += 1
        elif c == close:
            depth -= 1
            if depth == 0: return i
        i += 1
    raise ValueError("unbalanced")


def scopes_at(src, pos):
    """Headers of the brace scopes enclosing position pos (outermost first)."""
    stack = []; i = 0; last = 0
    while i < pos:
        c = src[i]
        if c == '"' or c == "'":
            q = c; i += 1
            while i < pos and src[i] != q:
                if src[i] == "\\": i += 1
                i += 1
        elif c == "{":
            stack.append(src[last:i]); last = i + 1
        elif c == "}":
            if stack: stack.pop()
            last = i + 1
        elif c == ";":
            last = i + 1
        i += 1
    return stack


def strip_template_prefix(h):
    h = h.strip()
    while h.startswith("template"):
        i = h.find("<")
        if i < 0: break
        depth = 0; j = i
        while j < len(h):
            if h[j] == "<": depth += 1
            elif h[j] == ">":
                depth -= 1
                if depth == 0: break
            j += 1
        h = h[j + 1:].strip()
    return h


def scope_name(h):
    h = strip_template_prefix(" ".join(h.split()))
    h = re.sub(r"^(public|private|protected)\s*:\s*", "", h)
    m = re.match(r"(?:inline\s+)?(struct|class|namespace)\s+(\w+)", h)
    if m: return m.group(1), m.group(2)
    if "(" in h:
        if re.match(r"(switch|if|for|while|else|do|catch)\b", h): return "stmt", ""
        hh = h[:h.index("(")]
        if re.search(r"operator\s*$", hh): return "fn", "operator()"
        m = re.search(r"(operator\s*(?:<<|>>|[^\s\w]+)|~?\w+)\s*$", hh)
        return "fn", (m.group(1).replace(" ", "") if m else "?")
    return "other", ""


def lineno(src, pos): return src.count("\n", 0, pos) + 1


def split_top(s, sep=","):
    out = []; depth = 0; cur = ""
    for c in s:
        if c in "<([{": depth += 1
        elif c in ">)]}": depth -= 1
        if c == sep and depth == 0: out.append(cur); cur = ""
        else: cur += c
    out.append(cur)
    return out


# --------------------------------------------------------------------------- params structs
STRUCT_RE = re.compile(r"\bstruct\s+(\w*params)\b\s*(?::\s*([^{;]+?))?\s*\{")
PTREE = r"(?:const\s+)?boost::property_tree::ptree\s*(?:const\s*)?&\s*"

def members(body):
    """Split a struct body into members: ('stmt', text, off) for `...;`,
    ('fn', header, fnbody, off) for definitions with a brace body."""
    out = []; i = 0; n = len(body); start = 0; par = 0
    while i < n:
        c = body[i]
        if c == '"' or c == "'":
            q = c; i += 1
            while i < n and body[i] != q:
                if body[i] == "\\": i += 1
                i += 1
        elif c == "(": par += 1
        elif c == ")": par -= 1
        elif c == ";" and par == 0:
            t = body[start:i].strip()
            if t: out.append(("stmt", t, start))
            start = i + 1
        elif c == "{" and par == 0:
            j = match_brace(body, i)
            head = body[start:i]
            if re.match(r"\s*(template\s*<[^{]*>\s*)?(struct|class|enum|union)\b", head) and "(" not in head:
                # nested type (possibly followed by a declarator); skip to ';'
                k = body.find(";", j); k = j if k < 0 else k
                out.append(("type", head.strip(), body[i + 1:j], start))
                i = k; start = k + 1
            else:
                out.append(("fn", head.strip(), body[i + 1:j], start))
                i = j; start = j + 1
        i += 1
    return out


def drop_angles(t):
    out = ""; depth = 0
    for c in t:
        if c == "<": depth += 1
        elif c == ">": depth -= 1
        elif depth == 0: out += c
    return out


def classify_type(ty):
    t = " ".join(ty.split())
    child = bool(re.search(r"\w*params\b", t)) or "ptree" in t
    nonscalar = ("*" in t) or bool(re.search(r"\b(vector|shared_ptr|array|function)\b", t))
    if child: cls = "child"
    elif nonscalar: cls = "nonscalar"
    elif re.search(r"\bbool\b", t): cls = "bool"
    elif re.search(r"\b(float|double|scalar_type|real)\b", t) or "scalar_of" in t: cls = "real"
    elif re.search(r"\b(int|unsigned|size_t|ptrdiff_t|long|short|char)\b", t): cls = "int"
    elif re.search(r"\bstring\b", t): cls = "string"
    elif re.search(r"::type\b", t): cls = "enum"
    else: cls = "other"
    return child, nonscalar, cls


def parse_structs(rel, src):
    res = []
    for m in STRUCT_RE.finditer(src):
        name = m.group(1)
        bases = [re.sub(r"\b(public|private|protected|typename|virtual)\b", "", b).strip() for b in split_top(m.group(2) or "")]
        bases = [" ".join(b.split()).replace(" ", "") for b in bases if b.strip()]
        ob = m.end() - 1
        cb = match_brace(src, ob)
        body = src[ob + 1:cb]
        sc = [scope_name(h) for h in scopes_at(src, m.start())]
        encl = [n for k, n in sc if k in ("struct", "class")]
        owner = encl[-1] if encl else ""
        d = dict(file=rel, line=lineno(src, m.start()), struct=name, owner=owner, bases=bases,
                 fields=[], imports=[], exports=[], adhoc_in=[], adhoc_out=[], checked=[], checked_opt=[],
                 has_ctor=False, has_get=False, has_check=False, base_ctor=[], base_get=[], typedefs={}, shadowed=[],
                 has_default_ctor=False, default_inits=[])
        for mem in members(body):
            if mem[0] == "stmt":
                t = " ".join(mem[1].split())
                tm = re.match(r"typedef\s+(.*?)\s*(\w+)$", t)
                if tm: d["typedefs"][tm.group(2)] = tm.group(1); continue
                t = re.sub(r"^(public|private|protected)\s*:\s*", "", t)
                if re.match(r"(using|friend|static|template|enum|struct|class)\b", t): continue
                if "(" in drop_angles(t): continue          # member function declaration
                inclass_init = "=" in drop_angles(t) or bool(re.search(r"\w\s*\{[^}]*\}\s*$", t))
                t = re.sub(r"\s*=.*$", "", t)
                decls = split_top(t)
                fm = re.match(r"(.*?)([\*&\s]*)(\w+)\s*(\[[^\]]*\])?$", decls[0].strip())
                if not fm: continue
                base_ty = fm.group(1).strip()
                if not base_ty: continue
                names = [(fm.group(2).strip(), fm.group(3), fm.group(4) or "")]
                for extra in decls[1:]:
                    em = re.match(r"([\*&\s]*)(\w+)\s*(\[[^\]]*\])?$", extra.strip())
                    if em: names.append((em.group(1).strip(), em.group(2), em.group(3) or ""))
                for ptr, fname, arr in names:
                    ty = (base_ty + " " + ptr).strip() + arr
                    ty_res = d["typedefs"].get(base_ty, base_ty)
                    child, nonscalar, cls = classify_type(ty + " " + ty_res)
                    d["fields"].append(dict(name=fname, type=ty, kind="child" if child else "value", inclass_init=inclass_init,
                                            scalar=not nonscalar, cls=cls, line=d["line"] + body.count("\n", 0, mem[2])))
            elif mem[0] == "fn":
                head, fb = mem[1], mem[2]
                hflat = " ".join(head.split())
                cm = re.match(r"(?:explicit\s+)?%s\s*\(\s*%s(\w*)\s*\)\s*(?::(.*))?$" % (re.escape(name), PTREE), hflat, flags=re.S)
                gm = re.match(r"void\s+get\s*\(\s*boost::property_tree::ptree\s*&\s*(\w*)\s*,", hflat)
                dm = None
                if not cm:
                    dm = re.match(r"(?:explicit\s+)?%s\s*\(([^()]*)\)\s*(?::(.*))?$" % re.escape(name), hflat, flags=re.S)
                    # a default constructor: no parameters, or every parameter has a default argument
                    if dm and not all("=" in a for a in split_top(dm.group(1)) if a.strip()): dm = None
                if dm:
                    d["has_default_ctor"] = True
                    for part in split_top(dm.group(2) or ""):
                        im = re.match(r"\s*(\w+)\s*[\(\{]", part)
                        if im: d["default_inits"].append(im.group(1))
                if cm:
                    d["has_ctor"] = True
                    p = cm.group(1) or "__unnamed__"; init = cm.group(2) or ""
                    if re.search(r"for\s*\([^)]*:\s*%s\s*\)[^;]*AMGCL_PARAM_UNKNOWN" % p, " ".join(fb.split())):
                        d["has_check"] = True      # every key goes to the unknown hook (empty checked set)
                    d["ctor_line"] = d["line"] + body.count("\n", 0, mem[3])
                    for part in split_top(init):
                        part = part.strip()
                        im = re.match(r"AMGCL_PARAMS_IMPORT_(VALUE|CHILD)\s*\(\s*%s\s*,\s*(\w+)\s*\)$" % p, part)
                        if im: d["imports"].append((im.group(2), im.group(1).lower(), "macro")); continue
                        mm = re.match(r"(\w+)\s*\(\s*%s\.get\s*\(\s*\"(\w+)\"" % p, part)
                        if mm and mm.group(1) == mm.group(2):
                            d["imports"].append((mm.group(1), "value", "manual")); continue
                        mm = re.match(r"(\w+)\s*\(\s*%s\.get_child\s*\(\s*\"(\w+)\"" % p, part)
                        if mm and mm.group(1) == mm.group(2):
                            d["imports"].append((mm.group(1), "child", "manual")); continue
                        bm = re.match(r"([\w:<> ,]+?)\s*\(\s*%s\s*\)$" % p, part)
                        if bm: d["base_ctor"].append(bm.group(1).replace(" ", "")); continue
                        if part: d.setdefault("init_other", []).append(part)
                    # imports written as statements in the body
                    for im in re.finditer(r"AMGCL_PARAMS_IMPORT_(VALUE|CHILD)\s*\(\s*%s\s*,\s*(\w+)\s*\)" % p, fb):
                        d["imports"].append((im.group(2), im.group(1).lower(), "macro"))
                    for am in re.finditer(r"\b%s\s*\.\s*(get|count|get_child|get_optional|find|get_value)\s*(?:<[^>(]*>)?\s*\(\s*\"([^\"]+)\"" % p, fb):
                        if am.group(2) not in d["adhoc_in"]: d["adhoc_in"].append(am.group(2))
                    for km in re.finditer(r"check_params\s*\(\s*%s\s*,\s*\{([^}]*)\}\s*(?:,\s*\{([^}]*)\})?\s*\)" % p, fb):
                        d["has_check"] = True
                        d["checked"] += re.findall(r"\"([^\"]*)\"", km.group(1))
                        d["checked_opt"] += re.findall(r"\"([^\"]*)\"", km.group(2) or "")
                elif gm:
                    d["has_get"] = True
                    d["get_line"] = d["line"] + body.count("\n", 0, mem[3])
                    for em in re.finditer(r"AMGCL_PARAMS_EXPORT_(VALUE|CHILD)\s*\(\s*(\w+)\s*,\s*(\w+)\s*,\s*(\w+)\s*\)", fb):
                        d["exports"].append((em.group(4), em.group(1).lower(), "macro"))
                        # the macro expands to  p.put(path + "name", name): a member called like the
                        # tree (or path) argument is hidden by it
                        if em.group(4) in (em.group(2), em.group(3)): d["shadowed"].append(em.group(4))
                    for bm in re.finditer(r"([\w:]+)::get\s*\(", fb):
                        d["base_get"].append(bm.group(1))
                    for am in re.finditer(r"\.\s*(put|add_child|put_child|add)\s*\(\s*(?:std::string\s*\(\s*)?\w+\s*\)?\s*\+\s*\"([^\"]+)\"\s*,\s*([^;]*?)\)\s*;", fb):
                        if am.group(1) == "put" and am.group(3).strip() == am.group(2):
                            d["exports"].append((am.group(2), "value", "manual"))
                        else:
                            d["adhoc_out"].append(am.group(2))
        res.append(d)
    return res


# --------------------------------------------------------------------------- enums / wrappers
def parse_enums(rel, src):
    """Enums that have a stream operator>> in the same namespace scope of the same file."""
    res = []
    for em in re.finditer(r"\benum\s+(\w+)\s*\{([^}]*)\}", src):
        ens = [re.sub(r"=.*", "", e).strip() for e in em.group(2).split(",")]
        ens = [e for e in ens if e]
        ns = [n for k, n in [scope_name(h) for h in scopes_at(src, em.start())] if k == "namespace"]
        res.append(dict(file=rel, line=lineno(src, em.start()), enum=em.group(1), ns=ns, enumerators=ens,
                        out=[], inp=[], in_else_throws=False, has_out=False, has_in=False, switches=[], pos=em.start()))
    return res


def parse_switches(rel, src):
    out = []
    for sm in re.finditer(r"\bswitch\s*\(([^)]*)\)\s*\{", src):
        ob = sm.end() - 1; cb = match_brace(src, ob); body = src[ob + 1:cb]
        sc = [scope_name(h) for h in scopes_at(src, sm.start())]
        fns = [n for k, n in sc if k == "fn"]
        ns = [n for k, n in sc if k == "namespace"]
        # split into case blocks at depth 0
        labels = []
        depth = 0; i = 0; n = len(body)
        while i < n:
            c = body[i]
            if c == '"' or c == "'":
                q = c; i += 1
                while i < n and body[i] != q:
                    if body[i] == "\\": i += 1
                    i += 1
            elif c in "{(": depth += 1
            elif c in "})": depth -= 1
            elif depth == 0:
                lm = re.compile(r"\b(case\s+([\w:]+)\s*:(?!:)|default\s*:)").match(body, i)
                if lm and (i == 0 or not (body[i - 1].isalnum() or body[i - 1] == "_")):
                    labels.append((i, lm.end(), lm.group(2)))
                    i = lm.end() - 1
            i += 1
        cases = []; default_txt = None
        for k, (a, b, lab) in enumerate(labels):
            end = labels[k + 1][0] if k + 1 < len(labels) else n
            txt = body[b:end]
            if lab is None: default_txt = txt
            else: cases.append((lab, txt))
        out.append(dict(file=rel, line=lineno(src, sm.start()), fn=(fns[-1] if fns else "?"), ns=ns, cases=cases,
                        default=default_txt, expr=sm.group(1).strip(), pos=sm.start()))
    return out


def case_classes(txt):
    t = " ".join(txt.split())
    tds = re.findall(r"typedef\s+(.*?)\s+\w+\s*;", t)
    if tds: return [re.sub(r"\s+", "", x) for x in tds]
    toks = []
    for m in re.finditer(r"\bamgcl::[\w:]*\w", t):
        if m.group(0) not in toks: toks.append(m.group(0))
    return toks


def attach(enums, rel, src):
    """operator<< / operator>> tables of the enums of this file."""
    for fm in re.finditer(r"operator\s*(<<|>>)\s*\(\s*std::(o|i)stream\s*&\s*(\w+)\s*,\s*(?:const\s+)?([\w:]+)\s*&?\s*(\w+)\s*\)\s*\{", src):
        ob = fm.end() - 1; cb = match_brace(src, ob); body = src[ob + 1:cb]
        tyname = fm.group(4).split("::")[-1]
        ns = [n for k, n in [scope_name(h) for h in scopes_at(src, fm.start())] if k == "namespace"]
        cand = [e for e in enums if e["file"] == rel and e["enum"] == tyname and e["ns"] == ns]
        if not cand: continue
        e = cand[0]
        if fm.group(1) == "<<":
            e["has_out"] = True
            for cm in re.finditer(r"case\s+([\w:]+)\s*:\s*return\s+\w+\s*<<\s*\"([^\"]*)\"", body):
                e["out"].append((cm.group(1).split("::")[-1], cm.group(2)))
        else:
            e["has_in"] = True
            for cm in re.finditer(r"==\s*\"([^\"]*)\"\s*\)\s*\{?\s*(\w+)\s*=\s*([\w:]+)\s*;", body):
                e["inp"].append((cm.group(1), cm.group(3).split("::")[-1]))
            tail = body[body.rfind("else"):] if "else" in body else ""
            e["in_else_throws"] = bool(re.match(r"else\s*\{?\s*throw\b", tail))
            e["in_span"] = (lineno(src, fm.start()), lineno(src, cb))


# --------------------------------------------------------------------------- driver
def parse(repo):
    root = os.path.join(repo, "amgcl")
    structs = []; enums = []; switches = []
    for d, _, fs in sorted(os.walk(root)):
        for f in sorted(fs):
            if not f.endswith(".hpp"): continue
            path = os.path.join(d, f); rel = os.path.relpath(path, repo)
            raw = open(path, encoding="utf-8", errors="replace").read()
            if "params" not in raw and "enum" not in raw: continue
            src = expand_macros(strip_comments(raw))
            if re.search(r"\bstruct\s+\w*params\b", src):
                structs += parse_structs(rel, src)
            if re.search(r"\benum\s+\w+\s*\{", src) and "operator>>" in src:
                es = parse_enums(rel, src); attach(es, rel, src); enums += [e for e in es if e["has_in"]]
            if "switch" in src and ("runtime" in rel or re.search(r"namespace\s+runtime\b", src)):
                switches += parse_switches(rel, src)
    # ---- struct ids, inheritance
    seen = {}
    for s in structs:
        base = "%s:%s%s" % (s["file"][len("amgcl/"):], (s["owner"] + "::") if s["owner"] else "", s["struct"])
        seen[base] = seen.get(base, 0) + 1
        s["id"] = base if seen[base] == 1 else "%s#%d" % (base, seen[base])
    by_owner = {}
    for s in structs: by_owner.setdefault((s["owner"], s["struct"]), []).append(s)
    def resolve_base(s, bname, raw_by_file):
        parts = bname.split("::")
        if len(parts) < 2:
            c = by_owner.get(("", parts[0]))
            return c[0] if c else None
        owner, st = parts[-2], parts[-1]
        owner = re.sub(r"<.*", "", owner)
        def pick(c):
            # same file, then <dir>/<owner>.hpp next to the derived struct, then the first one
            for t in c:
                if t["file"] == s["file"]: return t
            for t in c:
                if t["file"] == os.path.join(os.path.dirname(s["file"]), owner + ".hpp"): return t
            return c[0]
        c = by_owner.get((owner, st))
        if c: return pick(c)
        # owner is a typedef in the enclosing class: typedef X<...> Owner;
        m = re.search(r"typedef\s+(?:typename\s+)?(?:[\w:]*::)?(\w+)\s*<[^;]*>\s+%s\s*;" % re.escape(owner), raw_by_file[s["file"]])
        if m:
            owner = m.group(1)
            c = by_owner.get((owner, st))
            if c: return pick(c)
        return None
    raw_by_file = {}
    for s in structs:
        if s["file"] not in raw_by_file:
            raw_by_file[s["file"]] = strip_comments(open(os.path.join(repo, s["file"]), encoding="utf-8", errors="replace").read())
    for s in structs:
        s["base_ids"] = []; s["unresolved_bases"] = []
        for b in s["bases"]:
            t = resolve_base(s, b, raw_by_file)
            if t is None: s["unresolved_bases"].append(b)
            else: s["base_ids"].append(t["id"])
    byid = {s["id"]: s for s in structs}
    for s in structs: s["derived_names"] = []
    def eff(s, what, flag, depth=0):
        """effective list: base's (when the base ctor / base get is called) ++ own"""
        out = []
        if s[flag] and depth < 8:
            for b in s["base_ids"]: out += eff(byid[b], what, flag, depth + 1)
        return out + [(n, k) for n, k, _ in s[what]]
    def chain(s, depth=0):
        out = []
        if s["base_ctor"] and depth < 8:
            for b in s["base_ids"]: out += chain(byid[b], depth + 1)
        return out + ([s["checked"] + s["checked_opt"]] if s["has_check"] else [])
    for s in structs:
        # scalar value members (and raw pointers) that the default constructor does not initialise: the
        # "default" used by AMGCL_PARAMS_IMPORT_VALUE (params().name) is then an indeterminate value
        s["uninit"] = []
        if s["has_ctor"]:
            for f in s["fields"]:
                builtin = f["cls"] in ("int", "real", "bool", "enum") or (f["cls"] == "nonscalar" and "*" in f["type"])
                if f["kind"] == "value" and builtin and not f["inclass_init"] and f["name"] not in s["default_inits"]:
                    s["uninit"].append(f["name"])
    for s in structs:
        s["check_chain"] = chain(s)
        s["eff_imports"] = eff(s, "imports", "base_ctor")
        s["eff_exports"] = eff(s, "exports", "base_get")
        inh_fields = []
        def allf(t, depth=0):
            r = []
            if depth < 8:
                for b in t["base_ids"]: r += allf(byid[b], depth + 1)
            return r + t["fields"]
        s["eff_fields"] = allf(s)
        for b in s["base_ids"]:
            byid[b]["derived_names"] += [f["name"] for f in s["fields"]] + [n for n, _, _ in s["imports"]]
    for s in structs:
        s["derived_names"] = sorted(set(s["derived_names"]))
    # ---- enums <- switches
    for i, e in enumerate(enums):
        e["id"] = "%s:%s" % (e["file"][len("amgcl/"):], "::".join(e["ns"][1:] + [e["enum"]]))
    for sw in switches:
        labs = [l.split("::")[-1] for l, _ in sw["cases"]]
        if not labs or not all(re.match(r"[A-Za-z_]\w*$", l) for l in labs): continue
        quals = set("::".join(l.split("::")[:-1]) for l, _ in sw["cases"])
        best = None; bscore = -1
        for e in enums:
            ov = len(set(labs) & set(e["enumerators"]))
            if ov == 0: continue
            score = ov * 10
            if e["file"] == sw["file"]: score += 5
            ens = "::".join(e["ns"])
            for q in quals:
                if q and (ens.endswith(q) or ("::".join(e["ns"] + [e["enum"]])).endswith(q)): score += 3
            if score > bscore: best, bscore = e, score
        if best is None: continue
        in_show = sw["fn"].startswith("operator<<") and all(re.search(r"return\s+\w+\s*<<\s*\"", t) for _, t in sw["cases"])
        if in_show: continue
        best["switches"].append(dict(file=sw["file"], line=sw["line"], fn=sw["fn"],
                                     cases=[(l.split("::")[-1], case_classes(t)) for l, t in sw["cases"]],
                                     default_throws=bool(sw["default"] and re.search(r"\bthrow\b", sw["default"])),
                                     has_default=sw["default"] is not None))
    return dict(structs=structs, enums=enums)


def class_head(expr):
    """amgcl::mpi::direct::pastix<value_type,true> -> pastix"""
    return drop_angles(expr).split("::")[-1]


def wrappers(data):
    """One wrapper per (file with switches, enum): the enum's own file first; a file that
    switches over an enum defined elsewhere (mpi/relaxation/runtime.hpp) is its own wrapper."""
    out = []
    for e in data["enums"]:
        files = []
        for sw in e["switches"]:
            if sw["file"] not in files: files.append(sw["file"])
        if e["file"] not in files: files.insert(0, e["file"])
        files.sort(key=lambda f: (f != e["file"], f))
        for f in files:
            wid = e["id"] if f == e["file"] else "%s:%s" % (f[len("amgcl/"):], e["id"].split(":", 1)[1])
            sws = []; seen = {}
            for sw in e["switches"]:
                if sw["file"] != f: continue
                fn = sw["fn"]; seen[fn] = seen.get(fn, 0) + 1
                if seen[fn] > 1: fn = "%s#%d" % (fn, seen[fn])
                sws.append(dict(fn=fn, line=sw["line"], cases=sw["cases"], default_throws=sw["default_throws"]))
            out.append(dict(id=wid, file=f, line=(e["line"] if f == e["file"] else (sws[0]["line"] if sws else 0)),
                            enum_id=e["id"], enumerators=e["enumerators"], out=e["out"], inp=e["inp"],
                            in_else_throws=e["in_else_throws"], switches=sws))
    return out


# --------------------------------------------------------------------------- Coq emission
def cs(s): return '"%s"' % s.replace('"', '""')
def clist(xs, f=cs): return "[" + "; ".join(f(x) for x in xs) + "]"
def ckind(k): return "KValue" if k == "value" else "KChild"

def emit_coq(data, exceptions, known, repo_label="<repo>"):
    """exceptions: {"keys":[{struct,key,why}], "partial_switches":[{wrapper,fn,why}], "name_is_class":[wrapper ids]}
       known: list of {struct, field} carved out of ok_struct (from known_findings.json)"""
    L = []
    L.append("(* ParamsGen.v -- GENERATED by tools/gen_params.py from the amgcl headers; do not edit.")
    L.append("   Regenerated before every `bin/check C14` / `bin/check C20` from $VERIF_REPO. *)")
    L.append("From Coq Require Import String List.")
    L.append("From Amgcl Require Import Ptree.")
    L.append("Import ListNotations.")
    L.append("Local Open Scope string_scope.")
    L.append("")
    L.append("(* reviewed pointer/array-valued or otherwise non-round-trippable keys (tools/params_exceptions.json) *)")
    L.append("Definition gen_exceptions : list (string * string) :=")
    L.append("  " + clist(exceptions.get("keys", []), lambda e: "(%s, %s)" % (cs(e["struct"]), cs(e["key"]))) + ".")
    L.append("(* (struct, field) pairs listed as status=known in known_findings.json: carved out, nothing else *)")
    L.append("Definition gen_known : list (string * string) :=")
    L.append("  " + clist(known, lambda e: "(%s, %s)" % (cs(e["struct"]), cs(e["field"]))) + ".")
    L.append("")
    names = []
    for k, s in enumerate(data["structs"]):
        nm = "s%d" % k; names.append(nm)
        L.append("(* %s:%d *)" % (s["file"], s["line"]))
        L.append("Definition %s : struct_desc := {|" % nm)
        L.append("  sd_id := %s;" % cs(s["id"]))
        L.append("  sd_bases := %s;" % clist(s["base_ids"]))
        L.append("  sd_unresolved_bases := %s;" % clist(s["unresolved_bases"]))
        L.append("  sd_fields := %s;" % clist(s["eff_fields"], lambda f: "(%s, %s, %s)" % (cs(f["name"]), ckind(f["kind"]), "true" if f["scalar"] else "false")))
        L.append("  sd_imports := %s;" % clist(s["eff_imports"], lambda e: "(%s, %s)" % (cs(e[0]), ckind(e[1]))))
        L.append("  sd_exports := %s;" % clist(s["eff_exports"], lambda e: "(%s, %s)" % (cs(e[0]), ckind(e[1]))))
        L.append("  sd_adhoc_in := %s;" % clist(s["adhoc_in"]))
        L.append("  sd_adhoc_out := %s;" % clist(s["adhoc_out"]))
        L.append("  sd_checked := %s;" % clist(s["checked"] + s["checked_opt"]))
        L.append("  sd_check_chain := %s;" % clist(s["check_chain"], clist))
        L.append("  sd_shadowed := %s;" % clist(s["shadowed"]))
        L.append("  sd_uninit := %s;" % clist(s["uninit"]))
        L.append("  sd_derived_names := %s;" % clist(s["derived_names"]))
        L.append("  sd_has_ctor := %s; sd_has_get := %s; sd_has_check := %s |}." % tuple(
            "true" if s[x] else "false" for x in ("has_ctor", "has_get", "has_check")))
    L.append("")
    L.append("Definition all_structs : list struct_desc :=\n  [" + "; ".join(names) + "].")
    L.append("")
    partial = set((p["wrapper"], p["fn"]) for p in exceptions.get("partial_switches", []))
    nic = set(exceptions.get("name_is_class", []))
    wn = []
    for k, w in enumerate(wrappers(data)):
        nm = "w%d" % k; wn.append(nm)
        L.append("(* %s:%d *)" % (w["file"], w["line"]))
        L.append("Definition %s : wrapper_desc := {|" % nm)
        L.append("  wd_id := %s;" % cs(w["id"]))
        L.append("  wd_enum := %s;" % clist(w["enumerators"]))
        L.append("  wd_show := %s;" % clist(w["out"], lambda p: "(%s, %s)" % (cs(p[0]), cs(p[1]))))
        L.append("  wd_parse := %s;" % clist(w["inp"], lambda p: "(%s, %s)" % (cs(p[0]), cs(p[1]))))
        L.append("  wd_parse_else_throws := %s;" % ("true" if w["in_else_throws"] else "false"))
        L.append("  wd_name_is_class := %s;" % ("true" if w["id"] in nic else "false"))
        L.append("  wd_switches := [")
        sws = []
        for sw in w["switches"]:
            sws.append("    {| sw_fn := %s; sw_partial := %s; sw_default_throws := %s;\n       sw_cases := %s;\n       sw_heads := %s |}" % (
                cs(sw["fn"]),
                "true" if (w["id"], sw["fn"]) in partial else "false",
                "true" if sw["default_throws"] else "false",
                clist(sw["cases"], lambda c: "(%s, %s)" % (cs(c[0]), clist(c[1]))),
                clist(sw["cases"], lambda c: "(%s, %s)" % (cs(c[0]), clist([class_head(x) for x in c[1]])))))
        L.append(";\n".join(sws))
        L.append("  ] |}.")
    L.append("")
    L.append("Definition all_wrappers : list wrapper_desc :=\n  [" + "; ".join(wn) + "].")
    L.append("")
    return "\n".join(L) + "\n"


def load_known(verif):
    sys.path.insert(0, os.path.join(verif, "tools"))
    import vcheck
    kf = vcheck.load_known_findings()
    out = []
    for k in kf.get("findings", []):
        if k.get("property") == "C14" and k.get("status") == "known":
            sig = k.get("signature", {})
            if "struct" in sig and "field" in sig:
                out.append(dict(struct=sig["struct"], field=sig["field"], id=k.get("id")))
    return out


def generate(repo, verif, out=None):
    data = parse(repo)
    exc = json.load(open(os.path.join(verif, "tools", "params_exceptions.json")))
    known = load_known(verif)
    txt = emit_coq(data, exc, known)
    out = out or os.path.join(verif, "coq", "ParamsGen.v")
    if not os.path.exists(out) or open(out).read() != txt:
        tmp = out + ".tmp%d" % os.getpid()
        open(tmp, "w").write(txt); os.replace(tmp, out)
    return data, exc, known


if __name__ == "__main__":
    import argparse
    ap = argparse.ArgumentParser()
    ap.add_argument("--repo", default=os.environ.get("VERIF_REPO", "/repo"))
    ap.add_argument("--out", default=None)
    ap.add_argument("--json", default=None)
    ap.add_argument("--dump", action="store_true")
    a = ap.parse_args()
    verif = os.path.dirname(os.path.dirname(os.path.abspath(__file__)))
    if a.dump:
        d = parse(a.repo)
        for s in d["structs"]:
            print(s["id"], "L%d" % s["line"], "bases", s["base_ids"], s["unresolved_bases"])
            print("   fields ", [(f["name"], f["kind"], f["cls"], f["type"]) for f in s["eff_fields"]])
            print("   imports", s["eff_imports"]); print("   exports", s["eff_exports"])
            print("   adhoc  ", s["adhoc_in"], s["adhoc_out"], "checked", s["checked"], s["checked_opt"], "derived", s["derived_names"],
                  "ctor/get/check", s["has_ctor"], s["has_get"], s["has_check"], s.get("init_other"))
        for e in d["enums"]:
            print(e["id"], e["enumerators"]); print("   out", e["out"]); print("   in ", e["inp"], e["in_else_throws"])
            for sw in e["switches"]: print("   switch", sw["file"], sw["line"], sw["fn"], sw["cases"], "default_throws", sw["default_throws"])
    else:
        data, exc, known = generate(a.repo, verif, a.out)
        if a.json: json.dump(data, open(a.json, "w"), indent=1, default=str)
        print("structs %d, enums %d" % (len(data["structs"]), len(data["enums"])))
