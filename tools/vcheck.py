#!/usr/bin/env python3
"""vcheck.py -- the generic check runner.

    bin/check Cxx [--tier quick|thorough] [--seed N] [--replay FILE]

One run of a property check does (DESIGN.md section 2.1):
  1. proof side   : make -C coq (full .vo build, incremental), then re-run
                    coqc on Properties_Cxx.v, collect Print Assumptions output,
                    grep the development for forbidden constructs;
  2. build        : extraction + OCaml model driver, C++ harness drivers compiled
                    against the CURRENT /repo working tree (content-hash cache);
  3. correspondence: seeded case generation, implementation and model run on the
                    same cases, canonical output lines compared byte for byte;
  4. oracles      : property oracles evaluated on the implementation's outputs by
                    the extracted Coq *specification* functions (second stage);
  5. verdict      : VIOLATION lines / KNOWN-FINDING lines, replay files, evidence.
"""
import sys
sys.set_int_max_str_digits(0)
import argparse, hashlib, importlib, json, os, random, re, shutil, subprocess, sys, time, fcntl, glob

VERIF = os.path.dirname(os.path.dirname(os.path.abspath(__file__)))
REPO = os.environ.get("VERIF_REPO", "/repo")
COQ = os.path.join(VERIF, "coq")
CACHE = os.path.join(VERIF, ".cache")
BUILD = os.path.join(VERIF, "build")
NPROC = int(os.environ.get("VERIF_JOBS", "16"))
CXXFLAGS = ["-std=c++11", "-O1", "-fopenmp", "-ffp-contract=off", "-Wno-cpp", "-Wno-deprecated-declarations",
            "-DAMGCL_VERIF", "-I/usr/include/eigen3", "-I" + REPO, "-I" + os.path.join(VERIF, "harness")]
FORBIDDEN = re.compile(r"\b(Admitted|admit|Axiom|Axioms|Parameter|Parameters|Conjecture|Conjectures)\b|Unset Guard|bypass_check|type-in-type|impredicative-set|Admit Obligations|Unset Universe Checking|Unset Positivity")

sys.path.insert(0, os.path.join(VERIF, "tools"))


def sh(cmd, timeout=None, cwd=None, env=None, inp=None):
    p = subprocess.run(cmd, cwd=cwd, env=env, input=inp, stdout=subprocess.PIPE, stderr=subprocess.STDOUT,
                       timeout=timeout, text=True)
    return p.returncode, p.stdout


class Lock:
    def __init__(self, name):
        os.makedirs(CACHE, exist_ok=True)
        self.path = os.path.join(CACHE, name + ".lock")
    def __enter__(self):
        self.f = open(self.path, "w"); fcntl.flock(self.f, fcntl.LOCK_EX); return self
    def __exit__(self, *a):
        fcntl.flock(self.f, fcntl.LOCK_UN); self.f.close()


def file_hash(paths):
    h = hashlib.sha256()
    for p in sorted(paths):
        h.update(p.encode()); h.update(b"\0")
        try:
            with open(p, "rb") as f: h.update(f.read())
        except OSError:
            h.update(b"<missing>")
    return h.hexdigest()


def repo_sources():
    out = []
    for root in ("amgcl", "lib"):
        for d, _, fs in os.walk(os.path.join(REPO, root)):
            for f in fs:
                if f.endswith((".hpp", ".h", ".cpp", ".c")):
                    out.append(os.path.join(d, f))
    return out


# ---------------------------------------------------------------- proof side
def coq_closure(roots):
    """dependency closure (as .vo targets, in build order) of the given coq/*.v files"""
    rc, dep = sh(["coqdep", "-Q", ".", "Amgcl", "-sort"] + [os.path.basename(r) for r in roots], cwd=COQ)
    out = []
    for d in dep.split():
        b = os.path.basename(d)
        if b.endswith(".v") and not b.startswith("Extract_") and os.path.exists(os.path.join(COQ, b)):
            out.append(b[:-2] + ".vo")
    return out


def coq_build(log, prop=None, group=None):
    """Full .vo build (no -vos) of what this property needs: the dependency closure of
    Properties_<prop>.v and of Extract_<group>.v.  (bin/setup builds the whole development.)
    The lock only serialises writers of .vo files; closures are small so it is held briefly."""
    roots = []
    if prop: roots.append(os.path.join(COQ, "Properties_%s.v" % prop))
    if group: roots.append(os.path.join(COQ, "Extract_%s.v" % group))
    roots = [r for r in roots if os.path.exists(r)]
    with Lock("coq"):
        mk_coqproject()
        if not os.path.exists(os.path.join(COQ, "Makefile")) or \
           os.path.getmtime(os.path.join(COQ, "Makefile")) < os.path.getmtime(os.path.join(COQ, "_CoqProject")):
            sh(["coq_makefile", "-f", "_CoqProject", "-o", "Makefile"], cwd=COQ)
        targets = coq_closure(roots) if roots else []
        rc, out = sh(["timeout", "3000", "make", "-k", "-j%d" % NPROC] + targets, cwd=COQ, timeout=3100)
    log.append(("coq make %s" % " ".join(targets[-3:]), rc))
    return rc == 0, out


def coq_properties(prop, log):
    """Re-run coqc on Properties_<prop>.v; return dict(obligations, discharged, assumptions, ok, out)."""
    pf = os.path.join(COQ, "Properties_%s.v" % prop)
    src = open(pf).read()
    src_nc = re.sub(r"\(\*.*?\*\)", "", src, flags=re.S)
    theorems = re.findall(r"^\s*Theorem\s+(\w+)", src_nc, flags=re.M)
    with Lock("coq"):
        rc, out = sh(["timeout", "900", "coqc", "-Q", ".", "Amgcl", os.path.basename(pf)], cwd=COQ, timeout=1000)
    # Print Assumptions output: "Closed under the global context" or "Axioms:\n name : type"
    axioms = []
    blocks = re.split(r"\n(?=Closed under the global context|Axioms:)", "\n" + out)
    for b in blocks:
        if b.startswith("Axioms:"):
            for m in re.finditer(r"^([\w\.']+)\s*:", b[len("Axioms:"):], flags=re.M):
                if m.group(1) not in axioms: axioms.append(m.group(1))
    closed = len(re.findall(r"Closed under the global context", out))
    ok = (rc == 0)
    failing = None
    if not ok:
        m = re.search(r'File "[^"]*", line (\d+)', out)
        if m:
            ln = int(m.group(1)); pre = src.split("\n")[:ln]
            for l in reversed(pre):
                mm = re.match(r"\s*Theorem\s+(\w+)", l)
                if mm: failing = mm.group(1); break
    # forbidden constructs anywhere in the development
    bad = []
    for f in sorted(glob.glob(os.path.join(COQ, "*.v"))):
        if f.endswith("_wip.v"): continue      # scratch files of work in progress: git-ignored, never built, never imported
        txt = re.sub(r"\(\*.*?\*\)", "", open(f).read(), flags=re.S)
        for i, l in enumerate(txt.split("\n")):
            if FORBIDDEN.search(l):
                bad.append("%s:%d:%s" % (os.path.basename(f), i + 1, l.strip()[:80]))
    return dict(theorems=theorems, obligations=len(theorems), discharged=(len(theorems) if ok else 0),
                ok=ok, out=out, axioms=axioms, closed=closed, failing=failing, forbidden=bad)


# ---------------------------------------------------------------- builds
def mk_coqproject():
    """_CoqProject lists every coq/*.v (Extract_*.v excluded: they are run from the build dir)."""
    files = sorted(os.path.basename(f) for f in glob.glob(os.path.join(COQ, "*.v")) if not os.path.basename(f).startswith("Extract_") and not f.endswith("_wip.v"))
    txt = "-Q . Amgcl\n" + "\n".join(files) + "\n"
    p = os.path.join(COQ, "_CoqProject")
    if not os.path.exists(p) or open(p).read() != txt:
        open(p, "w").write(txt)


def build_model(log, group="kernels"):
    """Extract (coq/Extract_<group>.v) and build the OCaml model driver of a group:
    ocaml/io.ml + ocaml/<group>/*.ml + ocaml/main.ml. Returns path or raises."""
    with Lock("ocaml_" + group):
        ext = os.path.join(COQ, "Extract_%s.v" % group)
        rc, dep = sh(["coqdep", "-Q", ".", "Amgcl", "-sort", os.path.basename(ext)], cwd=COQ)
        deps = [os.path.join(COQ, re.sub(r"\.v$", ".vo", d.replace("./", ""))) for d in dep.split() if not os.path.basename(d).startswith("Extract_")]
        srcs = deps + [ext, os.path.join(VERIF, "ocaml", "io.ml"), os.path.join(VERIF, "ocaml", "main.ml")] + \
            sorted(glob.glob(os.path.join(VERIF, "ocaml", group, "*.ml")))
        key = file_hash(srcs)
        d = os.path.join(BUILD, "ocaml", group)
        exe = os.path.join(d, "model_drv")
        stamp = os.path.join(d, "stamp")
        if os.path.exists(exe) and os.path.exists(stamp) and open(stamp).read() == key:
            return exe
        shutil.rmtree(d, ignore_errors=True); os.makedirs(d)
        shutil.copy(ext, d)
        rc, out = sh(["timeout", "900", "coqc", "-Q", COQ, "Amgcl", os.path.basename(ext)], cwd=d, timeout=1000)
        if rc != 0: raise RuntimeError("extraction failed:\n" + out)
        for f in [os.path.join(VERIF, "ocaml", "io.ml"), os.path.join(VERIF, "ocaml", "main.ml")] + glob.glob(os.path.join(VERIF, "ocaml", group, "*.ml")):
            shutil.copy(f, d)
        files = [f for f in os.listdir(d) if f.endswith((".ml", ".mli")) and f != "main.ml"]
        rc, out = sh(["ocamlfind", "ocamldep", "-sort"] + files, cwd=d)
        order = out.split()
        rc, out = sh(["ocamlfind", "ocamlopt", "-w", "-a", "-package", "zarith", "-linkpkg"] + order + ["main.ml", "-o", "model_drv"], cwd=d, timeout=900)
        if rc != 0: raise RuntimeError("ocaml build failed:\n" + out)
        open(stamp, "w").write(key)
        log.append(("ocaml build " + group, 0))
        return exe


def build_cpp(names, log, extra_flags=None):
    """Compile harness/drv_<name>.cpp against the current /repo tree. Content-hash cache."""
    rs = repo_sources()
    hs = sorted(glob.glob(os.path.join(VERIF, "harness", "*.hpp")))
    res = {}
    todo = []
    for n in names:
        # "base@variant": same source, flag set extra_flags["@variant"] (e.g. sanitizers, poison)
        base, _, var = n.partition("@")
        flags = list(CXXFLAGS) + list((extra_flags or {}).get(n, [])) + list((extra_flags or {}).get("@" + var, []) if var else [])
        src = os.path.join(VERIF, "harness", "drv_%s.cpp" % base)
        # files the driver includes with #include "..." from harness/ (drv_blocks3.cpp includes drv_blocks.cpp; *.hh headers)
        inc = []
        try:
            for m in re.findall(r'^\s*#\s*include\s+"([^"]+)"', open(src).read(), re.M):
                q = os.path.join(VERIF, "harness", m)
                if os.path.exists(q) and q not in hs: inc.append(q)
                if os.path.exists(q) and q.endswith(".cpp"):
                    for m2 in re.findall(r'^\s*#\s*include\s+"([^"]+)"', open(q).read(), re.M):
                        q2 = os.path.join(VERIF, "harness", m2)
                        if os.path.exists(q2) and q2 not in hs and q2 not in inc: inc.append(q2)
        except OSError: pass
        key = file_hash(rs + hs + sorted(inc) + [src]) + hashlib.sha256(" ".join(flags).encode()).hexdigest()[:8]
        d = os.path.join(CACHE, "cpp", n.replace("@", "__"))
        os.makedirs(d, exist_ok=True)
        exe = os.path.join(d, key[:24] + key[-8:])   # sources hash + flags hash
        res[n] = exe
        if not os.path.exists(exe):
            todo.append((n, src, exe, flags))
    procs = []
    for n, src, exe, flags in todo:
        tmp = exe + ".tmp%d" % os.getpid()
        cmd = ["timeout", "1500", "g++"] + flags + [src, "-o", tmp]
        if "mpi" in n: cmd[2] = "mpicxx"
        procs.append((n, exe, tmp, subprocess.Popen(cmd, stdout=subprocess.PIPE, stderr=subprocess.STDOUT, text=True)))
    errs = {}
    for n, exe, tmp, p in procs:
        out, _ = p.communicate()
        if p.returncode != 0:
            errs[n] = out
        else:
            os.replace(tmp, exe)
            # keep only the 2 most recent binaries per driver
            d = os.path.dirname(exe)
            olds = sorted([os.path.join(d, f) for f in os.listdir(d) if ".tmp" not in f], key=os.path.getmtime)
            for o in olds[:-8]:
                try: os.remove(o)
                except OSError: pass
        log.append(("g++ " + n, p.returncode))
    return res, errs


# ---------------------------------------------------------------- running cases
def run_driver(exe, lines, env_extra=None, shards=NPROC, timeout=1800, prefix=None):
    """Run a line-oriented driver on the cases, sharded; returns dict id -> output payload."""
    if not lines: return {}
    shards = max(1, min(shards, len(lines)))
    parts = [[] for _ in range(shards)]
    for i, l in enumerate(lines): parts[i % shards].append(l)
    env = dict(os.environ); env.setdefault("OMP_NUM_THREADS", "1")
    if env_extra: env.update(env_extra)
    procs = []
    for part in parts:
        cmd = (prefix or []) + [exe]
        p = subprocess.Popen(["timeout", str(timeout)] + cmd, stdin=subprocess.PIPE, stdout=subprocess.PIPE,
                             stderr=subprocess.PIPE, text=True, env=env)
        procs.append((p, part))
    out = {}
    import threading
    results = [None] * len(procs)
    def work(k):
        p, part = procs[k]
        o, e = p.communicate("\n".join(part) + "\n")
        results[k] = (p.returncode, o, e)
    ths = [threading.Thread(target=work, args=(k,)) for k in range(len(procs))]
    for t in ths: t.start()
    for t in ths: t.join()
    for k, (p, part) in enumerate(procs):
        rc, o, e = results[k]
        seen = set()
        for l in o.split("\n"):
            if not l.strip(): continue
            sp = l.split(" ", 2)
            if len(sp) < 2: continue
            out[sp[0]] = sp[2] if len(sp) > 2 else ""
            seen.add(sp[0])
        if rc != 0:
            # the driver died: the first unanswered case of this shard is the culprit
            for l in part:
                cid = l.split(" ", 1)[0]
                if cid not in seen:
                    out[cid] = "CRASH rc=%d %s" % (rc, (e or "").strip().split("\n")[-1][:200])
                    break
    return out


# ---------------------------------------------------------------- helpers for property modules
class Rng(random.Random):
    pass


def fmt_q(x):
    from fractions import Fraction
    x = Fraction(x)
    return str(x.numerator) if x.denominator == 1 else "%d/%d" % (x.numerator, x.denominator)

def fmt_vec(v): return " ".join([str(len(v))] + [fmt_q(x) for x in v])
def fmt_ivec(v): return " ".join([str(len(v))] + [str(int(x)) for x in v])
def fmt_crs(n, m, rows):
    """rows: list of lists of (col, value)"""
    out = [str(n), str(m)]
    for r in rows:
        out.append(str(len(r)))
        for c, v in r: out += [str(c), fmt_q(v)]
    return " ".join(out)

def parse_out_vec(s):
    from fractions import Fraction
    s = s.strip(); assert s[0] == "[" and s[-1] == "]", s
    return [Fraction(x) for x in s[1:-1].split()]

def parse_out_crs(s):
    """'{n m | c:v c:v | ...}' -> (n, m, rows)"""
    from fractions import Fraction
    s = s.strip(); assert s[0] == "{" and s[-1] == "}", s
    parts = s[1:-1].split("|")
    n, m = [int(x) for x in parts[0].split()]
    rows = []
    for p in parts[1:]:
        r = []
        for e in p.split():
            c, v = e.split(":"); r.append((int(c), Fraction(v)))
        rows.append(r)
    assert len(rows) == n, (n, len(rows))
    return n, m, rows

def split_top(s):
    """split an output payload into top-level items: [..] vectors, {..} matrices, bare tokens"""
    items = []; i = 0; s = s.strip()
    while i < len(s):
        if s[i] == " ": i += 1; continue
        if s[i] in "[{":
            close = "]" if s[i] == "[" else "}"
            j = s.index(close, i); items.append(s[i:j + 1]); i = j + 1
        else:
            j = s.find(" ", i); j = len(s) if j < 0 else j
            items.append(s[i:j]); i = j
    return items


def load_known_findings():
    """known_findings.json (merged, committed) + known_findings.d/<id>.json (one file per finding,
    so concurrent editors do not overwrite each other); entries are keyed by id, .d wins."""
    out = {}
    p = os.path.join(VERIF, "known_findings.json")
    if os.path.exists(p):
        for f in json.load(open(p)).get("findings", []): out[f["id"]] = f
    for q in sorted(glob.glob(os.path.join(VERIF, "known_findings.d", "*.json"))):
        try:
            f = json.load(open(q)); out[f["id"]] = f
        except Exception as e:
            print("warning: unreadable known finding %s: %s" % (q, e))
    return dict(findings=list(out.values()))


# ---------------------------------------------------------------- main
def main():
    ap = argparse.ArgumentParser()
    ap.add_argument("prop")
    ap.add_argument("--tier", default=os.environ.get("VERIF_TIER", "quick"))
    ap.add_argument("--seed", type=int, default=int(os.environ.get("VERIF_SEED", "20261001")))
    ap.add_argument("--replay", default=None)
    ap.add_argument("--keep", action="store_true", help="keep case/output files in build/run")
    args = ap.parse_args()
    prop, tier, seed = args.prop, args.tier, args.seed
    if tier not in ("quick", "thorough"): tier = "quick"
    t0 = time.time()
    log = []
    mod = importlib.import_module("props." + prop)
    os.makedirs(os.path.join(VERIF, "evidence"), exist_ok=True)
    os.makedirs(os.path.join(VERIF, "replay"), exist_ok=True)
    evpath = os.path.join(VERIF, "evidence", prop + ".json")
    if os.path.realpath(REPO) != "/repo":
        # a run against a scratch copy (tools/try_patch.sh) must not overwrite the committed evidence
        os.makedirs(os.path.join(BUILD, "evidence_scratch"), exist_ok=True)
        evpath = os.path.join(BUILD, "evidence_scratch", prop + ".json")

    violations = []   # (kind, detail dict)
    known_lines = []

    # translator hook (regenerates Coq sources from /repo), before the Coq build
    if hasattr(mod, "pre_coq"):
        mod.pre_coq(REPO, VERIF, tier, seed)

    # 1. proof side
    ok_build, build_out = coq_build(log, prop, getattr(mod, "MODEL", "kernels"))
    pr = coq_properties(prop, log)
    if pr["forbidden"]:
        violations.append(("forbidden-construct", dict(theorem="(development)", detail=pr["forbidden"][:10])))
    if not pr["ok"]:
        violations.append(("broken-theorem", dict(theorem=pr["failing"] or "Properties_%s.v" % prop,
                                                   detail=pr["out"][-3000:])))

    # thorough tier: independent re-check of the compiled property module and everything it depends
    # on with coqchk; -o lists the axioms of all loaded libraries
    coqchk_note = None
    if tier == "thorough" and pr["ok"] and not os.environ.get("VERIF_NO_COQCHK"):
        with Lock("coq"):
            # (Properties_C02 and its closure take well over half an hour; the limit is generous because running out of time is not
            #  a failed re-check: rc 124 is recorded as "not finished", every other non-zero rc is a violation)
            rc, out = sh(["timeout", "9000", "coqchk", "-o", "-silent", "-Q", ".", "Amgcl", "Amgcl.Properties_%s" % prop], cwd=COQ, timeout=9100)
        m = re.search(r"\* Axioms:(.*?)\n\s*\n\* Constants", out, flags=re.S)
        ax = " ".join((m.group(1) if m else "?").split())
        coqchk_note = "coqchk -o Amgcl.Properties_%s: rc=%d, axioms: %s" % (prop, rc, ax)
        log.append(("coqchk Properties_%s" % prop, rc))
        if rc == 124:
            coqchk_note = "coqchk -o Amgcl.Properties_%s: NOT FINISHED within 9000 s (no verdict from the independent checker in this run; coqc accepted every file and Print Assumptions is complete)" % prop
        elif rc != 0:
            violations.append(("broken-theorem", dict(theorem="coqchk Properties_%s" % prop, detail=out[-3000:])))

    # 2. builds
    model = None; cpp = {}; cpp_err = {}
    try:
        model = build_model(log, getattr(mod, "MODEL", "kernels"))
    except Exception as e:
        violations.append(("broken-model-build", dict(theorem="Extract.v / OCaml driver", detail=str(e)[-3000:])))
    drivers = getattr(mod, "DRIVERS", [])
    cpp, cpp_err = build_cpp(drivers, log, getattr(mod, "EXTRA_FLAGS", None))
    for n, e in cpp_err.items():
        violations.append(("harness-does-not-compile", dict(theorem="correspondence harness drv_%s.cpp vs current /repo" % n,
                                                             detail=e[-3000:])))

    # 3./4. correspondence + oracles
    stats = dict(evaluations=0, distinct=set(), nontrivial=0, traces=0, by_op={}, samples=[], mismatches=0, oracle_fail=0,
                 oracle_checks=0)
    ctx = dict(model=model, cpp=cpp, tier=tier, seed=seed, run_driver=run_driver, verif=VERIF, repo=REPO,
               stats=stats, log=log, build_cpp=build_cpp)
    fails = []
    if model and not cpp_err:
        if args.replay:
            rp = json.load(open(args.replay))
            cases = rp.get("case_lines") or [rp["case"]]
            fails = mod.run(ctx, cases_override=cases)
        else:
            fails = mod.run(ctx)
    # fails: list of dict(kind, case, impl, model, oracle, op, size)
    kf = load_known_findings()
    known = [k for k in kf.get("findings", []) if k.get("property") == prop and k.get("status") == "known"]
    new_fails = []; known_hit = {}
    for f in fails:
        sig = mod.classify(f) if hasattr(mod, "classify") else {}
        f["signature"] = sig
        hit = None
        for k in known:
            if all(sig.get(a) == b for a, b in k.get("signature", {}).items()) and k.get("signature"):
                hit = k; break
        if hit: known_hit.setdefault(hit["id"], (hit, []))[1].append(f)
        else: new_fails.append(f)
    for kid, (k, fl) in known_hit.items():
        known_lines.append("KNOWN-FINDING: property=%s %s (%d case(s) this run; id=%s)" % (prop, k["what"], len(fl), kid))
    if os.environ.get("VERIF_DEBUG"):
        os.makedirs(os.path.join(BUILD, "run"), exist_ok=True)
        json.dump(fails, open(os.path.join(BUILD, "run", "%s-fails.json" % prop), "w"), indent=1, default=str)
    if new_fails:
        new_fails.sort(key=lambda f: (f.get("size", 0), len(f.get("case", ""))))
        f = new_fails[0]
        violations.append((f.get("kind", "counterexample"), dict(theorem=f.get("theorem", "correspondence"),
                           case=f.get("case"), case_lines=f.get("case_lines"), impl_output=f.get("impl"), model_output=f.get("model"),
                           oracle=f.get("oracle"), signature=f.get("signature"), n_failing=len(new_fails),
                           has_input=f.get("has_input", True))))

    # 5. verdict
    exit_code = 0
    out_lines = []
    for kind, d in violations:
        h = hashlib.sha256(json.dumps(d, sort_keys=True, default=str).encode()).hexdigest()[:12]
        rpath = os.path.join(VERIF, "replay", "%s-%s.json" % (prop, h))
        d2 = dict(property=prop, kind=kind, seed=seed, tier=tier); d2.update(d)
        json.dump(d2, open(rpath, "w"), indent=1, default=str)
        has_input = d.get("case") is not None and d.get("has_input", True)
        out_lines.append("VIOLATION property=%s replay=%s%s" % (prop, rpath, "" if has_input else " no-failing-input-found"))
        exit_code = 1
    for l in known_lines: print(l)
    for l in out_lines: print(l)

    # evidence
    tb = list(getattr(mod, "TRUSTED_BASE", []))
    base_tb = [
        "Coq 8.16.1 kernel (coqc), vm_compute; no native_compute",
        "Print Assumptions for Properties_%s.v: %s" % (prop, ("axioms: " + ", ".join(pr["axioms"])) if pr["axioms"] else
            "Closed under the global context (%d theorems printed)" % pr["closed"]),
        "extraction: ExtrOcamlBasic, ExtrOcamlNatInt (nat->int), ExtrOcamlZBigInt (positive/N/Z->Big_int_Z), OCaml 4.13.1, zarith 1.12",
        "correspondence harness: harness/vq_rational.hpp (boost cpp_rational), harness/drv_*.cpp, ocaml/*.ml, tools/*.py; g++ 12, libgomp",
        "modelling assumption: amgcl templates instantiated at vq::Q run the same algorithm as at double",
    ]
    if coqchk_note: base_tb.append(coqchk_note)
    ev = dict(property_id=prop, tier=tier, seed=seed, level="proof",
              coverage=dict(
                  obligations=pr["obligations"], discharged=pr["discharged"],
                  checker_cmd="make -C coq -j16 && coqc -Q coq Amgcl coq/Properties_%s.v" % prop,
                  trusted_base=base_tb + tb,
                  theorems=pr["theorems"],
                  evaluations=stats["evaluations"], distinct_nontrivial=stats["nontrivial"],
                  rule=getattr(mod, "RULE", "cases derived from VERIF_SEED by tools/props/%s.py; distinct = distinct case payload; non-trivial = implementation output contains a non-zero value and is not an exception" % prop),
                  samples=stats["samples"][:8],
                  traces_validated_against_impl=stats["traces"],
                  oracle_checks=stats["oracle_checks"],
                  by_op=stats["by_op"],
                  mismatches=stats["mismatches"], known_findings_hit=sorted(known_hit.keys()),
                  steps=log),
              assumptions=list(getattr(mod, "ASSUMPTIONS", [])),
              wall_s=round(time.time() - t0, 2), violations=len(violations))
    json.dump(ev, open(evpath, "w"), indent=1, default=str)
    print("check %s tier=%s seed=%d: theorems %d/%d, cases %d (nontrivial %d), mismatches %d, oracle checks %d, %.1fs -> %s" % (
        prop, tier, seed, pr["discharged"], pr["obligations"], stats["evaluations"], stats["nontrivial"],
        stats["mismatches"], stats["oracle_checks"], time.time() - t0, "FAIL" if exit_code else "ok"))
    sys.exit(exit_code)


if __name__ == "__main__":
    main()
