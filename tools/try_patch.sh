#!/bin/bash
# tools/try_patch.sh <name> <patch.diff> <prop> [<prop>...]
# Apply a patch to a scratch copy of /repo (outside /repo and /verif), run the given checks
# against it (VERIF_REPO), print their verdict lines, remove the copy.
name=$1; patch=$(readlink -f "$2"); shift 2
d=/tmp/try_$name
rm -rf $d; mkdir -p $d; rsync -a --exclude _build --exclude .git /repo/ $d/
( cd $d && git init -q . 2>/dev/null; git -C $d apply --unsafe-paths "$patch" 2>/dev/null || patch -d $d -p1 < "$patch" >/dev/null ) || { echo "patch failed"; rm -rf $d; exit 2; }
for p in "$@"; do
  echo "== $name vs $p"
  ( cd /verif && VERIF_REPO=$d timeout 3000 bin/check $p 2>&1 | grep -E "VIOLATION|KNOWN|^check" | cut -c1-230 )
done
rm -rf $d
